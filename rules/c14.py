"""C14 Date arithmetic is consistent.  DESIGN.md section 4, C14."""
import os
import re

import cg
import facts
import hirutil as H
import k2
from facts import AnchorLost, ap_str, ap_calls, hir_walk

CORE = "rink_core"

# documented range of every numeric Match keyword (datepatterns grammar): keyword -> (digits, lo, hi)
KEYWORD_RANGES = {"fullyear": (4, 0, 9999), "shortyear": (2, 0, 99), "century": (2, 0, 99), "monthnum": (2, 1, 12), "day": (0, 1, 31),
                  "fullday": (2, 1, 31), "min": (2, 0, 59), "ordinal": (3, 1, 366), "isoyear": (4, 0, 9999), "isoweek": (2, 1, 53),
                  # clock fields (parsed with parse_range in arms of their own): ISO 8601 / chrono ranges, second 60 is the leap second
                  "hour12": (2, 1, 12), "hour24": (2, 0, 23), "sec": (2, 0, 60)}


def run(chk, F):
    chk.explanation = (
        "(a) range gates: the Offset conversion builds its FixedOffset only from east_opt's Some result (consumed by `?`, no "
        "unwrap), to_duration converts to integers only behind the magnitude test and with the None of to_int() propagated "
        "(non-finite values refused); (b) instant +- duration goes through checked_add_signed/checked_sub_signed whose None "
        "becomes an error, and no unchecked `DateTime + Duration` operator is reachable in core; (c) re-zoning uses "
        "DateTime::with_timezone (instant-preserving) only; (d) every keyword used in datepatterns.txt has an arm in "
        "parse_date with the documented digit count and range, and every pattern line parses; (f) scale constants: "
        "to_duration multiplies seconds by 10^3 for Duration::milliseconds and the sub-millisecond remainder by 10^6 for "
        "Duration::nanoseconds (product 10^9), from_duration divides num_milliseconds by 10^3 and the nanosecond rest by 10^9. "
        "The round-trip laws and agreement with the Gregorian calendar depend on chrono and on values and are not decided.")
    chk.guard("offset-gate", "eval_query", lambda: offset_gate(chk, F))
    chk.guard("duration-gate", "to_duration", lambda: duration_gate(chk, F))
    chk.guard("checked-arithmetic", "Value ops", lambda: checked(chk, F))
    chk.guard("instant-preserving", "zone conversions", lambda: zones(chk, F))
    chk.guard("keyword-table", "datepatterns.txt", lambda: keywords(chk, F))
    chk.guard("pattern-table", "datepatterns.txt", lambda: pattern_overlap(chk, F))
    chk.guard("scale-constants", "to/from_duration", lambda: scales(chk, F))
    chk.guard("offset-arithmetic", "parse_date", lambda: offset_arith(chk, F))
    chk.guard("operator-table", "Value Add/Sub", lambda: operator_table(chk, F))
    chk.guard("literal-fields", "datetime::attempt / parse_date", lambda: literal_fields(chk, F))
    import castaudit
    chk.guard("no-silent-wrap", "cast audit", lambda: castaudit.run(chk, F, "C14"))
    chk.floor("no-silent-wrap", 12, "(date-field casts in parse_date and DateReply::new)")


def offset_gate(chk, F):
    fn = F.find(CORE, "runtime::eval::eval_query")
    fk = "rink_core::runtime::eval::eval_query"
    sites = []
    for bb, t in fn.calls():
        if "callee" in t and t["callee"]["path"].endswith("types::date::GenericDateTime::with_timezone"):
            ap = fn.apath(t["args"][1])
            if "FixedOffset" in ap_str(ap) or "east_opt" in ap_str(ap):
                sites.append((bb, t, ap))
    if len(sites) != 1:
        raise AnchorLost("eval_query: cannot find the with_timezone call of the Offset conversion (found %d)" % len(sites))
    bb, t, ap = sites[0]
    s = ap_str(ap)
    calls = ap_calls(ap)
    uses_east = "chrono::offset::fixed::FixedOffset::east_opt" in s
    bad = [c for c in calls if c.endswith(("::unwrap", "::expect", "::unwrap_unchecked", "::unwrap_or_default"))]
    tried = any(c.endswith("Try>::branch") for c in calls) and "as Continue" in s
    # ... or an explicit match on it: the call lies behind the Some edge of a test of east_opt's answer
    gds = [fn.guard_desc(g) for g in fn.guards_of(bb)]
    tried = tried or ("as Some" in s and any(d[0] == "variant" and d[3] in ("Some", "Ok", "Continue") and "FixedOffset::east_opt" in ap_str(d[1]) for d in gds))
    chk.decide(uses_east and not bad and tried, "offset-gate", fk, "offset-from-east_opt-some", fn.where(bb),
               "the target offset is east_opt's Some value, its None turned into an error by `?` (offsets outside +-24 h are refused)",
               "the Offset conversion does not refuse out-of-range offsets: the FixedOffset comes from %s" % s[:200])
    # no narrowing cast of the offset before the range check
    casts = [st for i, j, st in fn.stmts() if st.get("rv", {}).get("k") == "cast" and st["rv"]["ck"] == "IntToInt" and st["rv"]["from"] == "i64" and st["rv"]["to"] == "i32"
             and "as Offset" in ap_str(fn.apath(st["rv"]["a"]))]
    chk.decide(not casts, "offset-gate", fk, "no-truncating-cast", fn.where(bb), "the i64 offset is converted with a checked conversion", "the offset is truncated with `as i32` before any range check")


def duration_gate(chk, F):
    fn = F.find(CORE, "parsing::datetime::to_duration")
    fk = "rink_core::parsing::datetime::to_duration"
    ctors = [(bb, t) for bb, t in fn.calls() if "callee" in t and t["callee"]["path"].endswith(("TimeDelta::milliseconds", "TimeDelta::nanoseconds"))]
    if len(ctors) != 2:
        raise AnchorLost("to_duration: expected Duration::milliseconds and Duration::nanoseconds, found %d" % len(ctors))
    for bb, t in ctors:
        ap = fn.apath(t["args"][0])
        calls = ap_calls(ap)
        s = ap_str(ap)
        bad = [c for c in calls if c.endswith(("::unwrap", "::expect"))]
        ok = any(c.endswith("Numeric::to_int") for c in calls) and not bad and any(c.endswith("Try>::branch") for c in calls)
        name = t["callee"]["path"].split("::")[-1]
        chk.decide(ok, "duration-gate", fk, name + ":to_int-none-propagated", fn.where(bb),
                   "the integer passed to Duration::%s is to_int()'s Some value; None (non-finite or huge) becomes an error" % name,
                   "Duration::%s is fed from %s: a non-finite value panics or is silently converted" % (name, s[:160]))

    def magnitude(kind, ap, info):
        if kind != "bool":
            return None
        r = ap[0]
        if r[0] == "call" and "PartialOrd" in r[1] and r[1].endswith(("::gt", "::ge", "::lt", "::le")):
            s = ap_str(ap)
            if "Numeric::abs(arg1.value)" in s and "Numeric" in s:
                return {"false"} if r[1].endswith(("::gt", "::ge")) else {"true"}
        return None
    k2.gate_rule(chk, fn, "duration-gate", fk, "magnitude-test", [bb for bb, _ in ctors], magnitude,
                 "the conversion happens only behind `|value| <= i64::MAX / 1000`", "to_duration converts without the magnitude test")

    def seconds(kind, ap, info):
        if kind != "bool":
            return None
        import c02
        t = c02.unit_test(ap)
        if t and t[0] in ("ne", "eq"):
            return {"false"} if t[0] == "ne" else {"true"}
        return None
    k2.gate_rule(chk, fn, "duration-gate", fk, "unit-is-seconds", [bb for bb, _ in ctors], seconds,
                 "only a value whose dimensionality is exactly seconds becomes a duration", "to_duration accepts values that are not seconds")


def checked(chk, F):
    G = cg.get(F)
    for op, callee in (("Add", "checked_add_signed"), ("Sub", "checked_sub_signed")):
        # (normalised: `+` and `-` may share a helper that is told the direction; what counts is what can run from this operator)
        fn = F.find(CORE, "<&'a runtime::value::Value as core::ops::arith::%s<&'b runtime::value::Value>>::%s" % (op, op.lower()), exact=True,
                    inline=True, keep=("Option::<T>", "Result::<T, E>", "Iterator", "bool>::then", "to_duration", "from_duration"))
        fk = "rink_core::Value::" + op.lower()
        live = fn.reachable(0)
        sites = [(bb, t) for bb, t in fn.calls() if "callee" in t and t["callee"]["path"].endswith("DateTime::<Tz>::" + callee) and bb in live]
        other = "checked_sub_signed" if callee == "checked_add_signed" else "checked_add_signed"
        wrong = [bb for bb, t in fn.calls() if "callee" in t and t["callee"]["path"].endswith("DateTime::<Tz>::" + other) and bb in live]
        chk.decide(len(sites) == 2 and not wrong, "checked-arithmetic", fk, "uses-" + callee, fn.where(),
                   "instant %s duration uses %s for both Fixed and Timezone instants" % ("+" if op == "Add" else "-", callee),
                   "expected two %s call sites (Fixed, Timezone), found %d" % (callee, len(sites)))
        for bb, t in sites:
            d = fn.apath(t["args"][1])
            ok = "parsing::datetime::to_duration" in ap_str(d) and "as Continue" in ap_str(d)
            chk.decide(ok, "checked-arithmetic", fk, callee + ":duration-from-to_duration", fn.where(bb), "the duration comes from to_duration(..)?", "the duration operand is %s" % ap_str(d)[:120])
        # None -> error
        oks = [c for _, c in fn.calls() if "callee" in c and c["callee"]["path"].endswith("Option::<T>::ok_or_else")]
        chk.decide(bool(oks), "checked-arithmetic", fk, "none-becomes-error", fn.where(), "an out-of-range result (None) is turned into an error", "the None of %s is not mapped to an error" % callee)
    # no unchecked DateTime +/- Duration anywhere in core (DateTime - DateTime is fine)
    bad = []
    for fn in F.by_crate[CORE]:
        for bb, t in fn.calls():
            if "callee" not in t:
                continue
            p = t["callee"]["path"]
            g = " ".join(t["callee"].get("gargs", []))
            if "chrono::datetime::DateTime<Tz> as core::ops::arith::Add" in p or "chrono::datetime::DateTime<Tz> as core::ops::arith::AddAssign" in p or \
                    ("chrono::datetime::DateTime<Tz> as core::ops::arith::Sub" in p and "TimeDelta" in g.split(",")[-1] and g.count("DateTime") < 2):
                bad.append((fn, bb, p))
            if p.startswith("<chrono::naive::") and ("arith::Add" in p or "arith::Sub" in p) and "TimeDelta" in g:
                bad.append((fn, bb, p))
    for fn, bb, p in bad:
        chk.finding("checked-arithmetic", "rink_core::" + fn.path, "unchecked:" + p.split("::")[-1], fn.where(bb), "unchecked chrono operator %s (panics on overflow)" % p)
    if not bad:
        chk.ok("checked-arithmetic", "rink_core", "no-unchecked-datetime-operator", "", "no `DateTime +/- Duration` operator call in rink_core")


def zones(chk, F):
    fn = F.find(CORE, "runtime::eval::eval_query")
    fk = "rink_core::runtime::eval::eval_query"
    wt = [(bb, t) for bb, t in fn.calls() if "callee" in t and t["callee"]["path"].endswith("types::date::GenericDateTime::with_timezone")]
    chk.decide(len(wt) == 2, "instant-preserving", fk, "two-rezoning-sites", fn.where(), "Offset and Timezone conversions both re-zone with with_timezone", "expected 2 with_timezone sites in eval_query, found %d" % len(wt))
    g = F.find(CORE, "types::date::GenericDateTime::with_timezone")
    names = sorted(set(t["callee"]["path"] for _, t in g.calls() if "callee" in t and "chrono" in t["callee"]["path"]))
    ok = bool(names) and all(n.endswith("DateTime::<Tz>::with_timezone") for n in names)
    chk.decide(ok, "instant-preserving", "rink_core::types::date::GenericDateTime::with_timezone", "delegates-to-chrono-with_timezone", g.where(),
               "GenericDateTime::with_timezone only calls DateTime::with_timezone (same instant, new zone)", "GenericDateTime::with_timezone calls %s" % names)
    # the DateReply is built from the re-zoned value
    for bb, t in wt:
        used = False
        for b2, t2 in fn.calls():
            if "callee" in t2 and t2["callee"]["path"].endswith("DateReply::new") and k2._root_call_bb(fn.apath(t2["args"][1])) == bb:
                used = True
        chk.decide(used, "instant-preserving", fk, "reply-from-rezoned-value", fn.where(bb), "the reply shows the re-zoned instant", "the reply is not built from the with_timezone result")
    # no reinterpretation helpers in those arms
    banned = ("with_hour", "with_minute", "with_day", "naive_local", "from_local_datetime", "and_local_timezone", "with_nanosecond", "with_second", "with_time")
    bad = [t["callee"]["path"] for _, t in fn.calls() if "callee" in t and t["callee"]["path"].split("::")[-1] in banned]
    chk.decide(not bad, "instant-preserving", fk, "no-local-reinterpretation", fn.where(), "no naive/local reinterpretation of instants in eval_query", "eval_query calls %s" % bad)


def pattern_keywords():
    p = os.path.join(facts.REPO, "core", "datepatterns.txt")
    if not os.path.exists(p):
        raise AnchorLost("core/datepatterns.txt missing")
    kws = {}
    lines = 0
    bad = []
    for ln, line in enumerate(open(p, encoding="utf-8"), 1):
        line = line.split("#")[0].rstrip("\n")
        if not line.strip():
            continue
        lines += 1
        body = re.sub(r"'[^']*'", " ", line)
        if body.count("[") != body.count("]") or line.count("'") % 2:
            bad.append((ln, line))
        for w in re.findall(r"[A-Za-z][A-Za-z0-9]*", body):
            kws.setdefault(w, ln)
    return kws, lines, bad


def keywords(chk, F):
    kws, lines, bad = pattern_keywords()
    chk.decide(not bad and lines >= 10, "keyword-table", "core/datepatterns.txt", "lines-well-formed", "core/datepatterns.txt",
               "%d pattern lines, brackets and quotes balanced" % lines, "malformed pattern lines: %s" % bad[:3])
    fn = F.find(CORE, "parsing::datetime::parse_date")
    h = F.hir_of(fn)
    arms = {}
    for m in hir_walk(h["body"]):
        if m.get("k") != "Match" or m.get("src") != "Normal":
            continue
        lit_arms = [a for a in m["arms"] if a["pat"]["pk"] == "expr" and a["pat"]["e"].get("lit") == "str"]
        if len(lit_arms) >= 15:
            for a in lit_arms:
                arms[a["pat"]["e"]["v"]] = a
    if len(arms) < 15:
        raise AnchorLost("parse_date: keyword match not found (%d literal arms)" % len(arms))
    for kw, ln in sorted(kws.items()):
        chk.decide(kw in arms, "keyword-table", "rink_core::parsing::datetime::parse_date", "arm:" + kw, "core/datepatterns.txt:%d" % ln,
                   "pattern keyword `%s` has an arm in parse_date" % kw, "datepatterns.txt uses keyword `%s` (line %d) but parse_date has no arm for it: every date with that pattern fails" % (kw, ln))
    # documented ranges of numeric keywords
    for kw, (digits, lo, hi) in sorted(KEYWORD_RANGES.items()):
        a = arms.get(kw)
        if a is None:
            chk.finding("keyword-table", "rink_core::parsing::datetime::parse_date", "range:" + kw, "", "no arm for documented keyword %s" % kw)
            continue
        nm = [c for c in hir_walk(a["body"]) if c.get("k") == "Call" and c["f"].get("k") == "Path" and c["f"]["r"].get("path", "").endswith("numeric_match")]
        ok = False
        got = None
        if nm:
            args = nm[0]["args"]
            try:
                name = args[1]["lit"]["v"]
                dg = args[2]["lit"]["v"]
                rng = args[3]
                vals = [x["lit"]["v"] for x in hir_walk(rng) if x.get("k") == "Lit" and x["lit"].get("lit") == "int"]
                got = (name, dg, vals)
                ok = name == kw and dg == digits and vals[:2] == [lo, hi]
            except (KeyError, IndexError, TypeError):
                ok = False
        if not nm:
            # arms that call parse_range(text, digits, lo..=hi) themselves: every such call in the arm has the documented shape
            prs = [c for c in hir_walk(a["body"]) if c.get("k") == "Call" and c["f"].get("k") == "Path" and c["f"]["r"].get("path", "").endswith("datetime::parse_range")]
            shapes = []
            for c in prs:
                try:
                    dg = c["args"][1]["lit"]["v"]
                    vals = [x["lit"]["v"] for x in hir_walk(c["args"][2]) if x.get("k") == "Lit" and x["lit"].get("lit") == "int"]
                    shapes.append((dg, vals[:2]))
                except (KeyError, IndexError, TypeError):
                    shapes.append(None)
            got = shapes
            ok = bool(shapes) and all(sh == (digits, [lo, hi]) for sh in shapes)
        chk.decide(ok, "keyword-table", "rink_core::parsing::datetime::parse_date", "range:" + kw, "%s:%d" % (fn.file, a["line"]),
                   "%s: %s digits, %d..=%d" % (kw, digits or "any", lo, hi), "%s is parsed as %s, documented: %s digits in %d..=%d" % (kw, got, digits, lo, hi))
    chk.extra["pattern_keywords"] = sorted(kws)


def const_factor(fn, ap):
    """If ap is x * Numeric::from(k) / ratio(x, BigInt::from(k)) return k."""
    s = ap_str(ap)
    m = re.findall(r"(?:Numeric|BigInt) as core::convert::From<(?:i64|u64)>>::from\((\d+)\)", s)
    return [int(x) for x in m]


def scales(chk, F):
    fn = F.find(CORE, "parsing::datetime::to_duration")
    fk = "rink_core::parsing::datetime::to_duration"
    ms = [(bb, t) for bb, t in fn.calls() if "callee" in t and t["callee"]["path"].endswith("TimeDelta::milliseconds")]
    ns = [(bb, t) for bb, t in fn.calls() if "callee" in t and t["callee"]["path"].endswith("TimeDelta::nanoseconds")]
    if len(ms) != 1 or len(ns) != 1:
        raise AnchorLost("to_duration: milliseconds/nanoseconds constructors not found")
    ams, ans = fn.apath(ms[0][1]["args"][0]), fn.apath(ns[0][1]["args"][0])
    sms, sns = ap_str(ams), ap_str(ans)
    kms = const_factor(fn, ams)
    kns = const_factor(fn, ans)
    # ms = (value*1000).div_rem(1).0 ; ns = (that div_rem).1 * 1_000_000
    ok_ms = kms == [1000, 1] and "div_rem" in sms and sms.count(".0") >= 1
    chk.decide(ok_ms, "scale-constants", fk, "seconds-to-milliseconds", fn.where(ms[0][0]),
               "whole milliseconds = floor part of value * 1000", "Duration::milliseconds is fed with constants %s (%s)" % (kms, sms[:120]))
    # the nanosecond remainder comes from the same div_rem and is scaled by 10^9 / 10^3
    same = "div_rem" in sns and kns[:2] == [1000, 1]
    factor = kns[2] if len(kns) >= 3 else None
    chk.decide(same and factor is not None and 1000 * factor == 10 ** 9, "scale-constants", fk, "remainder-to-nanoseconds", fn.where(ns[0][0]),
               "the remainder (a fraction of a millisecond) is scaled by 10^6 to nanoseconds (10^3 * 10^6 = 10^9 ns per second)",
               "the sub-millisecond remainder is scaled by %s: seconds->ms uses 10^3, so ms->ns must use 10^6 (got product %s, expected 10^9)" % (factor, (1000 * factor) if factor else None))
    g = F.find(CORE, "parsing::datetime::from_duration")
    gk = "rink_core::parsing::datetime::from_duration"
    ratios = [(bb, t) for bb, t in g.calls() if "callee" in t and t["callee"]["path"].endswith("BigRat::ratio")]
    table = {}
    for bb, t in ratios:
        num, den = ap_str(g.apath(t["args"][0])), g.apath(t["args"][1])
        k = const_factor(g, den)
        which = "ms" if "num_milliseconds" in num and "num_nanoseconds" not in num else "ns" if "num_nanoseconds" in num else "?"
        table[which] = k[0] if k else None
    chk.decide(table == {"ms": 1000, "ns": 10 ** 9}, "scale-constants", gk, "duration-to-seconds", g.where(),
               "seconds = num_milliseconds / 10^3 + remaining nanoseconds / 10^9", "from_duration divides by %s (expected ms/1000 and ns/10^9)" % table)
    # the nanosecond rest is duration - milliseconds(ms) of the same ms
    nn = [(bb, t) for bb, t in g.calls() if "callee" in t and t["callee"]["path"].endswith("num_nanoseconds")]
    ok = bool(nn) and "TimeDelta as core::ops::arith::Sub>::sub(arg1, chrono::time_delta::TimeDelta::milliseconds(chrono::time_delta::TimeDelta::num_milliseconds(arg1)))" in ap_str(g.apath(nn[0][1]["args"][0])).replace("*", "")
    chk.decide(ok, "scale-constants", gk, "rest-is-duration-minus-whole-ms", g.where(nn[0][0]) if nn else g.where(),
               "the nanosecond part is duration - milliseconds(num_milliseconds(duration))", "the nanosecond rest is %s" % (ap_str(g.apath(nn[0][1]["args"][0]))[:160] if nn else "-"))


def offset_arith(chk, F):
    """Both spellings of a numeric UTC offset (+hhmm and +hh:mm) denote sign * (h*3600 + m*60) seconds."""
    fn = F.find(CORE, "parsing::datetime::parse_date")
    h = F.hir_of(fn)
    assigns = []
    for a in hir_walk(h["body"]):
        if a.get("k") == "Assign" and H.expr_str(a["lhs"]) == "out.offset":
            assigns.append(a)
    if len(assigns) != 2:
        raise AnchorLost("parse_date: expected two assignments to out.offset (compact and colon form), found %d" % len(assigns))
    want = "Option::Some((s Mul ((h Mul 3600) Add (m Mul 60))))"
    for a in assigns:
        got = H.expr_str(a["rhs"], 200)
        chk.decide(got == want, "offset-arithmetic", "rink_core::parsing::datetime::parse_date", "offset=sign*(h*3600+m*60)", "%s:%d" % (fn.file, a["line"]),
                   "offset = s * (h * 3600 + m * 60): the sign applies to hours and minutes",
                   "a numeric offset is computed as %s; the sibling form and the reference compute s * (h * 3600 + m * 60)" % got)
    # sign comes from Plus => 1 / Dash => -1
    signs = [m for m in hir_walk(h["body"]) if m.get("k") == "Match" and m.get("src") == "Normal" and any("DateToken::Plus" in H.pat_str(x["pat"]) for x in m["arms"]) and len(m["arms"]) == 3]
    ok = False
    for m in signs:
        tbl = {H.pat_str(x["pat"]).split("::")[-1]: H.expr_str(x["body"]) for x in m["arms"]}
        if tbl.get("Plus") == "1" and tbl.get("Dash") in ("Neg(1)", "-1"):
            ok = True
    chk.decide(ok, "offset-arithmetic", "rink_core::parsing::datetime::parse_date", "sign-table", fn.where(), "`+` is +1 and `-` is -1", "the offset sign table is not {+: 1, -: -1}")


def operator_table(chk, F):
    """date + duration and duration + date are the same instant; date - duration and date - date are defined; duration - date
    is not a date (it must fall through to "Operation is not defined", not be read as date - duration)."""
    import hirutil as H
    from facts import hir_walk
    out = {}
    for op in ("Add", "Sub"):
        fns = [f for f in F.by_crate["rink_core"] if f.path == "<&'a runtime::value::Value as core::ops::arith::%s<&'b runtime::value::Value>>::%s" % (op, op.lower())]
        if len(fns) != 1:
            raise AnchorLost("Value::%s not found" % op.lower())
        h = F.hir_of(fns[0])
        ms = [m for m in hir_walk(h["body"]) if m.get("k") == "Match" and m.get("src") == "Normal"]
        pats = []
        for a in ms[0]["arms"]:
            ptxt = H.pat_str(a["pat"])
            for alt in ptxt.split(" | "):
                kinds = __import__("re").findall(r"Value::(\w+)", alt)
                if len(kinds) >= 2:
                    pats.append((kinds[0], kinds[1]))
        out[op] = (fns[0], pats, ms[0]["line"])
    fa, pa, la = out["Add"]
    fs, ps, ls = out["Sub"]
    chk.decide(("DateTime", "Number") in pa and ("Number", "DateTime") in pa, "operator-table", "rink_core::Value::add", "date-plus-duration-commutes",
               "%s:%d" % (fa.file, la), "date + duration and duration + date are both defined", "Value::add arms: %s" % pa)
    chk.decide(("DateTime", "Number") in ps and ("DateTime", "DateTime") in ps and ("Number", "DateTime") not in ps, "operator-table", "rink_core::Value::sub",
               "duration-minus-date-undefined", "%s:%d" % (fs.file, ls),
               "date - duration and date - date are defined, duration - date is not",
               "Value::sub arms: %s - `duration - date` is accepted%s" % (ps, " and evaluated as date - duration" if ("Number", "DateTime") in ps else ""))


TIME_FIELDS = {"hour_div_12", "hour_mod_12", "minute", "second", "nanosecond"}


def fallback_guards(chk, F, fn, fk):
    """(3) in `attempt`, today's date stands in for the date only when no date field was written, and midnight for the time only
    when no time field was written: chrono's Err from to_naive_date()/to_naive_time() also means "written but impossible"
    (February 30th, ordinal 366, a weekday that does not match).  Writer/reader agreement: every field of `Parsed` that
    parse_date assigns (offset aside) must be tested by the guard of the arm that replaces its half."""
    pd = F.find(CORE, "parsing::datetime::parse_date")
    written = set()
    for f in [pd]:
        hh = F.hir_of(f)
        for n in hir_walk(hh["body"]):
            if n.get("k") == "Assign" and n["lhs"].get("k") == "Field" and str(n["lhs"].get("of_ty", "")).endswith("format::parsed::Parsed"):
                written.add(n["lhs"]["name"])
    if len(written) < 12:
        raise AnchorLost("parse_date: only %d fields of Parsed are assigned (expected >= 12)" % len(written))
    want = {"date": {w for w in written if w not in TIME_FIELDS and w != "offset"}, "time": written & TIME_FIELDS}
    h = F.hir_of(fn)
    lets = {}
    for n in hir_walk(h["body"]):
        if n.get("sk") == "let" and (n.get("pat") or {}).get("pk") == "bind" and n.get("init"):
            lets[(n["pat"].get("name"), n["pat"]["lid"])] = n["init"]

    def fields_of(e, depth=0):
        """Fields f of a disjunction of `parsed.f.is_some()`; None when the expression has any other shape."""
        if e.get("k") == "Binary" and e.get("op") == "Or":
            a, b = fields_of(e["a"], depth), fields_of(e["b"], depth)
            return None if a is None or b is None else a | b
        if e.get("k") == "MethodCall" and e["name"] == "is_some" and e["recv"].get("k") == "Field" and str(e["recv"].get("of_ty", "")).endswith("format::parsed::Parsed"):
            return {e["recv"]["name"]}
        ln = H.local_name(e) if e.get("k") == "Path" else None
        if ln and (ln[0], ln[1]) in lets and depth < 3:
            return fields_of(lets[(ln[0], ln[1])], depth + 1)
        if e.get("k") in ("Paren", "DropTemps") and e.get("e"):
            return fields_of(e["e"], depth)
        # the disjunction has been given a name: `has_date_fields(&parsed)`, a private function of this crate whose body is one
        if e.get("k") == "Call" and e["f"].get("k") == "Path" and depth < 3 and len(e.get("args", [])) == 1:
            import facts as _f
            g = _f.private_helper(F, CORE, e["f"]["r"].get("path", ""))
            if g is not None:
                hb = F.hir_of(g)["body"]
                while hb.get("k") == "Block" and not hb["stmts"] and hb.get("expr"):
                    hb = hb["expr"]
                return fields_of(hb, depth + 1)
        return None

    # the table may have been taken out into a function of the same file that `attempt` calls (one generic function for the named
    # zone and the fixed offset instead of two copies): its HIR is read too, and a field of the value it is a method of is the
    # expression the struct literal in `attempt` gives that field
    bodies = [h["body"]]
    for n in hir_walk(h["body"]):
        if n.get("k") in ("MethodCall", "Call"):
            gid = n.get("id") or ((n.get("f") or {}).get("r") or {}).get("id")
            g = F.hir[CORE].get(gid) if gid else None
            if g is not None and g["loc"]["file"] == h["loc"]["file"] and g["body"] not in bodies:
                bodies.append(g["body"])
    structs = [n for b in bodies for n in hir_walk(b) if n.get("k") == "Struct"]
    # the names given to the two disjunctions may live in that function too
    for b in bodies[1:]:
        for n in hir_walk(b):
            if n.get("sk") == "let" and (n.get("pat") or {}).get("pk") == "bind" and n.get("init"):
                lets.setdefault((n["pat"].get("name"), n["pat"]["lid"]), n["init"])
    _fields_of0 = fields_of

    def fields_of(e, depth=0):      # noqa: F811
        r = _fields_of0(e, depth)
        if r is None and e.get("k") == "Field" and (e.get("e") or {}).get("k") == "Path":
            for st in structs:
                for f in st["fields"]:
                    if f["name"] == e["name"] and str(e.get("of_ty", "?")).split("<")[0] == str(st.get("ty", "")).split("<")[0]:
                        return _fields_of0(f["e"], depth + 1)
        return r
    matches = [m for b in bodies for m in hir_walk(b) if m.get("k") == "Match" and m.get("src") == "Normal" and m["scrut"].get("k") == "Tup"
               and len(m["scrut"].get("es", m["scrut"].get("elems", []))) == 2]
    if not matches:
        matches = [m for b in bodies for m in hir_walk(b) if m.get("k") == "Match" and m.get("src") == "Normal" and
                   any(H.pat_str(a["pat"]).replace(" ", "").startswith("(Result::Ok(") for a in m["arms"])]
    if len(matches) not in (1, 2) or (len(matches) == 1 and len(bodies) < 2):
        raise AnchorLost("attempt: expected the two `match (time, date)` tables (or one in a function both zone branches call), found %d" % len(matches))
    for mi, m in enumerate(matches):
        for a in m["arms"]:
            ptxt = H.pat_str(a["pat"]).replace(" ", "")
            half = "date" if ptxt.startswith("(Result::Ok(") and ",Result::Err(" in ptxt else ("time" if ptxt.startswith("(Result::Err(") and ",Result::Ok(" in ptxt else None)
            if half is None:
                continue
            g = a.get("guard")
            got = None
            if g is not None and g.get("k") == "Unary" and g.get("op") == "Not":
                got = fields_of(g["a"])
            if got is None:
                # the same test written inside the arm: its body starts with `if <written> { return Err(..) }` (or is an
                # `if <written> { Err(..) } else { <fall-back> }`)
                b = a["body"]
                first = None
                if b.get("k") == "Block":
                    st = H.stmts_of(b)
                    first = st[0][1] if st else None
                    if first is not None and first.get("sk") == "let":
                        first = None
                elif b.get("k") == "If":
                    first = b
                if first is not None and first.get("k") == "If" and first["cond"].get("k") != "Let":
                    leaves = any(x.get("k") == "Ret" for x in hir_walk(first["then"])) or \
                        (first.get("else") is not None and "Result::Err" in H.expr_str(first["then"], 200) and b.get("k") == "If")
                    if leaves:
                        got = fields_of(first["cond"])
            missing = sorted(want[half] - (got or set()))
            chk.decide(got is not None and not missing, "literal-fields", fk, "%s-fallback-only-when-absent:%s" % ({"date": "today", "time": "midnight"}[half], ("zone", "offset")[mi]),
                       "%s:%d" % (fn.file, a["line"]),
                       "%s replaces the %s only when none of %s was written" % ({"date": "today", "time": "midnight"}[half], half, sorted(want[half])),
                       "%s replaces the %s whenever chrono cannot build it%s: `#2021-02-30 10:00#` denotes today at 10:00, `#2021-366 10:00#` and a weekday "
                       "that does not match likewise" % ({"date": "today", "time": "midnight"}[half], half,
                                                          (" (the guard does not test %s)" % missing) if got is not None else " (the arm has no guard over the written fields)"))


def era_rule(chk, F):
    """(4) `BC` turns the year y into 1 - y: that is a date only for y >= 1 (there is no year 0 BC, and `-44 BC` is not 45 CE), and
    there has to be a year to turn.  In the BC arm of `adbc` the store to out.year must be a `Some(..)` built behind a test
    `year >= 1` (or `> 0`); passing an Option through stores nothing when no year was matched and still answers Ok."""
    pd = F.find(CORE, "parsing::datetime::parse_date")
    h = F.hir_of(pd)
    arm = None
    for m in hir_walk(h["body"]):
        if m.get("k") == "Match" and m.get("src") == "Normal":
            for a in m["arms"]:
                if H.pat_str(a["pat"]).strip("'\"") == "adbc":
                    arm = a
    if arm is None:
        raise AnchorLost("parse_date: `adbc` arm not found")
    bc = [a for m in hir_walk(arm["body"]) if m.get("k") == "Match" for a in m["arms"] if a.get("guard") and "bc" in H.expr_str(a["guard"], 200).lower() and "\"ad\"" not in H.expr_str(a["guard"], 200).lower()]
    if len(bc) != 1:
        raise AnchorLost("parse_date: expected one BC arm under `adbc`, found %d" % len(bc))
    body = bc[0]["body"]
    tests = [n for n in hir_walk(body) if n.get("k") == "Binary" and n.get("op") in ("Ge", "Gt") and n["b"].get("k") == "Lit" and
             ((n["op"] == "Ge" and n["b"]["lit"].get("v") == 1) or (n["op"] == "Gt" and n["b"]["lit"].get("v") == 0))]
    stores = [n for n in hir_walk(body) if n.get("k") == "Assign" and n["lhs"].get("k") == "Field" and n["lhs"].get("name") == "year"]
    built = all(n["rhs"].get("k") == "Call" and str((n["rhs"]["f"].get("r") or {}).get("path", "")).endswith("Option::Some") for n in stores)
    chk.decide(bool(tests) and len(stores) == 1 and built, "literal-fields", "rink_core::parsing::datetime::parse_date", "era-needs-a-positive-year", "%s:%d" % (pd.file, bc[0]["line"]),
               "BC stores Some(1 - year) only for a year >= 1",
               "BC is applied to whatever out.year holds: `#0 Jan 1 BC#` denotes 1 CE, `#-44 Mar 15 BC#` 45 CE, and a pattern in which no `year` was "
               "matched before `adbc` accepts BC without any effect")


def literal_fields(chk, F):
    """A written field of a date literal is either honoured or refused, never silently replaced:
    (1) in `attempt`, the result of Parsed::to_fixed_offset is not defaulted with unwrap_or/unwrap_or_else (that reads an offset
        that was written but is out of range as UTC); only the branch where no offset field was set may use UTC;
    (2) in parse_date's `sec` arms, both the integer and the fractional form bound the seconds (0..=60)."""
    fn = F.find(CORE, "parsing::datetime::attempt")
    fk = "rink_core::parsing::datetime::attempt"
    tf = [(bb, t) for bb, t in fn.calls() if "callee" in t and t["callee"]["path"].endswith("Parsed::to_fixed_offset")]
    if len(tf) != 1:
        raise AnchorLost("attempt: expected one Parsed::to_fixed_offset call, found %d" % len(tf))
    bb, t = tf[0]
    defaulted = [t2["callee"]["path"].split("::")[-1] for b2, t2 in fn.calls() if "callee" in t2 and t2["callee"]["path"].endswith(("::unwrap_or_else", "::unwrap_or", "::unwrap_or_default"))
                 and any("to_fixed_offset" in ap_str(fn.apath(a)) for a in t2["args"][:1])]
    chk.decide(not defaulted, "literal-fields", fk, "written-offset-not-defaulted", fn.where(bb),
               "an out-of-range offset is an error; UTC is used only when no offset was written",
               "the result of to_fixed_offset() is defaulted with %s: `#2020-01-01 10:00 +9900#` is read as UTC instead of being refused" % defaulted)
    fallback_guards(chk, F, fn, fk)
    era_rule(chk, F)
    pd = F.find(CORE, "parsing::datetime::parse_date")
    h = F.hir_of(pd)
    # the `sec` arm: every inner arm that stores out.second is bounded
    secarm = None
    for m in hir_walk(h["body"]):
        if m.get("k") == "Match" and m.get("src") == "Normal":
            for a in m["arms"]:
                if H.pat_str(a["pat"]).strip("'\"") == "sec":
                    secarm = a
    if secarm is None:
        raise AnchorLost("parse_date: `sec` arm not found")
    stores = [x for x in hir_walk(secarm["body"]) if x.get("k") == "Assign" and x["lhs"].get("k") == "Field" and x["lhs"].get("name", x["lhs"].get("field")) == "second"]
    if not stores:
        stores = [x for x in hir_walk(secarm["body"]) if x.get("k") == "Assign" and re.search(r"\.second$", H.expr_str(x["lhs"]))]
    # a local is bounded when its binding carries a range pattern within 0..=60, or when it is initialised from parse_range(..)
    # (whose bounds the keyword-table rule decides)
    range_bound, init_of = set(), {}
    for n in hir_walk(secarm["body"]):
        if n.get("pk") == "bind" and (n.get("sub") or {}).get("pk") == "range":
            r = n["sub"]
            lo, hi = (r.get("lo") or {}).get("v"), (r.get("hi") or {}).get("v")
            if isinstance(lo, int) and isinstance(hi, int) and lo >= 0 and (hi <= 60 if r.get("end") == "Included" else hi <= 61):
                range_bound.add(n["lid"])
        if n.get("k") in ("Let", "Local") and n.get("pat") and n.get("init"):
            for b_ in hir_walk(n["pat"]):
                if b_.get("pk") == "bind":
                    init_of[b_["lid"]] = n["init"]
    bounded = 0
    for st in stores:
        lids = [x["r"]["lid"] for x in hir_walk(st["rhs"]) if x.get("k") == "Path" and (x.get("r") or {}).get("res") == "local"]
        ok = bool(lids)
        for lid in lids:
            init = init_of.get(lid)
            from_range = init is not None and any(c.get("k") == "Path" and str((c.get("r") or {}).get("path", "")).endswith("datetime::parse_range") for c in hir_walk(init))
            ok = ok and (lid in range_bound or from_range)
        bounded += ok
    chk.decide(len(stores) == 2 and bounded == 2, "literal-fields", "rink_core::parsing::datetime::parse_date", "seconds-bounded-in-both-forms", pd.where(),
               "both forms of `sec` (integer, with fraction) bound the seconds before storing them",
               "a form of `sec` stores seconds that were not range-checked (%d of %d stores bounded): `#2020-01-01 10:00:75.5#` is accepted "
               "and the time silently becomes midnight" % (bounded, len(stores)))


# token class of every keyword of datepatterns.txt: ("num", digits (0 = any), lo, hi) or ("word", set name)
PATTERN_CLASSES = {
    "fullyear": ("num", 4, 0, 9999), "shortyear": ("num", 2, 0, 99), "century": ("num", 2, 0, 99), "monthnum": ("num", 2, 1, 12),
    "day": ("num", 0, 1, 31), "fullday": ("num", 2, 1, 31), "min": ("num", 2, 0, 59), "ordinal": ("num", 3, 1, 366),
    "isoyear": ("num", 4, 0, 9999), "isoweek": ("num", 2, 1, 53), "hour12": ("num", 2, 1, 12), "hour24": ("num", 2, 0, 23),
    "sec": ("num", 2, 0, 60), "year": ("num", 0, 0, 10 ** 9), "unix": ("num", 0, 0, 2 ** 31 - 1),
    "monthname": ("word", "month"), "weekday": ("word", "weekday"), "meridiem": ("word", "ampm"), "adbc": ("word", "era"),
    "offset": ("word", "zone"),
}


def _parse_pattern(text):
    """[(kind, value)] with kinds kw / lit / sp / dash / colon / opt(list)."""
    pos = 0

    def rec():
        nonlocal pos
        out = []
        while pos < len(text):
            c = text[pos]
            if c == "]":
                break
            if c == "[":
                pos += 1
                inner = rec()
                if pos >= len(text) or text[pos] != "]":
                    raise AnchorLost("datepatterns.txt: unbalanced [ in %r" % text)
                pos += 1
                out.append(("opt", inner))
            elif c == "-":
                pos += 1
                out.append(("dash", "-"))
            elif c == ":":
                pos += 1
                out.append(("colon", ":"))
            elif c == "'":
                e = text.index("'", pos + 1)
                out.append(("lit", text[pos + 1:e]))
                pos = e + 1
            elif c.isspace():
                while pos < len(text) and text[pos].isspace():
                    pos += 1
                out.append(("sp", " "))
            elif c.isalpha():
                b = pos
                while pos < len(text) and (text[pos].isalnum() or text[pos] == "_"):
                    pos += 1
                out.append(("kw", text[b:pos]))
            else:
                pos += 1
                out.append(("lit", c))
        return out
    return rec()


def _expand(seq):
    """All flat sequences of a pattern (every optional group present or absent)."""
    outs = [[]]
    for k, v in seq:
        if k == "opt":
            inner = _expand(v)
            outs = [o + i for o in outs for i in ([[]] + inner)]
        else:
            outs = [o + [(k, v)] for o in outs]
    return outs


def _compatible(a, b):
    if a[0] != "kw" or b[0] != "kw":
        return a == b
    ca, cb = PATTERN_CLASSES.get(a[1]), PATTERN_CLASSES.get(b[1])
    if ca is None or cb is None:
        return a[1] == b[1]
    if ca[0] != cb[0]:
        return False
    if ca[0] == "word":
        return ca[1] == cb[1]
    return (ca[1] == 0 or cb[1] == 0 or ca[1] == cb[1]) and max(ca[2], cb[2]) <= min(ca[3], cb[3])


def pattern_overlap(chk, F):
    """`a date literal matching a documented pattern denotes the instant that pattern describes`: try_decode takes the first
    pattern that succeeds.  If two patterns accept the same token string but read a position as different fields, the later one is
    documented and never used for those literals - `day monthname year` placed before `year monthname day` silently swaps year and
    day of `#0012 January 5#`.  Data lint over core/datepatterns.txt: every optional group is expanded, two flat sequences clash
    when they have the same length, every position can match the same token (same punctuation; numbers with compatible digit
    counts and overlapping ranges; words of the same kind) and some position carries different keywords."""
    import facts
    import os as _os
    pth = _os.path.join(facts.REPO, "core", "datepatterns.txt")
    pats = []
    for n, line in enumerate(open(pth, encoding="utf-8"), 1):
        t = line.strip()
        if t and not t.startswith("#"):
            pats.append((n, t, _expand(_parse_pattern(t))))
    if len(pats) < 10:
        raise AnchorLost("datepatterns.txt: only %d patterns" % len(pats))
    clashes = []
    for i in range(len(pats)):
        for j in range(i + 1, len(pats)):
            hit = None
            for fa in pats[i][2]:
                for fb in pats[j][2]:
                    if len(fa) == len(fb) and fa and all(_compatible(x, y) for x, y in zip(fa, fb)) and any(x != y for x, y in zip(fa, fb)):
                        # reading a number as `fullday` or `day`, `year` or `fullyear` is the same field: only different *fields* clash
                        def field(e):
                            return {"fullday": "day", "fullyear": "year", "hour12": "hour", "hour24": "hour"}.get(e[1], e[1]) if e[0] == "kw" else e[1]
                        if any(field(x) != field(y) for x, y in zip(fa, fb)):
                            hit = (fa, fb)
                            break
                if hit:
                    break
            if hit:
                clashes.append((pats[i][0], pats[i][1], pats[j][0], pats[j][1]))
    for a, ta, b, tb in clashes:
        chk.finding("pattern-table", "core/datepatterns.txt", "clash:%s<>%s" % (ta[:40], tb[:40]), "core/datepatterns.txt:%d" % a,
                    "the patterns of lines %d (`%s`) and %d (`%s`) accept the same literals and read them as different fields; the first one wins, so the "
                    "second is never what such a literal denotes (`#0012 January 5#` read day-first is the 12th of January of the year 5)" % (a, ta, b, tb))
    if not clashes:
        chk.ok("pattern-table", "core/datepatterns.txt", "no-two-patterns-read-one-literal-differently", "core/datepatterns.txt",
               "%d patterns, %d expanded forms: no two accept the same token string with different field assignments" % (len(pats), sum(len(p[2]) for p in pats)))
