"""K2: gate / must-pass-through / fallback-order helpers over the MIR CFG."""
from facts import ap_str, ap_calls, AnchorLost

POS = {"Some", "Ok", "true", "Continue"}
NEG = {"None", "Err", "false", "Break"}


def _root_call_bb(ap):
    r = ap[0]
    return r[3] if r[0] == "call" else None


def labels_on_call(fn, bb, call_bb, guards=None):
    """How does reaching `bb` depend on the result of the call made in `call_bb`?
    Returns the set of necessary outcomes, normalised to 'pos' (Some/Ok/true) / 'neg' (None/Err/false),
    looking through is_some/is_none/is_ok/is_err/Try::branch and `!`."""
    out = set()
    if guards is None:
        guards = fn.guards_of(bb)
    for g in guards:
        d = fn.guard_desc(g)
        ap = d[1]
        flip = False
        # peel wrappers
        cur = ap
        steps = 0
        while steps < 6:
            steps += 1
            r = cur[0]
            if r[0] == "unop" and r[1] == "Not":
                flip = not flip
                cur = r[2]
                continue
            if r[0] == "call" and r[3] != call_bb and len(r[2]) >= 1:
                n = r[1]
                if n.endswith(("Option::<T>::is_some", "Result::<T, E>::is_ok", "Try>::branch")):
                    cur = r[2][0]
                    continue
                if n.endswith(("Option::<T>::is_none", "Result::<T, E>::is_err")):
                    flip = not flip
                    cur = r[2][0]
                    continue
            break
        if _root_call_bb(cur) != call_bb or cur[1]:
            continue
        if d[0] == "variant":
            lab = d[3]
        elif d[0] == "bool":
            lab = "true" if d[2] else "false"
        else:
            continue
        pos = lab in POS
        if lab not in POS and lab not in NEG:
            continue
        if flip:
            pos = not pos
        out.add("pos" if pos else "neg")
    return out


def fallback_order(chk, fn, rule, fk, c1_bb, c2_bb, what):
    """c2 is reachable only through the failing (None/false) edge of c1's result."""
    labs = labels_on_call(fn, c2_bb, c1_bb)
    chk.decide(labs == {"neg"}, rule, fk, what, fn.where(c2_bb),
               "the fallback lookup runs only on the None/false edge of the preferred lookup",
               "fallback call at %s is not restricted to the failing edge of the preferred lookup at %s (necessary outcomes: %s)" % (
                   fn.where(c2_bb), fn.where(c1_bb), sorted(labs) or "none"))


def only_after_miss(fn, a_bb, b_bb):
    """True when block b_bb cannot be reached from the hit (true/Some/Ok) edge of any test of the result of the call in a_bb,
    and that result is tested at all on the way (no dominance between the two calls is required)."""
    tested = False
    for s, kind, ap, info in switch_tests(fn):
        ap, flip = peel_not(ap)
        steps = 0
        while steps < 4 and ap[0][0] == "call" and ap[0][3] != a_bb and ap[0][2] and not ap[1]:
            n = ap[0][1]
            if n.endswith(("Option::<T>::is_some", "Result::<T, E>::is_ok", "Try>::branch")):
                ap = ap[0][2][0]
            elif n.endswith(("Option::<T>::is_none", "Result::<T, E>::is_err")):
                ap = ap[0][2][0]
                flip = not flip
            else:
                break
            steps += 1
        if _root_call_bb(ap) != a_bb or ap[1]:
            continue
        for lab, tgt, name in edge_names(fn, s, kind, info):
            if name not in POS and name not in NEG:
                continue
            pos = (name in POS) != flip
            if pos:
                tested = True
                if b_bb in fn.reachable(tgt):
                    return False
    return tested


def returned_unchanged(chk, fn, rule, fk, c1_bb, what):
    """On the success edge, c1's hit is what the function returns: from every hit edge of a test of c1's result, whatever is
    assigned to the return slot before the function returns is that result (as it is, or re-wrapped `Some(x)` of its payload).
    Holds for `if let Some(v) = c1 { return Some(v) }`, `if r.is_some() { return r }`, and the single-exit form
    `let mut r = c1; if r.is_none() { r = c2; } r` (the reassignment is not on the hit side)."""
    from facts import place_of
    hit_targets = []
    for s, kind, ap, info in switch_tests(fn):
        ap, flip = peel_not(ap) if kind == "bool" else (ap, False)
        steps = 0
        while steps < 4 and ap[0][0] == "call" and ap[0][3] != c1_bb and ap[0][2] and not ap[1]:
            n = ap[0][1]
            if n.endswith(("Option::<T>::is_some", "Result::<T, E>::is_ok", "Try>::branch")):
                ap = ap[0][2][0]
            elif n.endswith(("Option::<T>::is_none", "Result::<T, E>::is_err")):
                ap = ap[0][2][0]
                flip = not flip
            else:
                break
            steps += 1
        if _root_call_bb(ap) != c1_bb or ap[1]:
            continue
        for lab, tgt, name in edge_names(fn, s, kind, info):
            if name in POS or name in NEG:
                if (name in POS) != flip:
                    hit_targets.append(tgt)
    ok, bad = False, []
    for tgt in hit_targets:
        reach = fn.reachable(tgt)
        for i, j, st in fn.stmts():
            if i not in reach or st["k"] != "assign" or st["place"]["l"] != 0 or st["place"]["p"]:
                continue
            rv = st["rv"]
            val = None
            if rv["k"] == "use":
                c = rv["a"].get("const") if isinstance(rv["a"], dict) else None
                if c is not None and c.get("ty") == "bool":
                    if c.get("int") == 1:
                        ok = True
                    else:
                        bad.append(fn.where(i, j))
                    continue
                val = fn.apath(rv["a"], 16, (i, j))
                pl = place_of(rv["a"])
                if val[0][0] == "local" and pl is not None and not pl["p"]:
                    # a reassigned local: no reassignment on the hit side, and c1's result is one of the definitions in force
                    later = [d for d in fn.defs().get(pl["l"], []) if d[1] in reach]
                    if not later and any(d[0] == "call" and d[1] == c1_bb for d in fn.reaching(pl["l"], (i, j))):
                        val = (("call", "", (), c1_bb), ())
            elif rv["k"] == "agg" and rv.get("variant") in ("Some", "Ok") and rv["ops"]:
                inner = fn.apath(rv["ops"][0], 16, (i, j))
                if _root_call_bb(inner) == c1_bb and inner[1] in (("as Some", "0"), ("as Ok", "0")):
                    val = (("call", "", (), c1_bb), ())
                else:
                    val = inner
            elif rv["k"] == "agg" and rv.get("variant") in ("None", "Err"):
                bad.append(fn.where(i, j))
                continue
            if val is not None and _root_call_bb(val) == c1_bb and not val[1]:
                ok = True
            elif val is not None:
                bad.append(fn.where(i, j))
    chk.decide(ok and not bad, rule, fk, what, fn.where(c1_bb), "a hit of the preferred lookup is returned unchanged",
               "the result of the preferred lookup at %s is not returned as-is on its success edge%s" % (fn.where(c1_bb), (" (something else is returned at %s)" % bad[0]) if bad else ""))


def gate(chk, fn, rule, fk, action_bbs, guard_pred, what, need="pos", ok_detail="", bad_detail=""):
    """Every action block must have a necessary guard edge matching guard_pred(desc) -> 'pos'/'neg'/None."""
    for ab in action_bbs:
        found = set()
        for g in fn.guards_of(ab):
            d = fn.guard_desc(g)
            r = guard_pred(d)
            if r:
                found.add(r)
        chk.decide(need in found, rule, fk, what, fn.where(ab), ok_detail,
                   (bad_detail or "action is not gated") + " [action at %s, guards seen: %s]" % (fn.where(ab), sorted(found) or "none"))


# --- cut-set gates ------------------------------------------------------------------------

def switch_tests(fn):
    """Yield (switch_bb, kind, apath, info) for every switch terminator outside cleanup blocks.
    kind: 'bool' | 'variant' | 'int'."""
    for s, b in enumerate(fn.blocks):
        if b["cleanup"] or b["term"]["k"] != "switch":
            continue
        info = fn.switch_info(s)
        # (flow-sensitive: the definition of a reassigned local that is in force at this test)
        if info["kind"] == "discr":
            yield s, "variant", fn.apath_place(info["place"], 16, (s, None)), info
        elif info["kind"] == "bool":
            yield s, "bool", fn.apath(b["term"]["discr"], 16, (s, None)), info
        else:
            yield s, "int", fn.apath(b["term"]["discr"], 16, (s, None)), info


def edge_names(fn, s, kind, info):
    """[(label, target, name)] with name 'true'/'false' for bool tests and the variant name for enums."""
    out = []
    if kind == "bool":
        for lab, tgt in fn.succs(s):
            out.append((lab, tgt, "false" if lab == 0 else "true"))
    elif kind == "variant":
        named = set()
        for v, tgt in info["targets"]:
            n = info["variants"].get(v, str(v))
            named.add(n)
            out.append((v, tgt, n))
        rest = [n for n in info["variants"].values() if n not in named]
        out.append(("otherwise", info["otherwise"], "|".join(rest) if rest else "otherwise"))
    else:
        for lab, tgt in fn.succs(s):
            out.append((lab, tgt, str(lab)))
    return out


def reach_known(fn, start, local, variant):
    """Blocks reachable from `start` given that `local` (and the locals it is moved into) holds an enum value of `variant`: a
    switch on the discriminant of such a local follows its `variant` edge only."""
    from facts import place_of
    aliases = {local}
    grew = True
    while grew:
        grew = False
        for i, j, st in fn.stmts():
            rv = st.get("rv", {})
            if st["k"] == "assign" and not st["place"]["p"] and rv.get("k") == "use":
                pl = place_of(rv["a"])
                if pl and not pl["p"] and pl["l"] in aliases and st["place"]["l"] not in aliases:
                    aliases.add(st["place"]["l"])
                    grew = True
    seen, work = set(), [start]
    while work:
        b = work.pop()
        if b in seen:
            continue
        seen.add(b)
        info = fn.switch_info(b) if fn.blocks[b]["term"]["k"] == "switch" else None
        if info and info.get("kind") == "discr" and info["place"]["l"] in aliases and not [p for p in info["place"]["p"] if p != "*"]:
            tgt = [t for v, t in info["targets"] if info["variants"].get(v) == variant]
            if not tgt:
                named = {info["variants"].get(v) for v, _ in info["targets"]}
                if variant not in named:
                    tgt = [info["otherwise"]]
            work.extend(tgt)
            continue
        for lab, t in fn.succs(b):
            work.append(t)
    return seen


def peel_not(ap):
    """Strip `!` wrappers: returns (apath, flipped)."""
    flip = False
    while ap[0][0] == "unop" and ap[0][1] == "Not" and not ap[1]:
        ap = ap[0][2]
        flip = not flip
    return ap, flip


def helper_accept(F, fn, ap, accept, info, depth=2):
    """`if helper(x, y)` where helper is a private bool function of the same crate (what `extract function` makes of a
    condition): the helper's `true` is an accepting answer when, inside the helper, every way of returning a value that can be
    true lies behind an accepting edge of a test the rule accepts (with the helper's parameters replaced by the caller's
    arguments) or is itself the result of an accepted test; likewise for `false`.  Returns the set of accepting answers or None."""
    import facts as _facts
    root, projs = ap
    if root[0] != "call" or projs or depth <= 0 or F is None:
        return None
    g = _facts.private_helper(F, fn.crate, root[1])
    if g is None or g.locals[0] != "bool" or len(root[2]) != g.raw["arg_count"]:
        return None
    argmap = {i + 1: a for i, a in enumerate(root[2])}

    def acc2(kind, a, inf):
        a = _facts.expand_ap(F, fn.crate, _facts.subst_ap(a, argmap))
        r = accept(kind, a, inf)
        if r is None and kind == "bool":
            r = helper_accept(F, g, a, accept, inf, depth - 1)
        return r

    # return-value sources: (block, set of values it can produce, accepted values by the rule)
    srcs = []
    for d in g.defs().get(0, []):
        if d[0] == "stmt" and d[3].get("k") == "use":
            c = d[3]["a"].get("const") if isinstance(d[3]["a"], dict) else None
            if c is not None and c.get("ty") == "bool":
                srcs.append((d[1], {"true" if c.get("int") else "false"}, set()))
                continue
            vap, vflip = peel_not(g.apath(d[3]["a"]))
            a2 = acc2("bool", vap, info)
            a2 = set() if a2 is None else ({{"true": "false", "false": "true"}.get(x, x) for x in a2} if vflip else set(a2))
            srcs.append((d[1], {"true", "false"}, a2))
        elif d[0] == "call":
            t_ = d[2]
            nm = _facts.callee_name(t_["callee"]) if "callee" in t_ else "<indirect>"
            vap = (("call", nm, tuple(g.apath(a) for a in t_["args"]), d[1]), ())
            a2 = acc2("bool", vap, info)
            srcs.append((d[1], {"true", "false"}, set() if a2 is None else set(a2)))
        else:
            return None
    if not srcs:
        return None
    # cut the accepted edges inside the helper
    res, matched = cut_gate(g, [b for b, _, _ in srcs], acc2, F=F)
    out = set()
    for val in ("true", "false"):
        ok = True
        used = False
        for b, vals, accepted in srcs:
            if val not in vals:
                continue
            if res[b]:
                used = True          # only reachable through an accepting edge
                continue
            if val in accepted:
                used = True          # the value is the accepted answer of an accepted test
                continue
            ok = False
        if ok and used:
            out.add(val)
    return out or None


def cut_gate(fn, actions, accept, F=None):
    """Delete the accepting edges of every test matched by accept(kind, apath, info) -> set of accepting edge
    names (or None when the test is not a guard of interest).  Returns (unreached_ok: {action: bool}, matched tests)."""
    import facts as _facts_
    if F is None:
        F = _facts_.CURRENT
    cut = set()
    matched = []
    deferred = []
    for s, kind, ap, info in switch_tests(fn):
        flip = False
        if kind == "bool":
            ap, flip = peel_not(ap)
        acc = accept(kind, ap, info)
        if acc is None and F is not None and kind == "bool":
            # the same test with a named sub-expression / a named condition (private helpers of this crate)
            ap2 = _facts_.expand_ap(F, fn.crate, ap)
            if ap2 != ap:
                ap2, flip2 = peel_not(ap2)
                acc = accept(kind, ap2, info)
                if acc is not None:
                    ap, flip = ap2, flip != flip2
            if acc is None:
                acc = helper_accept(F, fn, ap, accept, info)
        if acc is None and kind == "bool" and ap[0][0] == "local" and not ap[1]:
            deferred.append((s, kind, ap, info, flip))
            continue
        if acc is None:
            continue
        if flip:
            acc = {{"true": "false", "false": "true"}.get(a, a) for a in acc}
        matched.append(s)
        for lab, tgt, name in edge_names(fn, s, kind, info):
            names = set(name.split("|"))
            if names & set(acc):
                cut.add((s, lab, tgt))
    # materialised booleans (`let z = a || b; if z`): the tested local has several definitions.  The switch's edge named E is
    # taken only through a definition that can produce E.  Cutting E is sound when every definition is either a test accepted
    # with E, or a constant that is not E, or the constant E assigned in a block that is itself only reachable through an
    # accepting edge that has already been cut (the short-circuit arm of an accepted test).
    if deferred:
        import facts as _facts
        reach0 = fn.reachable(0, cut_edges=cut)
        for s, kind, ap, info, flip in deferred:
            defs = fn.defs().get(ap[0][1], [])
            accs, consts, other = [], [], 0
            for d in defs:
                if d[0] == "stmt" and d[3].get("k") == "use":
                    c = d[3]["a"].get("const") if isinstance(d[3]["a"], dict) else None
                    if c is not None and c.get("ty") == "bool":
                        consts.append(("true" if c.get("int") else "false", d[1]))
                        continue
                    dap, dflip = peel_not(fn.apath(d[3]["a"]))
                    a2 = accept("bool", dap, info)
                    if a2 is not None:
                        accs.append({{"true": "false", "false": "true"}.get(x, x) for x in a2} if dflip else set(a2))
                        continue
                elif d[0] == "call":
                    t_ = d[2]
                    nm = _facts.callee_name(t_["callee"]) if "callee" in t_ else "<indirect>"
                    dap = (("call", nm, tuple(fn.apath(a) for a in t_["args"]), d[1]), ())
                    a2 = accept("bool", dap, info)
                    if a2 is not None:
                        accs.append(set(a2))
                        continue
                other += 1
            if not accs or other or not all(a == accs[0] for a in accs) or len(accs[0]) != 1:
                continue
            e = next(iter(accs[0]))
            if all(c != e or blk not in reach0 for c, blk in consts):
                acc = {{"true": "false", "false": "true"}.get(e, e)} if flip else {e}
                matched.append(s)
                for lab, tgt, name in edge_names(fn, s, kind, info):
                    if set(name.split("|")) & acc:
                        cut.add((s, lab, tgt))
    reach = fn.reachable(0, cut_edges=cut)
    return {a: (a not in reach) for a in actions}, matched


def gate_rule(chk, fn, rule, fk, what, actions, accept, ok_detail, bad_detail, min_guards=1):
    if not actions:
        raise AnchorLost("%s: no action site found for gate %s" % (fn.path, what))
    res, matched = cut_gate(fn, actions, accept)
    if len(matched) < min_guards:
        for a in actions:
            chk.finding(rule, fk, what, fn.where(a), "%s [no recognisable guard of this kind is left in %s]" % (bad_detail, fn.path))
        return
    for a, ok in sorted(res.items()):
        chk.decide(ok, rule, fk, what, fn.where(a), ok_detail + " (%d guard test(s))" % len(matched),
                   bad_detail + " [the action at %s stays reachable when the accepting edges of the %d matching test(s) are removed]" % (fn.where(a), len(matched)))


def call_blocks(fn, *suffixes):
    return [bb for bb, t in fn.calls() if "callee" in t and t["callee"]["path"].endswith(tuple(suffixes))]
