"""HIR tree utilities: desugaring removal (`?`, `.await`, `for`), statement lists, searches."""
from facts import hir_walk, AnchorLost


def is_path_call(e, suffix):
    return e.get("k") == "Call" and e["f"].get("k") == "Path" and e["f"]["r"].get("path", "").endswith(suffix)


def simplify(e):
    """Return a copy with `?` -> {'k':'Try','e':..}, `.await` -> {'k':'Await','e':..}."""
    if isinstance(e, list):
        return [simplify(x) for x in e]
    if not isinstance(e, dict):
        return e
    k = e.get("k")
    if k == "Match" and e.get("src", "").startswith("TryDesugar"):
        s = e["scrut"]
        if s.get("k") == "Call" and s["args"]:
            return {"k": "Try", "e": simplify(s["args"][0]), "line": e.get("line"), "ty": e.get("ty")}
    if k == "Match" and e.get("src") == "AwaitDesugar":
        s = e["scrut"]
        if s.get("k") == "Call" and s["args"]:
            return {"k": "Await", "e": simplify(s["args"][0]), "line": e.get("line"), "ty": e.get("ty")}
    return {kk: simplify(v) for kk, v in e.items()}


def stmts_of(block):
    """Statement-level expressions of a Block in order: [(kind, node)], kind in let/expr/tail."""
    out = []
    if block.get("k") != "Block":
        return [("tail", block)]
    for s in block["stmts"]:
        if s["sk"] == "let":
            out.append(("let", s))
        elif s["sk"] in ("expr", "semi"):
            out.append(("expr", s["e"]))
    if block.get("expr"):
        out.append(("tail", block["expr"]))
    return out


def find(e, pred):
    return [n for n in hir_walk(e) if pred(n)]


def method_calls(e, name=None):
    return [n for n in hir_walk(e) if n.get("k") == "MethodCall" and (name is None or n["name"] == name)]


def path_calls(e, suffix):
    return [n for n in hir_walk(e) if is_path_call(n, suffix)]


def local_name(e):
    """Name of a local variable expression, looking through & and &mut, else None."""
    while e.get("k") in ("AddrOf",) or (e.get("k") == "Unary" and e.get("op") == "Deref"):
        e = e["e"] if e["k"] == "AddrOf" else e["a"]
    if e.get("k") == "Path" and e["r"].get("res") == "local":
        return e["r"]["name"], e["r"]["lid"]
    return None


def assigns_to(e, name):
    """Assign nodes whose lhs is the local `name`."""
    out = []
    for n in hir_walk(e):
        if n.get("k") == "Assign":
            ln = local_name(n["lhs"])
            if ln and ln[0] == name:
                out.append(n)
    return out


def body_of_async(h):
    """The user-level body of an `async fn` (inside the coroutine closure), or the body itself."""
    b = h["body"]
    if h.get("is_async"):
        cl = [n for n in hir_walk(b) if n.get("k") == "Closure" and "Coroutine" in n.get("ckind", "")]
        if not cl:
            raise AnchorLost("async fn %s has no coroutine body" % h["path"])
        return cl[0]["body"]
    return b


def pat_str(p):
    import hirpp
    return hirpp.pat(p)


def expr_str(e, n=160):
    import hirpp
    return hirpp.expr(e, 0, 12)[:n]
