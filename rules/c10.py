"""C10 Temperature scales are exact, mutually inverse affine maps.  DESIGN.md section 4, C10."""
import json
import os
from fractions import Fraction

import c02
import datafiles
import facts
import hirutil as H
import k2
import k4
from facts import AnchorLost, ap_str, hir_walk

CORE = "rink_core"


def degree_table(F):
    fn = F.find(CORE, "ast::Degree::name_base_scale")
    h = F.hir_of(fn)
    ms = [m for m in hir_walk(h["body"]) if m.get("k") == "Match" and m.get("src") == "Normal"]
    if not ms:
        # the same table as a const array with one row per variant, in declaration order, indexed by `*self as usize`
        idx = [n for n in hir_walk(h["body"]) if n.get("k") == "Index"]
        if len(idx) == 1:
            base, i = idx[0].get("a") or idx[0].get("base") or idx[0].get("e"), idx[0].get("b") or idx[0].get("index") or idx[0].get("i")
            while base and base.get("k") in ("AddrOf", "DropTemps", "Paren") and base.get("e"):
                base = base["e"]
            c = F.consts.get(CORE, {}).get((base.get("r") or {}).get("path")) if base and base.get("k") == "Path" else None
            by_self = i is not None and i.get("k") == "Cast" and "usize" in str(i.get("ty", "")) and any(
                x.get("k") == "Path" and (x.get("r") or {}).get("name") == "self" for x in hir_walk(i))
            body = c["body"] if c else None
            while body and body.get("k") in ("AddrOf", "DropTemps", "Paren") and body.get("e"):
                body = body["e"]
            variants = [v["name"] for v in F.adt(CORE, "ast::Degree")["variants"]]
            discr_plain = all(v.get("discr") == "rel:%d" % k_ for k_, v in enumerate(F.adt(CORE, "ast::Degree")["variants"]))
            rows = (body.get("elems") or body.get("es") or []) if body and body.get("k") == "Array" else []
            if c and by_self and discr_plain and len(rows) == len(variants):
                table = {}
                for vname, tup in zip(variants, rows):
                    if tup.get("k") != "Tup" or len(tup["elems"]) != 3 or not all(e.get("k") == "Lit" for e in tup["elems"]):
                        raise AnchorLost("row of %s for %s is not a tuple of three string literals" % (c["path"], vname))
                    table[vname] = tuple(e["lit"]["v"] for e in tup["elems"])
                return fn, table
    if len(ms) != 1:
        raise AnchorLost("name_base_scale is neither a single match nor an index by `*self as usize` into a const table with one row per variant")
    table = {}
    for a in ms[0]["arms"]:
        p = a["pat"]
        name = None
        if p["pk"] == "expr":
            name = p["e"].get("path", "").split("::")[-1]
        tup = a["body"]
        if tup.get("k") != "Tup" or len(tup["elems"]) != 3 or not all(e.get("k") == "Lit" for e in tup["elems"]):
            raise AnchorLost("name_base_scale arm for %s is not a tuple of three string literals" % name)
        table[name] = tuple(e["lit"]["v"] for e in tup["elems"])
    return fn, table


def run(chk, F):
    chk.explanation = (
        "(a) the (name, zero constant, scale unit) triples are extracted from Degree::name_base_scale and their exact values, "
        "folded from definitions.units by the independent rational reader over their dependency closure, must equal the textbook "
        "table (tables/temperature_textbook.json), be temperatures (K^1) and have a non-zero scale; (b) mirror structure: the "
        "suffix arm computes x*lookup(scale)+lookup(zero) and the conversion arm (v-lookup(zero))/lookup(scale), both taking "
        "zero and scale from the same name_base_scale call, with Number's exact operators (K4: no float-introducing site) - so "
        "the two maps are algebraic inverses for every rational x and conversions between scales compose exactly; (c) gates: "
        "suffix only on dimensionless operands, conversion only behind the conformance test, compound targets refuse scale "
        "operators; (d) every lexer alias maps to a variant, every variant has an alias, Display prints an alias of the same "
        "variant.")
    chk.guard("data-table", "name_base_scale", lambda: data_table(chk, F))
    chk.guard("mirror-structure", "eval", lambda: mirror(chk, F))
    chk.guard("gates", "eval", lambda: gates(chk, F))
    chk.guard("aliases", "lexer", lambda: aliases(chk, F))
    import c03
    chk.guard("target-consumed", "parse_query", lambda: c03.target_consumed(chk, F))


def data_table(chk, F):
    fn, table = degree_table(F)
    book = json.load(open(os.path.join(facts.VERIF, "tables", "temperature_textbook.json")))
    adt = F.adt(CORE, "ast::Degree")
    variants = [v["name"] for v in adt["variants"]]
    chk.decide(sorted(table) == sorted(variants) and len(variants) == 6, "data-table", "rink_core::ast::Degree::name_base_scale", "covers-all-variants", fn.where(),
               "one arm per Degree variant: %s" % sorted(table), "name_base_scale arms %s do not match Degree's variants %s" % (sorted(table), sorted(variants)))
    f = datafiles.folder()
    for deg, (name, zero, scale) in sorted(table.items()):
        want = book.get(deg)
        if want is None:
            chk.finding("data-table", "tables/temperature_textbook.json", deg, "", "no textbook entry for scale %s" % deg)
            continue
        for what, unit, expect in (("zero", zero, Fraction(want["zero"])), ("scale", scale, Fraction(want["scale"]))):
            try:
                v, dims = f.lookup(unit)
            except Exception as ex:  # noqa
                chk.finding("data-table", "core/definitions.units", "%s:%s" % (deg, what), "core/definitions.units",
                            "`%s` (the %s of %s) is not defined / cannot be folded: %s" % (unit, what, deg, ex))
                continue
            ok = v == expect and dims == {"K": 1}
            chk.decide(ok, "data-table", "core/definitions.units", "%s:%s=%s" % (deg, what, unit), "core/definitions.units",
                       "%s of %s: %s = %s K (textbook)" % (what, deg, unit, v),
                       "%s of %s: `%s` folds to %s %s in definitions.units, textbook value is %s K" % (what, deg, unit, v, dims, expect))
            if what == "scale":
                chk.decide(v != 0, "data-table", "core/definitions.units", "%s:scale-nonzero" % deg, "", "scale != 0 (conversion divides by it)", "scale of %s is zero" % deg)
    chk.floor("data-table", 19)


def mirror(chk, F):
    # suffix arm in eval_expr
    fn = F.find(CORE, "runtime::eval::eval_expr", inline=True, keep=("Option::<T>", "Iterator", "bool>::then"))
    fk = "rink_core::runtime::eval::eval_expr"
    adds = [(bb, t) for bb, t in fn.calls() if "callee" in t and t["callee"]["path"].endswith("core::ops::arith::Add<&'b types::number::Number>>::add")
            and "name_base_scale" in ap_str(fn.apath(t["args"][1]))]
    if len(adds) != 1:
        raise AnchorLost("eval_expr: cannot find `x*scale + lookup(zero)` of the temperature suffix (found %d)" % len(adds))
    bb, t = adds[0]
    lhs, rhs = fn.apath(t["args"][0]), fn.apath(t["args"][1])
    sl, sr = ap_str(lhs), ap_str(rhs)
    # lhs = unwrap(mul(expr, expect(lookup(nbs.2))))   rhs = expect(lookup(nbs.1))
    ok = "arith::Mul<&'b types::number::Number>>::mul(" in sl and "name_base_scale(" in sl and ").2)" in sl and "Context::lookup" in sl and \
        "Context::lookup" in sr and ").1)" in sr
    same_call = nbs_blocks(lhs) == nbs_blocks(rhs) and len(nbs_blocks(lhs)) == 1
    chk.decide(ok and same_call, "mirror-structure", fk, "suffix:x*scale+zero", fn.where(bb),
               "`x <scale>` = x * lookup(scale unit) + lookup(zero constant), both names from the same name_base_scale() call",
               "the temperature suffix is not x * lookup(nbs.2) + lookup(nbs.1) of one name_base_scale call (lhs %s ; rhs %s)" % (sl[:120], sr[:120]))
    # conversion arm in eval_query
    q = F.find(CORE, "runtime::eval::eval_query")
    qk = "rink_core::runtime::eval::eval_query"
    divs = [(b2, t2) for b2, t2 in q.calls() if "callee" in t2 and t2["callee"]["path"].endswith("core::ops::arith::Div<&'b types::number::Number>>::div")
            and "name_base_scale" in ap_str(q.apath(t2["args"][1]))]
    if len(divs) != 1:
        raise AnchorLost("eval_query: cannot find `(v - zero) / scale` of the temperature conversion (found %d)" % len(divs))
    b2, t2 = divs[0]
    num, den = q.apath(t2["args"][0]), q.apath(t2["args"][1])
    sn, sd = ap_str(num), ap_str(den)
    ok = "arith::Sub<&'b types::number::Number>>::sub(" in sn and ").1)" in sn and "Context::lookup" in sn and ").2)" in sd and "Context::lookup" in sd
    same_call = nbs_blocks(num) == nbs_blocks(den) and len(nbs_blocks(num)) == 1
    chk.decide(ok and same_call, "mirror-structure", qk, "conversion:(v-zero)/scale", q.where(b2),
               "`-> <scale>` = (v - lookup(zero constant)) / lookup(scale unit), both names from the same name_base_scale() call",
               "the temperature conversion is not (v - lookup(nbs.1)) / lookup(nbs.2) of one name_base_scale call (num %s ; den %s)" % (sn[:120], sd[:120]))
    # the subtraction's minuend is the converted value itself
    # exactness of the four operators
    roots = [F.find(CORE, "<&'a types::number::Number as core::ops::arith::%s<&'b types::number::Number>>::%s" % (o, m), exact=True)
             for o, m in (("Add", "add"), ("Sub", "sub"), ("Mul", "mul"), ("Div", "div"))]
    nreach, nprim, bad = k4.check_exact(chk, F, "mirror-structure", roots, "scale arithmetic must be exact")
    chk.extra["exact_reach"] = {"functions": nreach, "float_primitives_seen": nprim}


def nbs_blocks(ap, out=None):
    """Call blocks of name_base_scale() inside an access path."""
    if out is None:
        out = set()
    r = ap[0]
    if r[0] == "call":
        if r[1].endswith("ast::Degree::name_base_scale"):
            out.add(r[3])
        for a in r[2]:
            nbs_blocks(a, out)
    elif r[0] == "agg":
        for a in r[2]:
            nbs_blocks(a, out)
    return out


def gates(chk, F):
    # suffix gate is checked in C02 (degree-suffix:dimensionless); repeat the instance here for this property
    fn = F.find(CORE, "runtime::eval::eval_expr", inline=True, keep=("Option::<T>", "Iterator", "bool>::then"))
    fk = "rink_core::runtime::eval::eval_expr"
    muls = [(bb, t) for bb, t in fn.calls() if "callee" in t and t["callee"]["path"].endswith("core::ops::arith::Mul<&'b types::number::Number>>::mul")
            and "name_base_scale" in ap_str(fn.apath(t["args"][1]))]
    if len(muls) != 1:
        raise AnchorLost("eval_expr: temperature suffix multiplication not found")
    bb, t = muls[0]
    owner = fn.apath(t["args"][0])
    k2.gate_rule(chk, fn, "gates", fk, "suffix:dimensionless-operand", [bb], c02.dimless_accept((owner[0], owner[1])),
                 "a scale operator is applied only to a dimensionless operand", "a scale operator can be applied to a value that already carries a dimension")
    # conversion gate
    q = F.find(CORE, "runtime::eval::eval_query")
    qk = "rink_core::runtime::eval::eval_query"
    divs = [(b2, t2) for b2, t2 in q.calls() if "callee" in t2 and t2["callee"]["path"].endswith("core::ops::arith::Div<&'b types::number::Number>>::div")
            and "name_base_scale" in ap_str(q.apath(t2["args"][1]))]
    subs = [(b2, t2) for b2, t2 in q.calls() if "callee" in t2 and t2["callee"]["path"].endswith("core::ops::arith::Sub<&'b types::number::Number>>::sub")
            and "name_base_scale" in ap_str(q.apath(t2["args"][1]))]
    acts = [b for b, _ in divs + subs]
    k2.gate_rule(chk, q, "gates", qk, "conversion:conformance-test", acts, c02.same_dim_accept(None),
                 "the affine conversion is computed only behind `top.unit == scale_unit.unit`", "a temperature conversion is computed without the conformance test")
    # the conversion arm has one way to an answer: the whole left operand is evaluated (which is where the scale operator's
    # own "dimensionless operand" test lives) and that value goes through the affine map.  A second path that evaluates a
    # *part* of the operand, or builds a reply of its own, bypasses the suffix gate: `5 m degC -> degC` would answer 5 °C.
    hq = F.hir_of(q)
    darm = None
    for m in hir_walk(hq["body"]):
        if m.get("k") == "Match" and m.get("src") == "Normal":
            for a in m["arms"]:
                pt = H.pat_str(a["pat"]).replace(" ", "")
                if pt.startswith("Query::Convert(") and "Conversion::Degree(" in pt:
                    darm = a
    if darm is None:
        raise AnchorLost("eval_query: the `-> <scale>` arm was not found")
    binds = [b for b in hir_walk(darm["pat"]) if b.get("pk") == "bind"]
    top_lid = binds[0]["lid"] if binds else None
    evs = [c for c in hir_walk(darm["body"]) if c.get("k") == "Call" and c["f"].get("k") == "Path" and str(c["f"]["r"].get("path", "")).endswith("eval::eval_expr")]
    shows = [c for c in hir_walk(darm["body"]) if c.get("k") == "MethodCall" and c["name"] == "show" and "ctx" in H.expr_str(c["recv"])]
    whole = [c for c in evs if len(c["args"]) == 2 and (H.local_name(c["args"][1]) or (None, None))[1] == top_lid]
    chk.decide(len(evs) == 1 and len(whole) == 1 and len(shows) == 1, "gates", qk, "conversion:one-path-through-the-operand", "%s:%d" % (q.file, darm["line"]),
               "the `-> <scale>` arm evaluates the whole left operand once and builds one reply from it",
               "the `-> <scale>` arm has %d evaluation(s) (%d of the whole operand) and %d reply construction(s): a path that evaluates a part of the "
               "operand or answers on its own skips the scale operator's dimensionless test (`5 m degC -> degC` answers `5 °C`)" % (len(evs), len(whole), len(shows)))
    # compound targets: eval_unit_name's Degree arm is an error
    u = F.find(CORE, "runtime::eval::eval_unit_name")
    h = F.hir_of(u)
    arms = []
    for m in hir_walk(h["body"]):
        if m.get("k") == "Match":
            for a in m["arms"]:
                if "UnaryOpType::Degree" in H.pat_str(a["pat"]):
                    arms.append(a)
    ok = False
    if len(arms) == 1:
        b = arms[0]["body"]
        txt = H.expr_str(b, 200)
        rec = [c for c in hir_walk(b) if c.get("k") == "Call" and c["f"].get("k") == "Path" and c["f"]["r"].get("path", "").endswith("eval_unit_name")]
        ok = txt.startswith("Result::Err(") and not rec
    chk.decide(ok, "gates", "rink_core::runtime::eval::eval_unit_name", "compound-target-refused", "%s:%d" % (u.file, arms[0]["line"] if arms else 0),
               "a scale operator inside a compound conversion target is refused with an error",
               "eval_unit_name accepts a temperature scale inside a compound target (the affine scale would be treated as a linear unit)")


def aliases(chk, F):
    # lexer arms producing Token::Degree
    lex = [f for f in F.by_crate[CORE] if f.path == "<parsing::text_query::TokenIterator<'a> as core::iter::traits::iterator::Iterator>::next"]
    if len(lex) != 1:
        raise AnchorLost("text_query lexer next() not found")
    h = F.hir_of(lex[0])
    table = {}
    for m in hir_walk(h["body"]):
        if m.get("k") != "Match":
            continue
        for a in m["arms"]:
            degs = [c for c in hir_walk(a["body"]) if c.get("k") == "Call" and c["f"].get("k") == "Path" and c["f"]["r"].get("path", "").endswith("Token::Degree")]
            if not degs:
                continue
            variant = None
            for x in hir_walk(degs[0]["args"][0]):
                if x.get("k") == "Path" and "Degree::" in x["r"].get("path", ""):
                    variant = x["r"]["path"].split("::")[-1]
            pats = a["pat"]["alts"] if a["pat"]["pk"] == "or" else [a["pat"]]
            names = [p["e"]["v"] for p in pats if p["pk"] == "expr" and "v" in p["e"]]
            if variant and names and len(degs) == 1:
                table.setdefault(variant, []).extend(names)
    # ... or the spellings are rows ("spelling", Degree::X) of a const table that the lexer searches by exact equality of the
    # first component and whose second component becomes the token
    for n in hir_walk(h["body"]):
        if n.get("k") == "Path" and (n.get("r") or {}).get("res") == "def" and str(n["r"].get("dk", "")).startswith("Const"):
            c = F.consts.get(CORE, {}).get(n["r"].get("path"))
            if c is None or "ast::Degree" not in c["ty"] or "str" not in c["ty"]:
                continue
            body = c["body"]
            while body.get("k") in ("AddrOf", "DropTemps", "Paren") and body.get("e"):
                body = body["e"]
            rows = (body.get("elems") or body.get("es") or []) if body.get("k") == "Array" else []
            used = [m for m in hir_walk(h["body"]) if m.get("k") == "MethodCall" and m["name"] in ("find", "position", "find_map")
                    and any(x is n for x in hir_walk(m["recv"]))]
            eq_only = bool(used) and all(any(b.get("k") == "Binary" and b.get("op") == "Eq" for b in hir_walk(a)) and
                                         not any(b.get("k") == "MethodCall" and b["name"] in ("starts_with", "ends_with", "contains", "eq_ignore_ascii_case") for b in hir_walk(a))
                                         for m in used for a in m["args"])
            if not rows or not eq_only:
                continue
            for tup in rows:
                if tup.get("k") == "Tup" and len(tup["elems"]) == 2 and tup["elems"][0].get("k") == "Lit" and tup["elems"][1].get("k") == "Path" \
                        and "Degree::" in tup["elems"][1]["r"].get("path", ""):
                    table.setdefault(tup["elems"][1]["r"]["path"].split("::")[-1], []).append(tup["elems"][0]["lit"]["v"])
    adt = F.adt(CORE, "ast::Degree")
    variants = [v["name"] for v in adt["variants"]]
    fk = "rink_core::parsing::text_query lexer"
    for v in variants:
        chk.decide(bool(table.get(v)), "aliases", fk, "has-alias:" + v, "", "%s is written %s" % (v, table.get(v)), "no lexer spelling produces Degree::%s" % v)
    allnames = [n for v in table.values() for n in v]
    dup = sorted(n for n in set(allnames) if allnames.count(n) > 1)
    chk.decide(not dup, "aliases", fk, "unambiguous", "", "%d spellings, each for one scale" % len(allnames), "spellings mapped to several scales: %s" % dup)
    # Display prints an alias of the same variant
    disp = F.find(CORE, "<ast::Degree as core::fmt::Display>::fmt", exact=True)
    hd = F.hir_of(disp)
    for m in hir_walk(hd["body"]):
        if m.get("k") == "Match" and m.get("src") == "Normal":
            for a in m["arms"]:
                if a["pat"]["pk"] != "expr":
                    continue
                v = a["pat"]["e"].get("path", "").split("::")[-1]
                lits = [x["lit"]["v"] for x in hir_walk(a["body"]) if x.get("k") == "Lit" and x["lit"].get("lit") == "str"]
                printed = "".join(lits)
                chk.decide(printed in table.get(v, []), "aliases", "rink_core::<ast::Degree as Display>::fmt", "prints-own-alias:" + v, "%s:%d" % (disp.file, a["line"]),
                           "Degree::%s prints `%s`, which the lexer reads back as the same scale" % (v, printed),
                           "Degree::%s prints `%s`, which the lexer does not read as %s (aliases: %s)" % (v, printed, v, table.get(v)))
    chk.extra["degree_aliases"] = table
    # name_base_scale's short names agree with Display (°+name)
    _, nbs = degree_table(F)
    for v, (name, zero, scale) in sorted(nbs.items()):
        chk.decide(("°" + name) in table.get(v, []), "aliases", "rink_core::ast::Degree::name_base_scale", "short-name:" + v, "",
                   "short name %s belongs to %s" % (name, v), "short name `%s` of %s is not one of its spellings" % (name, v))
    # ... and no other scale is spelled with it: `deg<S>` / `°<S>` is scale S's, whoever else the lexer gives it to
    owner = {name: v for v, (name, zero, scale) in nbs.items()}
    wrong = sorted((n, v, owner[n[len(pre):]]) for v, names in table.items() for n in names for pre in ("deg", "°")
                   if n.startswith(pre) and n[len(pre):] in owner and owner[n[len(pre):]] != v)
    chk.decide(not wrong, "aliases", "rink_core::parsing::text_query lexer", "short-name-spellings-belong", "",
               "every `deg<S>` / `°<S>` spelling is read as the scale whose short name is S",
               "; ".join("`%s` is read as %s, it is the short name of %s" % w for w in wrong))
