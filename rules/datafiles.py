"""Rules over the data files compiled into the binary (definitions.units, currency.units, snapshot)."""
import json
import os
import sys

import facts

sys.path.insert(0, os.path.join(facts.VERIF, "unitsfile"))
import reader  # noqa: E402
import fold  # noqa: E402
import lint as ulint  # noqa: E402

_cache = {}


def defs(name="definitions.units"):
    if name not in _cache:
        p = os.path.join(facts.REPO, "core", name)
        if not os.path.exists(p):
            raise facts.AnchorLost("data file core/%s is missing" % name)
        _cache[name] = reader.parse(open(p, encoding="utf-8").read())
    return _cache[name]


def snapshot():
    p = os.path.join(facts.REPO, "core", "tests", "currency.snapshot.json")
    return json.load(open(p))


def unique_names(chk, rule="unique-names"):
    d = defs()
    ns = ulint.namespaces(d)
    dups = sorted(k for k, v in ns.items() if len(v) > 1 and k[0] != "category")
    chk.decide(not dups, rule, "core/definitions.units", "per-namespace", "core/definitions.units",
               "%d names, unique per namespace (units %d, prefixes %d, quantities %d)" % (
                   len(ns), sum(1 for k in ns if k[0] == "unit"), sum(1 for k in ns if k[0] == "prefix"), sum(1 for k in ns if k[0] == "quantity")),
               "duplicate names in definitions.units: %s" % dups[:8])
    if len(d) < 2500:
        chk.anchor_lost(rule, "core/definitions.units", "reader found only %d entries (expected >= 2500)" % len(d))
    cur = defs("currency.units")
    both = ulint.namespaces(d + cur)
    dups = sorted(k for k, v in both.items() if len(v) > 1 and k[0] != "category")
    chk.decide(not dups, rule, "core/currency.units", "per-namespace", "core/currency.units",
               "currency.units adds %d entries without colliding with definitions.units" % len(cur), "currency.units collides with definitions.units: %s" % dups[:8])


def folder():
    if "folder" not in _cache:
        _cache["folder"] = fold.Folder(defs())
    return _cache["folder"]


def reference_lint(chk, rule="references-resolve"):
    d = defs()
    r = ulint.lint(d)
    chk.decide(not r["unresolved"], rule, "core/definitions.units", "identifiers", "core/definitions.units",
               "%d identifier references in %d entries all resolve (exact -> prefix -> plural, substance symbols, formulas)" % (r["refs"], r["defs"]),
               "unresolved identifiers in definitions.units: %s" % r["unresolved"][:8])
    chk.decide(not r["badalias"], rule, "core/definitions.units", "alias-chains", "core/definitions.units",
               "%d alias chains all end at a real definition" % r["aliases"], "alias chains that cycle or dangle: %s" % r["badalias"][:8])
    chk.decide(not r["badcat"], rule, "core/definitions.units", "categories", "core/definitions.units",
               "every !category used is declared", "entries in undeclared categories: %s" % r["badcat"][:8])
    # currency overlay: references to currency codes resolve against the snapshot's names
    snap = snapshot()
    names = [e["name"] for e in snap]
    cur = defs("currency.units")
    r2 = ulint.lint(d + cur, extra_exact=names)
    chk.decide(not r2["unresolved"] and not r2["badalias"], rule, "core/currency.units", "identifiers", "core/currency.units",
               "currency.units: %d entries; all references resolve against definitions.units + the %d snapshot names" % (len(cur), len(names)),
               "unresolved identifiers in currency.units: %s %s" % (r2["unresolved"][:8], r2["badalias"][:4]))
    # snapshot entries parse with the expression grammar and refer to known names
    bad = []
    allnames = set(names)
    for e in snap:
        exprs = [e["expr"]] if e.get("type") == "unit" else [p[k] for p in e.get("properties", []) for k in ("input", "output")]
        for x in exprs:
            try:
                it = reader.Toks(x)
                tree = reader.p_expr(it)
                o = []
                ulint.names_in(tree, o)
                if "error" in str(tree)[:2000] and ("'error'" in str(tree)):
                    bad.append((e["name"], x, "parse"))
            except Exception as ex:  # noqa
                bad.append((e["name"], x, "parse:%s" % ex))
    chk.decide(not bad, rule, "core/tests/currency.snapshot.json", "expressions-parse", "core/tests/currency.snapshot.json",
               "the %d snapshot entries parse with the definitions grammar" % len(snap), "snapshot entries that do not parse: %s" % bad[:5])
    dup = sorted(n for n in set(names) if names.count(n) > 1)
    chk.decide(not dup, rule, "core/tests/currency.snapshot.json", "unique", "", "snapshot names are unique", "duplicate snapshot names %s" % dup)


def declared_base_units(chk, rule="declared-base-units"):
    """A quoted name in an expression (`'hash'`) makes an ad-hoc base unit at evaluation time.  In the data that is loaded as
    definitions (the live-currency entries go through the query grammar, which allows quotes) every such name must be a base
    unit the files declare; otherwise a stored value has a dimension that is not a declared base unit and cannot be named in
    a query."""
    d = defs()
    cur = defs("currency.units")
    base = {x["name"] for x in d + cur if x["kind"] == "base"} | {x["long"] for x in d + cur if x["kind"] == "base" and x.get("long")}
    bad = []
    n = 0
    for e in snapshot():
        exprs = [e["expr"]] if e.get("type") == "unit" else [p[k] for p in e.get("properties", []) for k in ("input", "output")]
        for x in exprs:
            try:
                tree = reader.p_expr(reader.Toks(x))
            except Exception:  # noqa
                continue
            o = []
            ulint.names_in(tree, o)
            for nm in o:
                if nm.startswith(("'", '"')):
                    n += 1
                    if nm.strip("'\"") not in base:
                        bad.append("%s: %s" % (e["name"], nm))
    for x in d + cur:
        exprs = [x["expr"]] if "expr" in x else []
        for pr in x.get("props", []):
            exprs += [pr["input"], pr["output"]]
        for ex in exprs:
            o = []
            ulint.names_in(ex, o)
            for nm in o:
                if nm.startswith(("'", '"')):
                    n += 1
                    if nm.strip("'\"") not in base:
                        bad.append("%s: %s" % (x["name"], nm))
    chk.decide(not bad, rule, "core data files", "quoted-names-are-declared-base-units", "core/tests/currency.snapshot.json",
               "%d quoted (ad-hoc) unit names in the data, each a declared base unit" % n,
               "quoted names that create undeclared base units: %s" % bad[:6])


def substances_in_unit_lines(chk, rule="unit-lines-are-units"):
    """A unit line whose expression evaluates to a substance is stored as a substance (an alias or a mixture), not as a unit.
    That is meant for `air`-style mixtures and aliases; a line that multiplies a substance symbol with ordinary units
    (`lusec  liter micron Hg / s`, where Hg is mercury in rink but a pressure unit in GNU units) silently becomes a substance
    with a meaningless amount, and an alias whose name also has a unit reading can never be reached (units are looked up first,
    prefixes and plurals included)."""
    d = defs()
    subs = {x["name"] for x in d if x["kind"] == "substance"} | {x["symbol"] for x in d if x["kind"] == "substance" and x.get("symbol")}
    exact = {x["name"] for x in d if x["kind"] in ("unit", "base")} | {x["long"] for x in d if x["kind"] == "base" and x.get("long")} | \
        {x["name"] for x in d if x["kind"] == "prefixL"}
    prefixes = [x["name"] for x in d if x["kind"] in ("prefixL", "prefixS")]

    # unit lines that are themselves substance aliases / mixtures (fixed point): they are not units
    sublines = set()
    changed = True
    while changed:
        changed = False
        for x in d:
            if x["kind"] == "unit" and "expr" in x and x["name"] not in sublines:
                o = []
                ulint.names_in(x["expr"], o)
                if "'of'" in repr(x["expr"]):
                    continue        # `<property> of <substance>` is a number, not a substance
                if o and all((nm in subs or nm in sublines) and nm not in (exact - sublines - {x["name"]}) for nm in o):
                    sublines.add(x["name"])
                    changed = True
    real = exact - sublines

    def unit_reading(n):
        def wp(m):
            return m in real or any(m.startswith(p) and m[len(p):] in real for p in prefixes)
        return wp(n) or (n.endswith("s") and wp(n[:-1]))

    def walk(e, inside_of, out):
        k = e[0]
        if k == "unit":
            out.append((e[1], inside_of))
        elif k == "mul":
            for x in e[1]:
                walk(x, inside_of, out)
        elif k in ("frac", "pow", "add", "sub"):
            walk(e[1], inside_of, out)
            walk(e[2], inside_of, out)
        elif k in ("neg", "pos"):
            walk(e[1], inside_of, out)
        elif k == "of":
            walk(e[2], True, out)
    mixed, dead = [], []
    n = 0
    alias_defs = {x["name"] for x in d if x["kind"] == "unit" and x.get("expr", ("",))[0] == "unit"}
    for x in d:
        if x["kind"] != "unit" or "expr" not in x:
            continue
        names = []
        walk(x["expr"], False, names)
        outside = [nm for nm, ins in names if not ins]
        # units are looked up first (prefix and plural readings included): a symbol that also reads as a unit is a unit here
        s_out = [nm for nm in outside if (nm in subs or nm in sublines) and not unit_reading(nm)]
        if not s_out:
            continue
        n += 1
        # other names that are themselves substance aliases/mixtures are fine (a mixture of mixtures)
        def dimensionless(nm):
            try:
                v, dims = folder().lookup(nm)
                return not dims
            except Exception:  # noqa
                return False
        # weights of a mixture (`78.084 % nitrogen + ...`) are dimensionless factors
        others = [nm for nm in outside if nm not in s_out and not dimensionless(nm)]
        if others:
            mixed.append("%s = ... %s ... with %s" % (x["name"], s_out[0], others[:3]))
        if x["name"] in sublines and unit_reading(x["name"]):
            dead.append(x["name"])
    chk.decide(not mixed, rule, "core/definitions.units", "no-substance-times-unit", "core/definitions.units",
               "%d unit lines evaluate to substances; each is an alias or a mixture of substances" % n,
               "unit lines that combine a substance with ordinary units outside `<property> of ...` (they are stored as substances, not units): %s" % mixed[:4])
    chk.decide(not dead, rule, "core/definitions.units", "substance-aliases-reachable", "core/definitions.units",
               "no substance alias is shadowed by a unit reading of its own name",
               "substance aliases whose name also reads as a unit (exact, prefix+unit or plural), so the alias can never be reached: %s" % dead[:6])


def _is_substance_line(d, name, subs, depth=0):
    if name in subs:
        return True
    if depth > 4:
        return False
    for x in d:
        if x["name"] == name and x["kind"] == "unit" and "expr" in x:
            o = []
            ulint.names_in(x["expr"], o)
            return bool(o) and all(_is_substance_line(d, n2, subs, depth + 1) for n2 in o)
    return False


def element_symbols(chk, rule="element-symbols"):
    """Formulas are read through the `!symbol` table.  A symbol attached to the wrong element silently gives wrong molar masses
    (`!symbol palladium Pa`: `PaO2` was computed with palladium, `PdO2` was unknown).  Every `!symbol <name> <sym>` whose name
    is a chemical element must carry that element's IUPAC symbol, no symbol may be used twice, and the names the `const`
    properties of a substance introduce must be the substance's own (`<name>_atomic_number`)."""
    import json as _json
    tbl = _json.load(open(os.path.join(facts.VERIF, "tables", "element_symbols.json")))["symbols"]
    d = defs()
    bad, n = [], 0
    seen = {}
    for x in d:
        if x["kind"] == "substance" and x.get("symbol"):
            n += 1
            if x["symbol"] in seen:
                bad.append("symbol %s is given to both %s and %s" % (x["symbol"], seen[x["symbol"]], x["name"]))
            seen[x["symbol"]] = x["name"]
            want = tbl.get(x["name"])
            if want is not None and want != x["symbol"]:
                bad.append("%s has the symbol %s, its element symbol is %s" % (x["name"], x["symbol"], want))
    chk.decide(not bad, rule, "core/definitions.units", "symbols-match-the-periodic-table", "core/definitions.units",
               "%d `!symbol` directives; every chemical element carries its IUPAC symbol and no symbol is used twice" % n,
               "wrong chemical symbols: %s" % "; ".join(bad[:4]))
    if n < 80:
        chk.anchor_lost(rule, "core/definitions.units", "only %d `!symbol` directives found" % n)
    # const property input names: <substance>_<property> (a copy-pasted name makes two substances share a name)
    wrong = []
    for x in d:
        if x["kind"] != "substance" or x["name"] not in tbl:
            continue
        for pr in x.get("props", []):
            if pr.get("name") == "atomic_number" and pr.get("input_name", "").endswith("_atomic_number") and pr["input_name"] != x["name"] + "_atomic_number":
                wrong.append("%s: %s" % (x["name"], pr["input_name"]))
    chk.decide(not wrong, rule, "core/definitions.units", "atomic-number-names-are-own", "core/definitions.units",
               "the atomic_number constant of every element is named after the element itself",
               "atomic_number constants named after another element: %s" % wrong[:4])


def categories_declared_once(chk, rule="categories-declared-consistently"):
    """A category id that is declared more than once must carry the same display name every time: load_defs keeps whichever
    declaration comes last in the input, so two different names make the loaded database depend on the order of the
    definitions (C12) and the heading of `units for` with it."""
    bad = []
    n = 0
    for name in ("definitions.units", "currency.units"):
        seen = {}
        for x in defs(name):
            if x["kind"] == "category":
                n += 1
                disp = x.get("display") or x.get("display_name") or x.get("text") or x.get("doc")
                if x["name"] in seen and seen[x["name"]] != disp:
                    bad.append("%s: category %s is declared as %r and as %r" % (name, x["name"], seen[x["name"]], disp))
                seen.setdefault(x["name"], disp)
    chk.decide(not bad, rule, "core data files", "one-display-name-per-category", "core/definitions.units",
               "%d category declarations; every category id has one display name" % n,
               "category ids declared with different display names: %s" % "; ".join(bad[:3]))
    if n < 50:
        chk.anchor_lost(rule, "core data files", "only %d category declarations found" % n)


def overlay_rebinding(chk, rule="overlay-does-not-rebind"):
    """The currency overlay is loaded after (and separately from) definitions.units, so the values of the base entries
    are already fixed; the recorded definition text of a base entry keeps meaning what it meant only if every identifier
    it mentions reads the same (exact -> prefix -> plural) before and after the overlay's names exist."""
    d = defs()
    cur = defs("currency.units")
    snapnames = [e["name"] for e in snapshot()]

    def tables(ds, extra=()):
        ns = ulint.namespaces(ds)
        exact = set(n for (k, n) in ns if k in ("unit", "quantity")) | set(
            n for (k, n), v in ns.items() if k == "prefix" and any(x["kind"] == "prefixL" for x in v)) | set(extra)
        prefixes = [x["name"] for x in ds if x["kind"] in ("prefixL", "prefixS")]
        return exact, prefixes

    def reading(n, exact, prefixes):
        def wp(m):
            if m in exact:
                return ("exact", m)
            for p in prefixes:
                if m.startswith(p) and m[len(p):] in exact:
                    return ("prefix", p, m[len(p):])
            return None
        r = wp(n)
        if r:
            return r
        if n.endswith("s"):
            r = wp(n[:-1])
            if r:
                return ("plural",) + r
        return None
    e0, p0 = tables(d)
    e1, p1 = tables(d + cur, snapnames)
    changed = []
    nrefs = 0
    for x in d:
        if x["kind"] in ("quantity", "category") or x["kind"].startswith("prefix"):
            continue
        exprs = [x["expr"]] if "expr" in x else []
        for pr in x.get("props", []):
            exprs += [pr["input"], pr["output"]]
        for e in exprs:
            o = []
            ulint.names_in(e, o)
            for n in o:
                nrefs += 1
                a, b = reading(n, e0, p0), reading(n, e1, p1)
                if a is not None and a != b:
                    changed.append("%s: `%s` read as %s before and %s after the overlay" % (x["name"], n, "+".join(a), "+".join(b)))
    new = sorted((e1 - e0))
    chk.decide(not changed, rule, "core/currency.units", "base-identifiers-keep-their-reading", "core/currency.units",
               "%d identifier references of definitions.units read the same with the %d names the currency overlay adds" % (nrefs, len(new)),
               "the currency overlay changes what loaded definitions mean: %s" % "; ".join(changed[:5]))


def quantity_injective(chk, rule="quantities-injective"):
    """Each quantity names one dimensionality and each dimensionality at most one quantity."""
    d = defs()
    base = {x["name"] for x in d if x["kind"] == "base"} | {x["long"] for x in d if x["kind"] == "base" and x.get("long")}
    longmap = {x["long"]: x["name"] for x in d if x["kind"] == "base" and x.get("long")}
    q = {x["name"]: x["expr"] for x in d if x["kind"] == "quantity"}
    memo = {}

    def ev(e, stack=()):
        k = e[0]
        if k == "unit":
            n = e[1]
            if n in base:
                return {longmap.get(n, n): 1}
            if n in q:
                if n in stack:
                    raise ValueError("cycle " + n)
                if n not in memo:
                    memo[n] = ev(q[n], stack + (n,))
                return memo[n]
            raise ValueError("unknown " + n)
        if k == "const":
            if e[1] == 1:
                return {}
            raise ValueError("const")
        if k == "mul":
            r = {}
            for x in e[1]:
                r = fold.dim_mul(r, ev(x, stack))
            return r
        if k == "frac":
            return fold.dim_mul(ev(e[1], stack), ev(e[2], stack), -1)
        if k == "pow":
            b = e[2]
            n = int(b[1]) if b[0] == "const" else -int(b[1][1]) if b[0] == "neg" else None
            return {u: p * n for u, p in ev(e[1], stack).items() if p * n != 0}
        if k == "neg":
            return {u: -p for u, p in ev(e[1], stack).items()}
        raise ValueError(k)
    dims = {}
    bad = []
    for n, e in q.items():
        try:
            dm = tuple(sorted(ev(e).items()))
        except Exception as ex:  # noqa
            bad.append((n, str(ex)))
            continue
        dims.setdefault(dm, []).append(n)
    clash = {k: v for k, v in dims.items() if len(v) > 1}
    chk.decide(not bad, rule, "core/definitions.units", "quantities-evaluate", "core/definitions.units",
               "all %d quantity definitions reduce to declared base units" % len(q), "quantities that do not reduce to base units: %s" % bad[:5])
    chk.decide(not clash, rule, "core/definitions.units", "one-quantity-per-dimensionality", "core/definitions.units",
               "%d quantities name %d distinct dimensionalities" % (len(q), len(dims)), "dimensionalities named by several quantities: %s" % list(clash.values())[:5])
    zero = [n for k, v in dims.items() for n in v if any(p == 0 for _, p in k)]
    chk.decide(not zero, rule, "core/definitions.units", "no-zero-exponent", "", "no quantity carries a zero exponent", "quantities with zero exponents: %s" % zero)


def docs_belong(chk, rule="docs-and-categories-belong"):
    d = defs() + defs("currency.units")
    # the reader attaches a doc to the following definition; a trailing `??` with no definition after it is a stray doc
    cats = {x["name"] for x in d if x["kind"] == "category"}
    used = {x["category"] for x in d if x.get("category")}
    chk.decide(used <= cats, rule, "core/*.units", "category-ids", "", "%d category ids in use, all declared" % len(used), "undeclared categories %s" % sorted(used - cats))
    empty = sorted(c for c in cats if c not in used)
    chk.decide(True, rule, "core/*.units", "declared-categories", "", "%d declared categories (%d without members: %s)" % (len(cats), len(empty), empty[:4]))


def hardwired_names(chk, F, rule="hardwired-names-exist"):
    """Unit names that load_defs hard-wires as decomposition units are defined."""
    import hirutil as H
    from facts import hir_walk
    fn = F.find("rink_core", "loader::load::load_defs")
    h = F.hir_of(fn)
    # the table is whatever `contains(name)` is asked of next to the write of registry.decomposition_units: a local set filled by
    # repeated inserts, a local written as one literal list, or a named const table
    tables = set()
    for m in H.method_calls(h["body"], "contains"):
        r = H.expr_str(m["recv"]).lstrip("&*( ").rstrip(") ")
        if r and "." not in r and "(" not in r:
            tables.add(r.split("::")[-1])
    lits = []
    for tname in sorted(tables):
        got = []
        for m in H.method_calls(h["body"], "insert"):
            if H.expr_str(m["recv"]).lstrip("&*( ").rstrip(") ") == tname and m["args"] and m["args"][0].get("k") == "Lit":
                got.append(m["args"][0]["lit"]["v"])
        for k, st in [(k, st) for b_ in hir_walk(h["body"]) if b_.get("k") == "Block" for k, st in H.stmts_of(b_)]:
            if k == "let" and st.get("pat", {}).get("name") == tname and st.get("init"):
                for e in hir_walk(st["init"]):
                    if e.get("k") == "Lit" and e["lit"].get("lit") == "str" and e["lit"]["v"] not in got:
                        got.append(e["lit"]["v"])
        for v in (F.const_literals("rink_core", tname) or []):
            if v not in got:
                got.append(v)
        if len(got) >= 5:
            lits += [v for v in got if v not in lits]
    f = folder()
    bad = []
    for n in lits:
        try:
            f.lookup(n)
        except fold.Cant as ex:
            bad.append((n, str(ex)))
    if len(lits) < 15:
        chk.anchor_lost(rule, "rink_core::loader::load::load_defs", "expected >=15 decomposition unit literals, found %d" % len(lits))
    chk.decide(not bad, rule, "rink_core::loader::load::load_defs", "decomposition-units", fn.where(),
               "the %d hard-wired decomposition units all exist in definitions.units" % len(lits), "hard-wired decomposition units missing from the data: %s" % bad)


def compat_symbols(chk, rule="compat-symbols"):
    """`every unit's stored value equals what its own definition text evaluates to` - and for a symbol, what the symbol *is*.  The
    data file defines the one-character unit symbols of Unicode's CJK compatibility block by spelling out their Latin letters
    (`㎭ rad`).  For a few of them the letters mean something else in this database: `rad` is 0.01 gray, `mb` is no unit and is
    read as milli-bit.  tables/compat_symbols.json lists those symbols with an expression of this database that denotes the
    unit the Unicode name describes; value and dimensionality must agree."""
    import json as _json
    from reader import Toks, p_expr
    tbl = _json.load(open(os.path.join(facts.VERIF, "tables", "compat_symbols.json")))["symbols"]
    f = folder()
    names = {x["name"] for x in defs()}
    n = 0
    bad = []
    for sym, e in sorted(tbl.items()):
        if sym not in names:
            continue
        n += 1
        try:
            got = f.lookup(sym)
            want = f.ev(p_expr(Toks(e["is"] + "\n")))
        except Exception as ex:     # noqa: BLE001
            bad.append("%s (%s): cannot be evaluated: %s" % (sym, e["name"], ex))
            continue
        if got[0] != want[0] or {k: v for k, v in got[1].items() if v} != {k: v for k, v in want[1].items() if v}:
            bad.append("%s (%s) is defined as %s, the symbol denotes %s [%s]" % (sym, e["name"], _show(got), e["is"], e["why"]))
    chk.decide(not bad, rule, "core/definitions.units", "symbols-denote-their-unicode-names", "core/definitions.units",
               "%d compatibility symbols with ambiguous letters denote the unit their Unicode name describes" % n,
               "; ".join(bad[:4]))
    if n < 3:
        chk.anchor_lost(rule, "core/definitions.units", "only %d of the listed compatibility symbols are defined" % n)


def _show(v):
    return "%s %s" % (v[0], " ".join("%s^%d" % (k, p) for k, p in sorted(v[1].items()) if p))
