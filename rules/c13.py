"""C13 Loading arbitrary definition text is safe and reports its problems.  DESIGN.md section 4, C13."""
import k1
from facts import AnchorLost
import loader_rules as L
import shared_rules


def run(chk, F):
    chk.explanation = (
        "K1 panic-edge reachability and discharge from the loader entry points (Context::load/load_definitions/load_currency/"
        "load_date_file/load_dates, gnu_units::parse_str/parse and its lexer, parse_datefile, Deserialize of DefEntry/ExprString): "
        "every Assert terminator and every call of a panic-capable callee in a reachable rink_core body is discharged by the rules "
        "D0-D11 or by a re-verified line of tables/panic_justified.json; cycle guard of Resolver::visit (temp mark before the walk, "
        "marked ids reported and not followed, mark removed afterwards); every evaluation error of load_defs reaches the error list "
        "and Context::load returns Err iff the list is non-empty, load_currency maps and propagates the JSON error; load-time "
        "temporaries are cleared on every path. Stack depth on long dependency chains and the cost of evaluation are runtime "
        "quantities and are not decided.")
    chk.assume("std/core/alloc callees not in the may-panic list do not panic; allocation failure is out of scope")
    chk.assume("one definitions file drives fewer than 2^31 iterations of any counter (D6)")
    res = chk.guard("panic-site", "K1", lambda: k1.run(chk, F, "C13"))
    if res:
        chk.guard("loop-leaves-on-eof", "parsers", lambda: k1.eof_exits(chk, F, res[1]))
        chk.guard("loop-progress", "parsers", lambda: k1.loop_progress(chk, F, res[1]))
        chk.guard("lexer-not-recursive", "gnu_units lexer", lambda: lexer_not_recursive(chk, F))
    chk.guard("cycle-guard", "Resolver::visit", lambda: L.visit_structure(chk, F))
    chk.guard("cycle-guard", "load_defs", lambda: L.alias_cycle_guard(chk, F))
    chk.guard("errors-reported", "load_defs", lambda: L.errors_reported(chk, F))
    chk.guard("temporaries-cleared", "load_defs", lambda: shared_rules.temporaries_cleared(chk, F))
    chk.guard("definitions-only-for-loaded-units", "load_defs", lambda: L.definitions_only_for_loaded(chk, F))


def lexer_not_recursive(chk, F):
    """The definitions lexer must not call itself: a self-call per skipped character (blank, line continuation) makes the
    stack depth a function of the longest run of such characters in the file.  (The query lexer does recurse per blank; its
    inputs are single lines of chat length, so that depth is bounded by the line length - see C04.)"""
    import cg
    G = cg.get(F)
    lx = [f for f in F.by_crate["rink_core"] if f.path == "<loader::gnu_units::TokenIterator<'a> as core::iter::traits::iterator::Iterator>::next"]
    if len(lx) != 1:
        raise AnchorLost("definitions lexer not found")
    fn = lx[0]
    reach = G.reachable([F.fns[b] for b in G.edges.get(fn.id, ()) if b in F.fns])
    rec = fn.id in reach
    sites = [fn.where(bb) for bb, t in fn.calls() if t.get("callee", {}).get("id") == fn.id]
    chk.decide(not rec, "lexer-not-recursive", "rink_core::loader::gnu_units::TokenIterator::next", "no-self-call", sites[0] if sites else fn.where(),
               "the definitions lexer skips blanks and continuations iteratively",
               "the definitions lexer calls itself (%s): one stack frame per skipped character - a long run of blanks or line continuations in a "
               "definitions file overflows the stack" % (", ".join(sites) or "through other functions"))
