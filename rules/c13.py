"""C13 Loading arbitrary definition text is safe and reports its problems.  DESIGN.md section 4, C13."""
import k1
import loader_rules as L
import shared_rules


def run(chk, F):
    chk.explanation = (
        "K1 panic-edge reachability and discharge from the loader entry points (Context::load/load_definitions/load_currency/"
        "load_date_file/load_dates, gnu_units::parse_str/parse and its lexer, parse_datefile, Deserialize of DefEntry/ExprString): "
        "every Assert terminator and every call of a panic-capable callee in a reachable rink_core body is discharged by the rules "
        "D0-D11 or by a re-verified line of tables/panic_justified.json; cycle guard of Resolver::visit (temp mark before the walk, "
        "marked ids reported and not followed, mark removed afterwards); every evaluation error of load_defs reaches the error list "
        "and Context::load returns Err iff the list is non-empty, load_currency maps and propagates the JSON error; load-time "
        "temporaries are cleared on every path. Stack depth on long dependency chains and the cost of evaluation are runtime "
        "quantities and are not decided.")
    chk.assume("std/core/alloc callees not in the may-panic list do not panic; allocation failure is out of scope")
    chk.assume("one definitions file drives fewer than 2^31 iterations of any counter (D6)")
    res = chk.guard("panic-site", "K1", lambda: k1.run(chk, F, "C13"))
    if res:
        chk.guard("loop-leaves-on-eof", "parsers", lambda: k1.eof_exits(chk, F, res[1]))
        chk.guard("loop-progress", "parsers", lambda: k1.loop_progress(chk, F, res[1]))
    chk.guard("cycle-guard", "Resolver::visit", lambda: L.visit_structure(chk, F))
    chk.guard("errors-reported", "load_defs", lambda: L.errors_reported(chk, F))
    chk.guard("temporaries-cleared", "load_defs", lambda: shared_rules.temporaries_cleared(chk, F))
    chk.guard("definitions-only-for-loaded-units", "load_defs", lambda: L.definitions_only_for_loaded(chk, F))
