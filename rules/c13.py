"""C13 Loading arbitrary definition text is safe and reports its problems.  DESIGN.md section 4, C13."""
import k1
from facts import AnchorLost
import loader_rules as L
import shared_rules


def run(chk, F):
    chk.explanation = (
        "K1 panic-edge reachability and discharge from the loader entry points (Context::load/load_definitions/load_currency/"
        "load_date_file/load_dates, gnu_units::parse_str/parse and its lexer, parse_datefile, Deserialize of DefEntry/ExprString): "
        "every Assert terminator and every call of a panic-capable callee in a reachable rink_core body is discharged by the rules "
        "D0-D11 or by a re-verified line of tables/panic_justified.json; cycle guard of Resolver::visit (temp mark before the walk, "
        "marked ids reported and not followed, mark removed afterwards); every evaluation error of load_defs reaches the error list "
        "and Context::load returns Err iff the list is non-empty, load_currency maps and propagates the JSON error; load-time "
        "temporaries are cleared on every path. Stack depth on long dependency chains and the cost of evaluation are runtime "
        "quantities and are not decided.")
    chk.assume("std/core/alloc callees not in the may-panic list do not panic; allocation failure is out of scope")
    chk.assume("one definitions file drives fewer than 2^31 iterations of any counter (D6)")
    res = chk.guard("panic-site", "K1", lambda: k1.run(chk, F, "C13"))
    if res:
        chk.guard("loop-leaves-on-eof", "parsers", lambda: k1.eof_exits(chk, F, res[1]))
        chk.guard("loop-progress", "parsers", lambda: k1.loop_progress(chk, F, res[1]))
        chk.guard("lexer-not-recursive", "gnu_units lexer", lambda: lexer_not_recursive(chk, F))
    chk.guard("cycle-guard", "Resolver::visit", lambda: L.visit_structure(chk, F))
    chk.guard("cycle-guard", "load_defs", lambda: L.alias_cycle_guard(chk, F))
    chk.guard("cycle-guard", "driver", lambda: L.driver_progress(chk, F))
    chk.guard("errors-reported", "load_defs", lambda: L.errors_reported(chk, F))
    chk.guard("errors-reported", "load_defs inserts", lambda: L.input_inserts_checked(chk, F))
    chk.guard("temporaries-cleared", "load_defs", lambda: shared_rules.temporaries_cleared(chk, F))
    chk.guard("definitions-only-for-loaded-units", "load_defs", lambda: L.definitions_only_for_loaded(chk, F))
    chk.guard("syntax-problems-returned", "gnu_units::parse", lambda: syntax_problems(chk, F))


def syntax_problems(chk, F):
    """`reports every problem as an error message`: a problem with the text of a definitions file must end up in what
    Context::load returns, not on a terminal.  (a) nothing reachable from the definitions parser or the loader prints
    (std::io::_print/_eprint): a printed problem is invisible to every caller of the library (web, IRC, sandbox child);
    (b) in gnu_units::parse every catch-all arm of a match over the next token (the arm taken by text that fits no rule) calls
    the recorder - a function of the module that pushes a DefEntry holding Def::Error, which load_defs turns into an error
    line - or only skips a token inside a recovery loop."""
    import cg
    import hirutil as H
    from facts import hir_walk
    CORE = "rink_core"
    G = cg.get(F)
    roots = [f for f in F.by_crate[CORE] if f.path in ("loader::gnu_units::parse", "loader::gnu_units::parse_str", "loader::gnu_units::parse_expr")
             or f.path.startswith("loader::load::load_defs") or f.path == "loader::context::Context::load"]
    if len(roots) < 3:
        raise AnchorLost("definitions parser / loader entry points not found (%d)" % len(roots))
    reach = G.reachable(roots)
    hits = []
    for fid in reach:
        fn = F.fns[fid]
        if fn.crate != CORE:
            continue
        for bb, t in fn.calls():
            if "callee" in t and t["callee"]["path"].endswith(("io::stdio::_print", "io::stdio::_eprint")):
                hits.append((fn, bb))
    for fn, bb in hits:
        chk.finding("syntax-problems-returned", "rink_core::" + fn.path, "prints-a-problem", fn.where(bb),
                    "a problem found while reading definitions is printed with print!/eprintln! instead of being returned: Context::load "
                    "answers Ok(()) for text such as `!bogus directive` or `water { density 5 m }`", path=G.path_to(reach, fn.id))
    if not hits:
        chk.ok("syntax-problems-returned", "rink_core::loader", "nothing-printed", "", "no print!/eprintln! is reachable from the definitions parser and loader (%d functions)" % len(reach))
    # (b) the recorder and the catch-all arms
    recorders = []
    for f in F.by_crate[CORE]:
        if f.path.startswith("loader::gnu_units::") and "{closure" not in f.path:
            for i, j, st in f.stmts():
                rv = st.get("rv", {})
                if rv.get("k") == "agg" and str(rv.get("adt", "")).endswith("Def") and rv.get("variant") == "Error":
                    recorders.append(f)
                    break
    parse = F.find(CORE, "loader::gnu_units::parse")
    rec_names = {r.path for r in recorders if r.id != parse.id}
    h = F.hir_of(parse)
    n = 0
    for m in hir_walk(h["body"]):
        if m.get("k") != "Match" or m.get("src") != "Normal":
            continue
        sc = H.expr_str(m["scrut"], 200)
        if "iter.next()" not in sc and "iter.peek()" not in sc:
            continue
        for a in m["arms"]:
            pk = a["pat"].get("pk")
            if not (pk == "wild" or (pk == "bind" and not a["pat"].get("sub"))):
                continue
            n += 1
            body = a["body"]
            calls = [c for c in hir_walk(body) if c.get("k") == "Call" and c["f"].get("k") == "Path" and ("loader::" + str(c["f"]["r"].get("path", "")).split("loader::")[-1]) in rec_names]
            direct = [x for x in hir_walk(body) if x.get("k") == "Struct" and "Def::Error" in H.expr_str(x, 60)]
            skip_only = H.expr_str(body, 40).replace(" ", "") in ("{iter.next()}", "{iter.next();}", "iter.next()")
            chk.decide(bool(calls) or bool(direct) or skip_only, "syntax-problems-returned", "rink_core::loader::gnu_units::parse",
                       "catch-all-arm:%s#%d" % (H.pat_str(a["pat"]), n), "%s:%d" % (parse.file, a["line"]),
                       "records the problem" if not skip_only else "skips one token inside a recovery loop",
                       "the arm for a token that fits no rule neither records the problem nor skips a token in a recovery loop: the text is dropped silently")
    if n < 8:
        raise AnchorLost("gnu_units::parse: only %d catch-all token arms found (expected >= 8)" % n)


def lexer_not_recursive(chk, F):
    """The definitions lexer must not call itself: a self-call per skipped character (blank, line continuation) makes the
    stack depth a function of the longest run of such characters in the file.  (The query lexer does recurse per blank; its
    inputs are single lines of chat length, so that depth is bounded by the line length - see C04.)"""
    import cg
    G = cg.get(F)
    lx = [f for f in F.by_crate["rink_core"] if f.path == "<loader::gnu_units::TokenIterator<'a> as core::iter::traits::iterator::Iterator>::next"]
    if len(lx) != 1:
        raise AnchorLost("definitions lexer not found")
    fn = lx[0]
    reach = G.reachable([F.fns[b] for b in G.edges.get(fn.id, ()) if b in F.fns])
    rec = fn.id in reach
    sites = [fn.where(bb) for bb, t in fn.calls() if t.get("callee", {}).get("id") == fn.id]
    chk.decide(not rec, "lexer-not-recursive", "rink_core::loader::gnu_units::TokenIterator::next", "no-self-call", sites[0] if sites else fn.where(),
               "the definitions lexer skips blanks and continuations iteratively",
               "the definitions lexer calls itself (%s): one stack frame per skipped character - a long run of blanks or line continuations in a "
               "definitions file overflows the stack" % (", ".join(sites) or "through other functions"))
