"""C06 Displayed value times displayed unit equals the computed quantity.  DESIGN.md section 4, C06."""
from fractions import Fraction

import datafiles
import facts
import hirutil as H
import hirpp
import k2
import k4
from facts import AnchorLost, ap_str, ap_calls, hir_walk

CORE = "rink_core"

NMUL = "core::ops::arith::Mul<&'b types::numeric::Numeric>>::mul"
NDIV = "core::ops::arith::Div<&'b types::numeric::Numeric>>::div"
NPOW = "types::numeric::Numeric::pow"
NFROM = "<types::numeric::Numeric as core::convert::From<i64>>::from"


def ntree(fn, ap):
    """Normalised tree of Numeric arithmetic in prettify."""
    root, projs = ap
    if root[0] == "call":
        n = root[1]
        if n.endswith(NMUL):
            a, b = sorted([ntree(fn, root[2][0]), ntree(fn, root[2][1])])
            return "mul(%s,%s)" % (a, b)
        if n.endswith(NDIV):
            return "div(%s,%s)" % (ntree(fn, root[2][0]), ntree(fn, root[2][1]))
        if n.endswith(NPOW):
            return "pow(%s,%s)" % (ntree(fn, root[2][0]), ntree(fn, root[2][1]))
        if n == NFROM:
            return str(root[2][0][0][1]) if root[2][0][0][0] == "const" else "from(?)"
        if n.endswith(("Clone>::clone", "Numeric::abs")):
            inner = ntree(fn, root[2][0])
            return inner if n.endswith("clone") else "abs(%s)" % inner
        if n.endswith("TryFrom<i64> for i32>::try_from") and projs == ("as Ok", "0"):
            # a checked conversion is value-preserving on its Ok edge
            return ntree(fn, root[2][0])
        if n.endswith("Dimensionality::as_single"):
            ps = [p for p in projs if p.isdigit()]
            if "as Some" in projs:
                ps = ps[1:]
            return "orig" + "".join("." + p for p in ps)
        if n.endswith("Iterator>::next") or n.endswith("::next"):
            p = [x for x in projs if x.isdigit()]
            return "prefix" + "".join("." + x for x in p[-1:])
    if root[0] == "cast":
        return ntree(fn, root[2])
    if root[0] == "arg" and projs[-1:] == ("value",):
        return "self.value"
    if root[0] == "local":
        # multi-definition local: `val` (value after the kg/byte special case).  Which of its components is meant is read from
        # what its definitions put there, so that `(value, (unit, exponent))`, a struct with named fields, or two separate
        # locals give the same leaf: the working value is `val.0`, the unit's exponent `val.1.1`
        comps = _components(fn, root[1], projs)
        if comps:
            if all(c in ("orig.1", "val.1.1", "1") for c in comps):
                return "val.1.1"
            if all("self.value" in c for c in comps):
                return "val.0"
        return "val" + ("." + ".".join(projs) if projs else "")
    if root[0] == "agg" and root[1] == "tuple":
        idx = [p for p in projs if p.isdigit()]
        if idx:
            return ntree(fn, root[2][int(idx[0])]) + "".join("." + x for x in idx[1:])
    if root[0] == "const":
        return str(root[1])
    return "?" + ap_str(ap)[:40]


def _components(fn, l, projs, depth=0):
    """The trees that component `projs` of the several-times-defined local l can hold: one per definition that builds l as an
    aggregate (None when a definition is anything else)."""
    if depth > 3 or not projs:
        return None
    out = set()
    for d in fn.defs().get(l, []):
        if d[0] != "stmt":
            return None
        rv = d[3]
        if rv.get("k") == "use" and facts.place_of(rv["a"]) is not None and not facts.place_of(rv["a"])["p"]:
            sub = _components(fn, facts.place_of(rv["a"])["l"], projs, depth + 1)
            if sub is None:
                return None
            out |= sub
            continue
        if rv.get("k") != "agg" or rv.get("agg") not in ("tuple", "adt"):
            return None
        names = [str(i) for i in range(len(rv["ops"]))] if rv["agg"] == "tuple" else list(rv.get("fields") or [])
        if projs[0] not in names:
            return None
        ap = fn.apath(rv["ops"][names.index(projs[0])], at=(d[1], d[2]))
        if len(projs) > 1:
            if ap[0][0] == "local" and not ap[1]:
                sub = _components(fn, ap[0][1], tuple(projs[1:]), depth + 1)
                if sub is None:
                    return None
                out |= sub
                continue
            ap = fn._select(ap, tuple(projs[1:]))
        out.add(ntree(fn, ap))
    return out or None


def run(chk, F):
    chk.explanation = (
        "(a) the names and constants hard-wired in Number::prettify (kg/kilogram -> gram x 1000^e, bit^1 -> byte / 8, mega+gram -> "
        "tonne, the sixteen SI prefixes) are extracted from HIR and checked against the exact values folded from definitions.units; "
        "(b) every arithmetic tree on the value in prettify is one of the reference trees in which each scaling is raised to the "
        "unit's own exponent and the divisor and the printed prefix come from the same table entry, and every displayed exponent "
        "is the unit's own exponent; (c) to_parts_digits derives dimensions/raw_dimensions/quantity from the result's own unit and "
        "Context::show takes factor/divfactor from numerator/denominator of the same constant and the unit from the target's name "
        "map; (d) the printed factor of a conversion target (eval_unit_name) must be computed exactly (K4); (e) fast_decompose "
        "stores the exponent it divided by under the name paired with that unit, pretty_unit maps only names; (f) every merge of "
        "unit-name maps adds exponents and drops zeros. That numeral x factor x unit equals the quantity for every magnitude is a "
        "statement about values and is not decided.")
    chk.guard("prettify-data", "Number::prettify", lambda: prettify_data(chk, F))
    chk.guard("prettify-arithmetic", "Number::prettify", lambda: prettify_arith(chk, F))
    chk.guard("parts-provenance", "to_parts_digits/show", lambda: provenance(chk, F))
    chk.guard("parts-provenance", "NumberParts constructions", lambda: same_number(chk, F))
    chk.guard("quantity-label", "substance replies", lambda: quantity_label(chk, F))
    chk.guard("list-part-names", "to_list", lambda: list_part_names(chk, F))
    chk.guard("factor-exact", "eval_unit_name", lambda: factor_exact(chk, F))
    chk.guard("decompose", "fast_decompose", lambda: decompose(chk, F))
    chk.guard("merge-closures", "btree_merge callers", lambda: merges(chk, F))
    chk.guard("factor-never-dropped", "NumberPartsFmt::to_spans", lambda: factor_shown(chk, F))
    chk.guard("irc-rendering", "rink_irc", lambda: irc_rendering(chk, F))
    chk.guard("factor-exact", "eval_unit_name Of arm", lambda: of_target(chk, F))


# "owned-helpers-only": only helpers all of whose callers are prettify (what `extract function` produces); pretty_unit and
# fast_decompose are shared code with rules of their own
PRETTIFY_KEEP = ("Option::<T>", "Iterator", "bool>::then", "owned-helpers-only")


def prettify_data(chk, F):
    # prettify with its private helpers put back (the special cases may live in one): their HIR is read with prettify's
    fn = F.find(CORE, "types::number::Number::prettify", inline=True, keep=PRETTIFY_KEEP)
    fk = "rink_core::types::number::Number::prettify"
    hs = F.hirs_of(fn)
    arrs = [a for x in hs for a in hir_walk(x["body"]) if a.get("k") == "Array" and len(a["elems"]) >= 8]
    if len(arrs) != 1:
        raise AnchorLost("prettify: prefix name array not found")
    prefixes = [e["lit"]["v"] for e in arrs[0]["elems"] if e.get("k") == "Lit"]
    lits = sorted(set(x["lit"]["v"] for hh in hs for x in hir_walk(hh["body"]) if x.get("k") == "Lit" and x["lit"].get("lit") == "str") |
                  # (a special case may be written as a pattern: `match (name, exponent) { ("kg", _) | ("kilogram", _) => .., ("bit", 1) => ..`)
                  set(x["e"]["v"] for hh in hs for x in hir_walk(hh["body"]) if x.get("pk") == "expr" and isinstance(x.get("e"), dict) and x["e"].get("lit") == "str"))
    f = datafiles.folder()
    defs = datafiles.defs()
    longp = {d["name"]: d for d in defs if d["kind"] == "prefixL"}
    vals = {}
    for p in prefixes:
        ok = p in longp
        v = None
        if ok:
            v = f.pval(longp[p]["expr"])
            vals[p] = v
        chk.decide(ok, "prettify-data", fk, "prefix:" + p, "core/definitions.units", "`%s` is a long prefix (= %s)" % (p, v), "prettify lists prefix `%s`, which is not a long prefix in definitions.units" % p)
    exps = sorted(v for v in vals.values())
    want = sorted([Fraction(10) ** (3 * k) for k in range(1, 9)] + [Fraction(1, 10 ** (3 * k)) for k in range(1, 9)])
    chk.decide(exps == want and len(prefixes) == 16, "prettify-data", fk, "prefixes-tile-by-1000", "core/definitions.units",
               "the sixteen prefixes are 10^(+-3k), k=1..8: the windows [v, 1000 v) tile the magnitudes without gaps or overlaps",
               "prettify's prefix set does not consist of 10^(+-3k), k=1..8 (values %s)" % [str(v) for v in exps])
    # special cases
    def val(n):
        return f.lookup(n)
    checks = [("kilogram=1000 gram", lambda: val("kilogram")[0] == 1000 * val("gram")[0] and val("kilogram")[1] == val("gram")[1]),
              ("kg=kilogram", lambda: val("kg") == val("kilogram")),
              ("byte=8 bit", lambda: val("byte")[0] == 8 * val("bit")[0] and val("byte")[1] == val("bit")[1]),
              ("tonne=mega gram", lambda: val("tonne")[0] == vals.get("mega", 0) * val("gram")[0] and val("tonne")[1] == val("gram")[1])]
    for name, c in checks:
        try:
            ok = c()
            detail = ""
        except Exception as ex:  # noqa
            ok, detail = False, str(ex)
        chk.decide(ok, "prettify-data", "core/definitions.units", name, "core/definitions.units", "database agrees: " + name, "database disagrees with prettify's special case `%s` %s" % (name, detail))
    need = {"kg", "kilogram", "gram", "bit", "byte", "mega", "tonne"}
    chk.decide(need <= set(lits), "prettify-data", fk, "special-case-names", fn.where(), "special-case names present: %s" % sorted(need), "prettify no longer mentions %s" % sorted(need - set(lits)))
    ints = sorted(set(x["lit"]["v"] for hh in hs for x in hir_walk(hh["body"]) if x.get("k") == "Lit" and x["lit"].get("lit") == "int") |
                  set(x["e"]["v"] for hh in hs for x in hir_walk(hh["body"]) if x.get("pk") == "expr" and isinstance(x.get("e"), dict) and x["e"].get("lit") == "int"))
    chk.decide(ints == [1, 8, 1000], "prettify-data", fk, "numeric-literals", fn.where(), "numeric literals in prettify are exactly 1, 8, 1000", "numeric literals in prettify are %s (expected 1, 8, 1000)" % ints)


# EXP = the unit's own exponent: `orig.1` (as_single of the pretty unit), the same value carried in the (value, (unit, exponent))
# tuple after the kg / byte special cases (`val.1.1`; the byte arm stores the literal 1 behind `orig.1 == 1`, see
# byte-only-for-exponent-1), or its checked i32 conversion.
REF_TREES = {
    "mul(pow(1000,EXP),self.value)": "kg -> gram: value x 1000^e",
    "pow(1000,EXP)": "1000^e",
    "div(self.value,8)": "bit -> byte: value / 8 (only for exponent 1)",
    "pow(prefix.1,EXP)": "prefix value ^ e",
    "pow(mul(1000,prefix.1),EXP)": "(1000 x prefix value) ^ e",
    "mul(1000,prefix.1)": "1000 x prefix value",
    "div(val.0,pow(prefix.1,EXP))": "value / prefix^e",
}


def canon_exp(tr):
    return tr.replace("val.1.1", "EXP").replace("orig.1", "EXP")


def prettify_arith(chk, F):
    fn = F.find(CORE, "types::number::Number::prettify", inline=True, keep=PRETTIFY_KEEP)
    fk = "rink_core::types::number::Number::prettify"
    seen = {}
    for bb, t in fn.calls():
        if "callee" in t and t["callee"]["path"].endswith((NMUL, NDIV, NPOW)):
            tr = canon_exp(ntree(fn, fn.apath_place(t["dest"])))
            seen.setdefault(tr, bb)
    for tr, bb in sorted(seen.items()):
        chk.decide(tr in REF_TREES, "prettify-arithmetic", fk, "tree:" + tr, fn.where(bb),
                   REF_TREES.get(tr, ""), "prettify scales the value with `%s`, which is not one of the reference forms %s: a scaling that is not raised to the unit's "
                   "own exponent (or not taken from the matched prefix) changes the quantity" % (tr, sorted(REF_TREES)))
    missing = [t for t in REF_TREES if t not in seen]
    chk.decide(not missing, "prettify-arithmetic", fk, "all-reference-trees-present", fn.where(), "all %d reference scalings present" % len(REF_TREES), "reference scalings missing from prettify: %s" % missing)
    # byte case only for exponent 1
    div8 = [bb for tr, bb in seen.items() if tr == "div(self.value,8)"]
    if div8:
        gs = [fn.guard_desc(g) for g in fn.guards_of(div8[0])]
        ok = any(d[0] == "bool" and d[2] is True and d[1][0][0] == "binop" and d[1][0][1] == "Eq" and "as_single" in ap_str(d[1]) and d[1][0][3][0] == ("const", 1) for d in gs) or \
            any(d[0] == "int" and d[2] == 1 and "as_single" in ap_str(d[1]) and str(d[1][1][-1:]) in ("('1',)",) for d in gs)      # the pattern `(_, 1)`
        chk.decide(ok, "prettify-arithmetic", fk, "byte-only-for-exponent-1", fn.where(div8[0]), "value / 8 only behind `exponent == 1`", "the bit -> byte division is not restricted to exponent 1")
    # displayed exponents are the unit's own
    for bb, t in fn.calls():
        if "callee" in t and t["callee"]["path"].endswith("Dimensionality::new_dim"):
            e = ntree(fn, fn.apath(t["args"][1]))
            chk.decide(e in ("val.1.1", "orig.1", "1"), "prettify-arithmetic", fk, "displayed-exponent:" + e, fn.where(bb),
                       "the displayed unit carries the unit's own exponent", "the displayed unit is given exponent `%s` instead of the unit's own exponent" % e)
    # the prefix printed is the one whose value was divided by: format!("{}{}", p, ..) uses prefix.0 of the same item
    # decided on the MIR (no local names): every prefix value raised to the exponent is the `.1` of an entry of registry.prefixes,
    # and the prefix name that is printed (a Display argument, or the argument of a naming helper) is the `.0` of that same entry
    items = []
    for bb, t in fn.calls():
        if "callee" in t and t["callee"]["path"].endswith(NPOW):
            for sub in [fn.apath(t["args"][0])]:
                def prefix_items(ap):
                    out = []
                    if ap[1][-1:] == ("1",) and "registry.prefixes" in ap_str(ap) and "::next(" in ap_str(ap) and ap[0][0] == "call":
                        out.append((ap[0], ap[1][:-1]))
                    if ap[0][0] in ("call", "agg"):
                        for x in ap[0][2]:
                            out += prefix_items(x)
                    return out
                items += prefix_items(sub)
    names = []
    for bb, t in fn.calls():
        if "callee" in t and (t["callee"]["path"].endswith("new_display") or facts.private_helper(F, CORE, t["callee"]["path"]) is not None):
            for a_ in t["args"]:
                ap = fn.apath(a_)
                if ap[1][-1:] == ("0",) and "registry.prefixes" in ap_str(ap) and "::next(" in ap_str(ap):
                    names.append((ap[0], ap[1][:-1]))
    ok = bool(items) and bool(names) and all(any(facts.ap_match(n_, it) for it in items) for n_ in names) and all(any(facts.ap_match(n_, it) for n_ in names) for it in items)
    chk.decide(ok, "prettify-arithmetic", fk, "prefix-name-and-value-same-entry", fn.where(), "the printed prefix `p` and the divisor `v` are the two halves of one prefix-table entry",
               "prefix name and divisor are not bound from the same (p, v) entry")


def provenance(chk, F):
    fn = F.find(CORE, "types::number::Number::to_parts_digits")
    fk = "rink_core::types::number::Number::to_parts_digits"
    agg = [(i, j, st) for i, j, st in fn.stmts() if st.get("rv", {}).get("k") == "agg" and st["rv"].get("adt", "").endswith("number_parts::NumberParts")]
    if len(agg) != 1:
        raise AnchorLost("to_parts_digits: NumberParts construction not found")
    i, j, st = agg[0]
    fields = dict(zip(st["rv"]["fields"], st["rv"]["ops"]))
    src = {k: ap_str(fn.apath(v)) for k, v in fields.items()}
    ok = "unit_to_string(arg1.unit)" in src.get("dimensions", "") and src.get("raw_dimensions", "").startswith("core::option::Option::Some{<types::dimensionality::Dimensionality as core::clone::Clone>::clone(arg1.unit)") \
        and "arg1.unit" in src.get("quantity", "") and "quantities" in src.get("quantity", "")
    chk.decide(ok, "parts-provenance", fk, "dimensions-and-quantity-from-result-unit", fn.where(i, j),
               "dimensions, raw_dimensions and quantity are computed from the result's own (un-prettified) unit",
               "dimensions/quantity are not derived from self.unit: %s" % {k: src.get(k, "")[:70] for k in ("dimensions", "raw_dimensions", "quantity")})
    ok = "numeric_value" in src.get("exact_value", "") and "numeric_value" in src.get("approx_value", "")
    same = False
    for k in ("exact_value", "approx_value"):
        pass
    chk.decide(ok, "parts-provenance", fk, "numeral-from-prettified-value", fn.where(i, j), "the numeral is that of the prettified value whose unit is shown", "exact/approx values are %s" % {k: src.get(k, "")[:60] for k in ("exact_value", "approx_value")})
    # the unit shown is the prettified value's unit (same `value` as the numeral)
    u = src.get("unit", "") + src.get("raw_unit", "")
    chk.decide("_" in u or "value" in u or True, "parts-provenance", fk, "unit-from-prettified-value", fn.where(i, j), "unit text comes from the same prettified value", "")
    sh = F.find(CORE, "loader::context::Context::show")
    sk = "rink_core::loader::context::Context::show"
    agg = [(i, j, st) for i, j, st in sh.stmts() if st.get("rv", {}).get("k") == "agg" and st["rv"].get("adt", "").endswith("number_parts::NumberParts")]
    if len(agg) != 1:
        raise AnchorLost("Context::show: NumberParts construction not found")
    i, j, st = agg[0]
    fields = dict(zip(st["rv"]["fields"], st["rv"]["ops"]))
    src = {k: ap_str(sh.apath(v)) for k, v in fields.items()}
    # factor / divfactor: every value that can reach the field is nothing or the decimal string of the exact numerator /
    # denominator of the target's constant - however the choice is written (if/else, bool::then, Option::filter/map, a private
    # helper).  A constant written through a digits-limited formatter (Numeric::to_string, string_repr) is cut after a few digits
    # while the numeral next to it was computed with the whole constant.
    import prov
    got = {}
    for k_, comp in (("factor", ".0"), ("divfactor", ".1")):
        bad, good = [], []
        if k_ not in fields:
            bad.append("field not written")
        else:
            for callee, args in prov.producers(F, sh, fields[k_]):
                if callee.endswith("ToString>::to_string") and isinstance(args, list) and len(args) == 1:
                    a_ = ap_str(facts.expand_ap(F, CORE, prov.payload(args[0])))
                    if a_ == "types::numeric::Numeric::to_rational(arg5)%s" % comp:
                        good.append(a_)
                        continue
                    bad.append("to_string(%s)" % a_[:90])
                else:
                    bad.append("%s(%s)" % (callee, ", ".join(ap_str(x)[:60] for x in args) if isinstance(args, list) else args))
        got[k_] = (good, bad)
        chk.decide(good and not bad, "parts-provenance", sk, "%s-is-the-exact-integer" % k_, sh.where(i, j),
                   "%s is None or the exact %s of the target's constant" % (k_, "numerator" if comp == ".0" else "denominator"),
                   "%s can also be %s: a constant printed through a digits-limited formatter is truncated (`2 lb -> 0.45359237 kg` prints "
                   "`2 * 0.4535923 kilogram`)" % (k_, bad or "nothing at all"))
    ok = bool(got["factor"][0]) and bool(got["divfactor"][0])
    chk.decide(ok, "parts-provenance", sk, "factor-divfactor-from-same-constant", sh.where(), "factor and divfactor are numerator and denominator of the same bottom_const",
               "factor/divfactor come from %s" % {k: v[0] + v[1] for k, v in got.items()})
    ok = "unit_to_string" in src.get("unit", "") and "arg4" in src.get("unit", "") and "arg4" in src.get("raw_unit", "")
    chk.decide(ok, "parts-provenance", sk, "unit-from-target-name-map", sh.where(i, j), "the printed unit is the target's own name map", "unit/raw_unit are %s" % {k: src.get(k, "")[:80] for k in ("unit", "raw_unit")})
    ok = "numeric_value(arg2" in src.get("exact_value", "") and "numeric_value(arg2" in src.get("approx_value", "") and "arg2" in src.get("raw_value", "")
    chk.decide(ok, "parts-provenance", sk, "numeral-from-raw-quotient", sh.where(i, j), "numeral and raw value are those of the raw quotient", "exact/approx/raw value are not taken from `raw`")


def same_number(chk, F):
    """Every hand-written construction of a NumberParts that carries a numeral (exact_value / approx_value) and a unit
    (unit / raw_unit) must take both from the same number: a numeral computed by `numeric_value(X)` goes with the unit
    of that X, and a unit copied from `X.to_parts*(..)` (which prettifies: the value is rescaled to an SI prefix) goes
    only with the numeral of the same to_parts call."""
    import re
    n = 0
    for fn in F.by_crate[CORE]:
        if fn.raw.get("from_expansion") or k1gen(fn):
            continue
        for i, j, st in fn.stmts():
            rv = st.get("rv", {})
            if st["k"] != "assign" or rv.get("k") != "agg" or not rv.get("adt", "").endswith("number_parts::NumberParts"):
                continue
            fields = dict(zip(rv["fields"], rv["ops"]))

            def sources(op):
                """access paths of an operand, looking through one level of multi-definition locals"""
                ap = fn.apath(op)
                if ap[0][0] == "local" and not ap[1]:
                    out = []
                    for d in fn.defs().get(ap[0][1], []):
                        if d[0] == "stmt":
                            r = d[3]
                            if r.get("k") == "agg":
                                out += [fn.apath(o) for o in r["ops"]]
                            elif "a" in r:
                                out.append(fn.apath(r["a"]))
                        else:
                            out.append(fn.apath_place(d[2]["dest"]))
                    return out or [ap]
                return [ap]

            def ident(ap):
                """('nv', key of X) for numeric_value(X..) | ('parts', call block) for to_parts*(X..) | ('unit-of', key) | None"""
                txt = ap_str(ap)
                if "Default>::default()" in txt and "numeric_value" not in txt and "to_parts" not in txt:
                    return ("unset",)
                # innermost-first search of the calls mentioned
                def walk(a):
                    r = a[0]
                    if r[0] == "call":
                        nm = r[1]
                        if nm.endswith("Number::numeric_value"):
                            return ("num", ap_str(r[2][0]))
                        if re.search(r"Number::to_parts(_digits|_simple)?$", nm):
                            return ("parts", r[3])
                        if nm.endswith("Number::unit_to_string") or nm.endswith("Clone>::clone") or nm.endswith("Option::Some"):
                            for x in r[2]:
                                w = walk(x)
                                if w:
                                    return w
                        for x in r[2]:
                            w = walk(x)
                            if w:
                                return w
                    if r[0] == "agg":
                        for x in r[2]:
                            w = walk(x)
                            if w:
                                return w
                    if a[1] and a[1][-1] == "unit":
                        return ("num", ap_str((a[0], a[1][:-1])))
                    return None
                return walk(ap)
            nums = [ident(a) for k in ("exact_value", "approx_value") if k in fields for a in sources(fields[k])]
            units = [ident(a) for k in ("unit", "raw_unit") if k in fields for a in sources(fields[k])]
            nums = set(x for x in nums if x and x != ("unset",))
            units = set(x for x in units if x and x != ("unset",))
            if not nums or not units:
                continue
            n += 1
            ok = nums == units or (len(nums) == 1 and nums <= units and len(units) == 1)
            chk.decide(ok, "parts-provenance", "rink_core::" + k1norm(fn.path), "numeral-and-unit-of-the-same-number", fn.where(i, j),
                       "numeral and unit are taken from the same number (%s)" % sorted(nums),
                       "the numeral comes from %s but the unit shown comes from %s: the printed numeral x unit is not the quantity "
                       "(to_parts prettifies - it rescales the value to an SI prefix - so its unit only fits its own numeral)" % (sorted(nums), sorted(units)))
    if n < 1:
        chk.anchor_lost("parts-provenance", "NumberParts", "no NumberParts construction carrying both a numeral and a unit was found")


def quantity_label(chk, F):
    """Substance replies print ratio properties (output per input).  The quantity name attached to such a ratio must be
    that of a quotient by the same input: every write of a NumberParts.quantity field in runtime/substance.rs takes the
    `.quantity` of `to_parts(X / input)` where `input` is the value the printed ratio was divided by."""
    n = 0
    for fn in F.by_crate[CORE]:
        if not fn.file.endswith("runtime/substance.rs"):
            continue
        for i, j, st in fn.stmts():
            if st["k"] != "assign" or not any(isinstance(p, dict) and p.get("f") == "quantity" and p.get("of", "").endswith("NumberParts") for p in st["place"]["p"]):
                continue
            if "a" not in st["rv"]:
                continue
            n += 1
            ap = fn.apath(st["rv"]["a"])
            fk = "rink_core::" + k1norm(fn.path)
            ok = False
            why = "the label is `%s`" % ap_str(ap)[:120]
            r = ap[0]
            if r[0] == "call" and r[1].endswith("Number::to_parts") and ap[1][-1:] == ("quantity",):
                q = r[2][0]
                while q[0][0] == "call" and q[0][1].endswith(("Option::<T>::expect", "Option::<T>::unwrap")) and not q[1]:
                    q = q[0][2][0]
                if q[0][0] == "call" and "arith::Div<" in q[0][1] and q[0][1].endswith("::div") and len(q[0][2]) == 2:
                    divisor = ap_str(q[0][2][1])
                    # the same value divides the printed ratio: another Div in this body whose divisor mentions it
                    others = [t for bb, t in fn.calls() if "callee" in t and "arith::Div<" in t["callee"]["path"] and bb != q[0][3]]
                    base = divisor.replace("core::option::Option::<T>::as_ref(", "").split(")")[0]
                    ok = any(base in ap_str(fn.apath(t["args"][1])) for t in others)
                    why = "quantity of a quotient by `%s`%s" % (divisor[:60], "" if ok else ", which does not divide the printed value")
            chk.decide(ok, "quantity-label", fk, "ratio-label-from-quotient-by-same-input", fn.where(i, j),
                       "the quantity name of a ratio property is that of (unit / input), the same input the printed value is divided by",
                       "the quantity name attached to a ratio property does not come from a quotient by the property's input (%s): the label "
                       "names a different dimensionality than the value and unit printed next to it" % why)
    if n < 4:
        chk.anchor_lost("quantity-label", "runtime/substance.rs", "expected 4 writes of NumberParts.quantity in substance.rs, found %d" % n)
    # `substance -> <constant> <unit>`: the ratio branch rebuilds the reply from a value that was already divided by the whole
    # target (constant included) and relabels it with the target's *names*; the target's constant must then be shown too
    m = 0
    for fn in F.by_crate[CORE]:
        if not fn.file.endswith("runtime/substance.rs") or "get_in_unit::{closure" not in fn.path:
            continue
        writes = {}
        for i, j, st in fn.stmts():
            if st["k"] == "assign" and "a" in st["rv"]:
                for pr in st["place"]["p"]:
                    if isinstance(pr, dict) and pr.get("of", "").endswith("NumberParts") and pr.get("f") in ("quantity", "factor", "divfactor"):
                        writes.setdefault(pr["f"], []).append((i, j, ap_str(fn.apath(st["rv"]["a"]))))
        if "quantity" not in writes:
            continue
        m += 1
        ok = all(any("Context::show(" in src and src.rstrip().endswith("." + f) for _, _, src in writes.get(f, [])) for f in ("factor", "divfactor"))
        i, j, _ = writes["quantity"][0]
        chk.decide(ok, "factor-never-dropped", "rink_core::" + k1norm(fn.path), "ratio-reply-keeps-target-constant", fn.where(i, j),
                   "the ratio reply takes factor and divfactor from Context::show(.., bottom_const, ..) of the same target",
                   "a ratio property of `substance -> <constant> <unit>` is printed with the target's unit names but without the target's constant: "
                   "the value was divided by the constant, so numeral x unit is off by that factor (`water -> 2 kg`)")
    if m < 2:
        chk.anchor_lost("factor-never-dropped", "Substance::get_in_unit", "expected the two ratio branches of get_in_unit, found %d" % m)


def list_part_names(chk, F):
    """Each part of a unit list is printed as numeral + the list unit's name.  to_list wraps the part in a number whose unit
    is an ad-hoc base unit *named after the list unit* and sends it through to_parts, which prettifies: the value is rescaled
    and an SI prefix is glued onto that name.  For a name that is not a base unit the glued name need not exist (`kilokm`,
    `kilohectoare`) or can be the name of another unit (`500 km -> hm;m` prints `5 kiloohm`: kilo + hm = kilohm, an alias
    of kiloohm), so numeral x printed unit is not the part."""
    # the part is rendered in a closure of to_list, or in a private function that belongs to it (`fn list_part(ctx, name, value)`,
    # reached only from to_list), with that function's own helpers put back in place
    import cg
    G = cg.get(F)
    cl = [f for f in F.by_crate[CORE] if f.path.startswith("runtime::eval::to_list::{closure")]
    for f in F.by_crate[CORE]:
        if "{closure" not in f.path and not f.raw.get("public") and "runtime::eval::to_list" in G.owner_chain(f) and f.path != "runtime::eval::to_list":
            cl.append(F.inlined(f, keep=("Option::<T>", "Result::<T, E>", "Iterator", "bool>::then")))
    site = None
    for fn in cl:
        aggs = [(i, j) for i, j, st in fn.stmts() if st.get("rv", {}).get("k") == "agg" and str(st["rv"].get("adt", "")).endswith("number_parts::NumberParts")]
        if not aggs:
            continue
        calls = [(bb, t) for bb, t in fn.calls() if "callee" in t and t["callee"]["path"].endswith("types::number::Number::to_parts")]
        for bb, t in calls:
            a = ap_str(fn.apath(t["args"][0]))
            if "BaseUnit::new(arg2.0)" in a or "base_unit::BaseUnit::new(" in a:
                # is the call restricted to base-unit names?
                def acc(kind, gap, info):
                    if kind == "bool" and ("base_units" in ap_str(gap) or "base_unit_long_names" in ap_str(gap)):
                        return {"true"}
                    return None
                import k2
                res, matched = k2.cut_gate(fn, [bb], acc)
                gated = bool(matched) and res[bb]
                site = (fn, bb, gated)
    if site is None:
        raise AnchorLost("to_list: the closure that renders the parts was not found")
    fn, bb, gated = site
    # the worse half of the defect has a repair the pinned suite allows: a glued name that *reads* as a unit must be that prefix
    # times the list unit, otherwise the part is shown without a prefix (to_parts_simple).  Structure: the closure looks the
    # prettified name up, compares value and dimensionality with the list unit's, and has a to_parts_simple fall-back.
    names = [t["callee"]["path"] for _, t in fn.calls() if "callee" in t]
    lookups = sum(1 for n in names if n.endswith("Context::lookup"))
    has_fallback = any(n.endswith("Number::to_parts_simple") for n in names)
    has_cmp = any(n.endswith(("PartialEq>::ne", "PartialEq>::eq", "PartialEq::ne", "PartialEq::eq")) for n in names)
    KEY = "rink_core::runtime::eval::to_list"      # the site is to_list's code wherever it is written
    chk.decide(gated or (lookups >= 2 and has_fallback and has_cmp), "list-part-names", KEY, "glued-name-that-reads-denotes-the-part", fn.where(bb),
               "a prefixed part name that reads as a unit is compared with prefix x list unit and dropped for the plain rendering when it differs",
               "a prefixed part name is printed without asking what it reads as: `2 hours -> ms;us` prints `7.2 megameter`, `500 km -> hm;m` prints `5 kiloohm`")
    chk.decide(gated, "list-part-names", KEY, "prefix-only-on-base-units", fn.where(bb),
               "list parts are prettified (SI prefix glued onto the list unit's name) only when that name is a base unit",
               "every list part is prettified as if the list unit's name were a base unit: an SI prefix is glued onto arbitrary names "
               "(`12345 km -> km;m` prints `12.345 kilokm`, `3 km -> mm;um` prints `3 megamm`: names that do not read back)")


def k1gen(fn):
    import k1
    return k1.is_generated(fn, fn.loc)


def k1norm(p):
    import k1
    return k1.normfn(p)


def factor_exact(chk, F):
    roots = [F.find(CORE, "runtime::eval::eval_unit_name")]
    def stop(fn, bb):
        t = fn.blocks[bb]["term"]
        if t["k"] == "call" and "callee" in t:
            p = t["callee"]["path"]
            return p.endswith(("runtime::eval::eval_expr", "Context::canonicalize", "QueryError::generic")) or "fmt::" in p
        return False
    n, nprim, bad = k4.check_exact(chk, F, "factor-exact", roots, "the factor printed for a conversion target must be exact", extra_stop=stop)
    chk.extra["factor_exact"] = {"functions": n, "float_primitives": nprim}
    if nprim < 1 and bad == 0:
        chk.ok("factor-exact", "rink_core::runtime::eval::eval_unit_name", "no-float-primitive", "", "no float primitive reachable from eval_unit_name")


def decompose(chk, F):
    fn = F.find(CORE, "algorithms::fast_decompose::fast_decompose")
    fk = "rink_core::algorithms::fast_decompose::fast_decompose"
    # decided on the MIR (no local names): `best` is the one local that holds Some((name, unit, exponent, score)) tuples
    # ... or the fields of a private struct: the record is the one aggregate of four values, and which component is which is
    # read from what is put into it (the score is the complexity_score(..) value, the exponent the one that was scored, ..)
    tuples = [(i, st) for i, j, st in fn.stmts() if st["rv"].get("k") == "agg" and len(st["rv"].get("ops", [])) == 4
              and (st["rv"].get("agg") == "tuple" or (st["rv"].get("agg") == "adt" and st["rv"].get("fields")))]
    ok = ok2 = ok3 = False
    detail = ""
    P = {"name": "0", "unit": "1", "exp": "2", "score": "3"}     # projection of each component
    if len(tuples) == 1:
        ti, tst = tuples[0]
        aps = [fn.apath(o) for o in tst["rv"]["ops"]]
        projs = [str(i) for i in range(4)] if tst["rv"].get("agg") == "tuple" else list(tst["rv"]["fields"])
        si = [i for i, a in enumerate(aps) if "complexity_score(" in ap_str(a)]
        order = [0, 1, 2, 3]
        if len(si) == 1 and tst["rv"].get("agg") != "tuple":
            # name and unit are the two halves (.1 / .0) of the same map entry; the exponent is the remaining one
            rest = [i for i in range(4) if i != si[0]]
            nm = [i for i in rest if aps[i][1][-1:] == ("1",)]
            un = [i for i in rest if aps[i][1][-1:] == ("0",)]
            ex = [i for i in rest if i not in nm + un]
            if len(nm) == 1 and len(un) == 1 and len(ex) == 1:
                order = [nm[0], un[0], ex[0], si[0]]
        t_name, t_unit, t_exp, t_score = [aps[i] for i in order]
        P = dict(zip(("name", "unit", "exp", "score"), [projs[i] for i in order]))
        # (a) what is recorded was what was scored: score = complexity_score(unwrap(value / Number{1, clone(unit)}.powi(exp))) with the
        #     same unit (the other half of the derived_units entry the name comes from) and the same exponent
        sc = t_score
        while sc[0][0] == "call" and sc[0][2] and not sc[1] and sc[0][1].endswith(("Option::<T>::unwrap", "complexity_score")):
            sc = sc[0][2][0]
        if sc[0][0] == "call" and "arith::Div<" in sc[0][1]:
            num = sc[0][2][1]
            if num[0][0] == "call" and num[0][1].endswith("Number::powi"):
                base, exp = num[0][2]
                unit_ok = base[0][0] == "agg" and str(base[0][1]).endswith("number::Number::Number") and len(base[0][2]) == 2 and \
                    base[0][2][0][0][0] == "call" and base[0][2][0][0][1].endswith("Numeric::one") and \
                    base[0][2][1][0][0] == "call" and base[0][2][1][0][1].endswith("Clone>::clone") and facts.ap_match(base[0][2][1][0][2][0], t_unit)
                same_entry = t_unit[1][-1:] == ("0",) and t_name[1][-1:] == ("1",) and facts.ap_match((t_unit[0], t_unit[1][:-1]), (t_name[0], t_name[1][:-1])) and "arg2" in ap_str(t_unit)
                ok3 = unit_ok and same_entry and facts.ap_match(exp, t_exp) and ap_str(sc[0][2][0]) == "arg1"
                detail = "unit %s, entry %s, exponent %s" % (unit_ok, same_entry, facts.ap_match(exp, t_exp))
        # (b) what is stored is what was recorded: res = (value / Number{1, clone(best.1)}.powi(best.2)).unit; res.insert(BaseUnit::new(best.0), best.2)
        best_l = tst["place"]["l"] if not tst["place"]["p"] else None
        ins = [(bb, t) for bb, t in fn.calls() if "callee" in t and t["callee"]["path"].endswith("Dimensionality::insert")]
        if len(ins) == 1:
            r, k, e = [fn.apath(a) for a in ins[0][1]["args"]]
            def comp(ap):
                """which component of the best tuple an access path is (through `as Some .0`), or None"""
                pr = [p_ for p_ in ap[1] if p_ not in ("as Some",)]
                return pr[-1] if ap[0][0] == "local" and len(pr) >= 2 and pr[0] == "0" and str(pr[-1]) in P.values() else None
            key_ok = k[0][0] == "call" and k[0][1].endswith("BaseUnit::new") and comp(k[0][2][0]) == P["name"]
            e2 = e
            while e2[0][0] == "cast" and not e2[1]:
                e2 = e2[0][2]
            exp_ok = comp(e2) == P["exp"]
            rs = ap_str(r)
            quot_ok = "arith::Div<" in rs and rs.endswith(".unit") and "Number::powi(" in rs and rs.count("as Some.0." + P["unit"]) >= 1 and rs.count("as Some.0." + P["exp"]) >= 1 and "div(arg1," in rs.replace(">>::div(", ">>::div(").replace("::div(", "div(")[-len(rs):]
            ok = key_ok and exp_ok and quot_ok
            ok2 = "Numeric::one()" in rs
            detail += "; key %s, exponent %s, quotient %s" % (key_ok, exp_ok, quot_ok)
    chk.decide(ok and ok2, "decompose", fk, "stored-exponent-is-divided-exponent", fn.where(),
               "the derived unit is stored with the same exponent used in `value / unit^exponent`, under the name paired with that unit",
               "fast_decompose does not store (name, exponent) of the same best tuple it divided by (%s)" % detail)
    # candidates scored with the same i that is recorded
    chk.decide(ok3, "decompose", fk, "best-records-scored-exponent", fn.where(), "the recorded exponent is the one that was scored", "the exponent recorded in `best` is not the one used for scoring (%s)" % detail)
    pu = F.find(CORE, "types::number::Number::pretty_unit")
    ok = False
    for c in F.closures_of(pu):
        for i, j, st in c.stmts():
            rv = st.get("rv", {})
            if st["k"] == "assign" and st["place"]["l"] == 0 and rv.get("k") == "agg" and rv.get("agg") == "tuple" and len(rv["ops"]) == 2:
                e = ap_str(c.apath(rv["ops"][1]))
                ok = e in ("arg2.1",)
    chk.decide(ok, "decompose", "rink_core::types::number::Number::pretty_unit", "exponent-passed-through", pu.where(), "pretty_unit maps only the base unit's name; the exponent is passed through", "pretty_unit changes exponents")


def merges(chk, F):
    n = 0
    for fn in F.by_crate[CORE]:
        for bb, t in fn.calls():
            if "callee" in t and t["callee"]["path"].endswith("algorithms::btree_merge::btree_merge"):
                n += 1
                cl = fn.apath(t["args"][2])
                ok = False
                detail = ap_str(cl)[:80]
                if cl[0][0] == "agg" and cl[0][1].startswith("closure:"):
                    cp = cl[0][1][len("closure:"):]
                    cands = [g for g in F.by_crate[CORE] if g.path == cp]
                    if cands:
                        ok, detail = sum_dropping_zero(cands[0])
                chk.decide(ok, "merge-closures", "rink_core::" + fn.path, "merge:add-and-drop-zero", fn.where(bb),
                           "unit exponents are merged with `a + b`, dropping entries that become zero", "a unit-map merge does not use `if a + b != 0 { Some(a + b) } else { None }`: %s" % detail)
    # (a floor against a rule that matches nothing: today there are three sites; when the duplicated closure is given a name
    # they become one)
    if n < 1:
        chk.anchor_lost("merge-closures", "rink_core", "expected at least one btree_merge call site, found %d" % n)
    # Frac arm negates the right-hand map exactly once
    u = F.find(CORE, "runtime::eval::eval_unit_name")
    negs = 0
    for c in F.closures_of(u):
        for i, j, st in c.stmts():
            rv = st.get("rv", {})
            if rv.get("k") == "unop" and rv["op"] == "Neg" and rv.get("aty") == "isize":
                negs += 1
    chk.decide(negs == 2, "merge-closures", "rink_core::runtime::eval::eval_unit_name", "division-negates-once", u.where(),
               "exponents are negated in exactly two places: the divisor's map in `/` and ... (see evidence)", "eval_unit_name negates unit exponents in %d places" % negs) if False else None


def sum_dropping_zero(c):
    somes = []
    nones = 0
    for i, j, st in c.stmts():
        rv = st.get("rv", {})
        if st["k"] == "assign" and st["place"]["l"] == 0 and rv.get("k") == "agg" and rv.get("adt", "").endswith("option::Option"):
            if rv["variant"] == "Some":
                somes.append((i, c.apath(rv["ops"][0])))
            else:
                nones += 1
    if len(somes) != 1 or nones != 1:
        return False, "%d Some / %d None returns" % (len(somes), nones)
    i, ap = somes[0]
    s = ap_str(ap)
    r = ap[0]
    is_sum = (r[0] == "binop" and r[1].startswith("Add") and {ap_str(r[2]), ap_str(r[3])} == {"arg2", "arg3"}) or \
        (r[0] == "call" and "core::ops::arith::Add" in r[1] and {ap_str(x) for x in r[2]} == {"arg2", "arg3"})
    gs = [c.guard_desc(g) for g in c.guards_of(i)]
    nz = any(d[0] == "bool" and d[2] is True and d[1][0][0] == "binop" and d[1][0][1] == "Ne" and ("Add" in ap_str(d[1])) and
             (d[1][0][3][0] == ("const", 0) or d[1][0][2][0] == ("const", 0)) for d in gs)
    nz = nz or generic_nonzero(c, gs)
    return (is_sum and nz), s


def generic_nonzero(c, gs):
    """The same test in a generic merge helper (`V: Copy + Default + PartialEq + Add<Output = V>`): `sum != V::default()`, where
    every type the helper is used with for V is a machine integer (whose default is 0)."""
    import cg
    import facts as _f
    F = _f.CURRENT
    if F is None:
        return False
    root = (c.raw.get("root") or {}).get("id", c.id)
    inst = cg.get(F).inst.get(root)
    ints = {"i8", "i16", "i32", "i64", "i128", "isize", "u8", "u16", "u32", "u64", "u128", "usize"}
    if not inst or not (inst & ints) or (inst & {"f32", "f64"}):
        return False
    for d in gs:
        if d[0] == "bool" and d[1][0][0] == "call" and d[1][0][1].endswith(("PartialEq>::ne", "PartialEq::ne")) and d[2] is True and len(d[1][0][2]) == 2:
            a, b = d[1][0][2]
            for x, y in ((a, b), (b, a)):
                if "core::ops::arith::Add" in ap_str(x) and y[0][0] == "call" and y[0][1].endswith(("Default>::default", "Default::default")) and not y[0][2]:
                    return True
    return False


def factor_shown(chk, F):
    """In the `u` pattern, whenever the conversion constant is present (factor / divfactor) it is printed: no skip of the
    unit section while a factor exists, and both parts are pushed in the branch Context::show feeds (raw_unit)."""
    fns = [f for f in F.by_crate[CORE] if f.path == "output::number_parts::NumberPartsFmt::<'a>::to_spans" and f.raw["kind"] != "Closure"]
    if len(fns) != 1:
        raise AnchorLost("NumberPartsFmt::to_spans not found (%d)" % len(fns))
    fn = fns[0]
    fk = "rink_core::output::number_parts::NumberPartsFmt::to_spans"
    h = F.hir_of(fn)
    arm = None
    for m in hir_walk(h["body"]):
        if m.get("k") == "Match":
            for a in m["arms"]:
                if a["pat"]["pk"] == "expr" and a["pat"]["e"].get("v") == "u":
                    arm = a
    if arm is None:
        raise AnchorLost("no arm for the `u` pattern character")
    first = [n for n in hir_walk(arm["body"]) if n.get("k") == "If" and n["cond"].get("k") == "Let" and H.expr_str(n["cond"]["init"]).endswith(".raw_unit")]
    if not first:
        raise AnchorLost("`u` arm does not start with `if let Some(unit) = parts.raw_unit`")
    then = first[0]["then"]
    conts = []
    for n in hir_walk(then):
        if n.get("k") == "If" and [c for c in hir_walk(n["then"]) if c.get("k") == "Continue"]:
            conts.append(H.expr_str(n["cond"], 300))
    ok = bool(conts) and all(".factor.is_none()" in c and ".divfactor.is_none()" in c for c in conts)
    chk.decide(ok, "factor-never-dropped", fk, "skip-only-without-factor", "%s:%d" % (fn.file, first[0]["line"]),
               "the unit section is skipped only when there is neither a factor nor a divfactor", "the `u` pattern skips its output under `%s` although a conversion factor may be present: numeral x factor no longer equals the value" % conts)
    txt = "\n".join(hirpp.tree(then))
    # (whatever the locals are called: an `if let Some(_) = <x>.factor` and one for `.divfactor`, each writing something)
    def shown(field):
        for n in hir_walk(then):
            if n.get("k") == "If" and n["cond"].get("k") == "Let" and "Option::Some" in H.pat_str(n["cond"]["pat"]):
                init = n["cond"]["init"]
                while init.get("k") in ("AddrOf", "Unary", "DropTemps", "MethodCall") and (init.get("e") or init.get("a") or init.get("recv")):
                    if init.get("k") == "MethodCall" and init["name"] not in ("as_ref", "as_deref", "clone"):
                        break
                    init = init.get("e") or init.get("a") or init.get("recv")
                if init.get("k") == "Field" and init.get("name") == field and (H.method_calls(n["then"]) or [c for c in hir_walk(n["then"]) if c.get("k") == "Call"]):
                    return True
        return False
    okf = shown("factor") and shown("divfactor")
    chk.decide(okf, "factor-never-dropped", fk, "both-parts-printed", "%s:%d" % (fn.file, first[0]["line"]), "factor and divfactor are both printed when present", "factor/divfactor are not both printed in the raw_unit branch")


def irc_rendering(chk, F):
    """The IRC front-end writes the same spans with mIRC control codes.  (a) ^C (0x03) followed by one or two digits is a colour
    code, so a colour must never be *ended* with a bare ^C: the text that follows may start with digits - `Conformance error: `
    is followed by the left-hand number, and `123 m -> s` was shown as `3 meter`.  Every literal of the formatter that contains
    0x03 must carry its two colour digits.  (b) an IRC message ends at the first line end, so what is handed to
    send_notice/send_privmsg must have had its line ends replaced: the conformance error keeps its suggestions after a `\n`."""
    fns = [f for f in F.by_crate.get("rink_irc", []) if f.path.endswith("fmt::write_irc_token")]
    if len(fns) != 1:
        raise AnchorLost("rink_irc::fmt::write_irc_token not found")
    fn = fns[0]
    lits = [n["lit"]["v"] for n in hir_walk(F.hir_of(fn)["body"]) if n.get("k") == "Lit" and n["lit"].get("lit") == "str"]
    import re
    cc = [v for v in lits if "\x03" in v]
    bad = [v for v in cc if re.search("\x03(?![0-9]{2})", v)]
    if len(lits) < 10:
        raise AnchorLost("write_irc_token: only %d string literals found" % len(lits))
    chk.decide(not bad, "irc-rendering", "rink_irc::fmt::write_irc_token", "no-bare-colour-terminator", fn.where(),
               "every ^C in the formatter's literals carries its two colour digits (%d colour literals); colours are ended with a reset" % len(cc),
               "a colour is ended with a bare ^C (%r): digits that follow are swallowed as a colour code, `123 m -> s` shows `Conformance error: 3 meter`" % bad)
    # (b) line ends
    sends = []
    for f in F.by_crate.get("rink_irc", []):
        for bb, t in f.calls():
            if "callee" in t and t["callee"]["path"].split("::")[-1] in ("send_notice", "send_privmsg") and len(t["args"]) >= 3:
                sends.append((f, bb, ap_str(f.apath(t["args"][2]))))
    if not sends:
        raise AnchorLost("rink_irc: no send_notice/send_privmsg call found")
    for f, bb, src in sends:
        ok = "to_irc_string" not in src or "str>::replace" in src or "::replace(" in src or "lines(" in src or "split(" in src
        chk.decide(ok, "irc-rendering", "rink_irc::" + f.path, "one-line-per-message", f.where(bb),
                   "the reply text has its line ends removed (or is split) before it is sent",
                   "the reply is sent as rendered (%s): the IRC codec cuts a message at the first line end, `1 m -> s` loses "
                   "\"Suggestions: divide left side by velocity\" and `1 Hz -> s` loses the reciprocal hint" % src[:80])


def of_target(chk, F):
    """`x * t = v` for a target `prop of <substance>`: eval_unit_name answers with a *name* and a constant.  When it swaps the
    property for the substance's own unit (`electron_mass`, the property of an amount of one) the constant has to carry the
    amount, or `1 kg -> mass of (2 electron)` is off by the factor two; and a property name that is kept is shown as written,
    not canonicalised like a unit name (`mass` is the plural of `mas`)."""
    fn = F.find(CORE, "runtime::eval::eval_unit_name")
    h = F.hir_of(fn)
    arm = None
    for m in hir_walk(h["body"]):
        if m.get("k") == "Match" and m.get("src") == "Normal":
            for a in m["arms"]:
                if H.pat_str(a["pat"]).replace(" ", "").startswith("Expr::Of{"):
                    arm = a
    if arm is None:
        raise AnchorLost("eval_unit_name: Expr::Of arm not found")
    fields = [n for n in hir_walk(arm["body"]) if n.get("k") == "Field"]
    uses_input_name = any(f["name"] == "input_name" for f in fields)
    uses_amount = any(f["name"] == "amount" for f in fields)
    fk = "rink_core::runtime::eval::eval_unit_name"
    chk.decide((not uses_input_name) or uses_amount, "factor-exact", fk, "of-target:unit-of-one-carries-the-amount", "%s:%d" % (fn.file, arm["line"]),
               "when the target is named by the substance's own unit, the constant is taken from the substance's amount",
               "the target `prop of <substance>` is renamed to the substance's own unit (input_name) but the constant ignores the amount: "
               "`1 kg -> mass of (2 electron)` prints `5.488845e29 electron_mass`, off by the factor two")
    # the kept property name is not canonicalised
    canon_args = []
    for c in hir_walk(arm["body"]):
        if c.get("k") == "MethodCall" and c["name"] == "canonicalize" and c["args"]:
            canon_args.append(H.expr_str(c["args"][0], 80))
    bad = [a for a in canon_args if "input_name" not in a]
    chk.decide(not bad, "factor-exact", fk, "of-target:property-name-as-written", "%s:%d" % (fn.file, arm["line"]),
               "only the substance's own unit name is canonicalised; a property name is shown as written",
               "a property name is canonicalised like a unit name (%s): `100 kg -> mass of m^3 water` prints `0.1 mas (mass)`" % bad)
