"""C11 Printed expressions re-parse to the same expression.  DESIGN.md section 4, C11.

Two tables are extracted from the HIR of /repo's current tree - the printer (Precedence order, from/next, the recurse
arms of Display for Expr and of ExprReply::from) and the parser ladder of text_query.rs plus the lexer's symbol->token map.
A generic recursive-printer model and a generic ladder-parser model, parameterised ONLY by the extracted facts, are then run
in token space over every abstract tree of depth <= 2 and every depth-3 spine; a tree whose printed token sequence re-parses
to a different tree is a finding, reported as its minimal (parent, slot, child) pair.
"""
import itertools

import hirutil as H
import hirpp
from facts import AnchorLost, hir_walk

CORE = "rink_core"
TQ = "parsing::text_query::"


# =========================================================================================
# extraction: printer
# =========================================================================================
def match_table(F, path, want_ret="Precedence"):
    fn = F.find(CORE, path)
    h = F.hir_of(fn)
    ms = [m for m in hir_walk(h["body"]) if m.get("k") == "Match" and m.get("src") == "Normal"]
    if len(ms) != 1:
        raise AnchorLost("%s is not a single match" % path)
    out = {}
    for a in ms[0]["arms"]:
        pats = a["pat"]["alts"] if a["pat"]["pk"] == "or" else [a["pat"]]
        b = a["body"]
        while b.get("k") == "Block" and not b["stmts"] and b.get("expr"):
            b = b["expr"]
        if a["pat"]["pk"] in ("bind", "wild") and not a.get("guard"):
            # the rest: `other => Precedence::next(other)` hands the remaining variants to another table of this type, `_ => X`
            # gives them all one value
            if b.get("k") == "Call" and b["f"].get("k") == "Path" and b["f"]["r"].get("path", "").startswith("ast::expr::Precedence::") and len(b["args"]) == 1 \
                    and a["pat"]["pk"] == "bind" and (H.local_name(b["args"][0]) or ("",))[0] == a["pat"].get("name"):
                for v_, val_ in match_table(F, b["f"]["r"]["path"], want_ret).items():
                    out.setdefault(v_, val_)
                continue
            ty = str(ms[0]["scrut"].get("ty", "")).lstrip("&")
            try:
                variants = [v_["name"] for v_ in F.adt(CORE, ty)["variants"]]
            except AnchorLost:
                variants = None
            if variants and b.get("k") in ("Path", "Lit"):
                val_ = b["r"].get("path", "").split("::")[-1] if b.get("k") == "Path" else b["lit"]["v"]
                for v_ in variants:
                    out.setdefault(v_, val_)
                continue
            raise AnchorLost("%s: catch-all arm is neither a constant nor a call of another table with the same operator" % path)
        if b.get("k") == "Path":
            val = b["r"].get("path", "").split("::")[-1]
        elif b.get("k") == "Lit":
            val = b["lit"]["v"]
        else:
            raise AnchorLost("%s: arm body is not a path or literal" % path)
        for p in pats:
            if p["pk"] != "expr":
                raise AnchorLost("%s: arm pattern is not an enum variant" % path)
            out[p["e"].get("path", "").split("::")[-1]] = val
    return out


def prec_arg(e, local_defs):
    """Precedence argument of a recurse call / threshold of a `prec < X` test -> 'from' | 'next' | variant name."""
    if e.get("k") == "Path":
        r = e["r"]
        if r.get("res") == "local":
            return local_defs.get(r["name"], "?" + r["name"])
        return r.get("path", "").split("::")[-1]
    if e.get("k") == "Call" and e["f"].get("k") == "Path":
        p = e["f"]["r"].get("path", "")
        if p.startswith("ast::expr::Precedence::"):
            return p.split("::")[-1]      # from / next / right / factor: looked up in the extracted tables
    return "?"


def conditional_writer(F, call):
    """`helper(out, prec < X, "(")`: a private function of this crate that writes its string argument when its bool argument is
    true and nothing otherwise.  Returns (condition, text) or None."""
    if F is None or call.get("k") != "Call" or call["f"].get("k") != "Path":
        return None
    import facts as _f
    g = _f.private_helper(F, CORE, call["f"]["r"].get("path", ""))
    if g is None:
        return None
    conds = [a for a in call["args"] if a.get("k") == "Binary" and a.get("op") == "Lt"]
    lits = [a for a in call["args"] if a.get("k") == "Lit" and a["lit"].get("lit") == "str"]
    if len(conds) != 1 or len(lits) != 1:
        return None
    h = F.hir_of(g)
    params = [(x.get("pat") or x).get("name") for x in h.get("params", [])]
    bi, si = call["args"].index(conds[0]), call["args"].index(lits[0])
    if bi >= len(params) or si >= len(params):
        return None
    body = h["body"]
    while body.get("k") == "Block" and not body["stmts"] and body.get("expr"):
        body = body["expr"]
    if body.get("k") != "If" or not H.local_name(body["cond"]) or H.local_name(body["cond"])[0] != params[bi]:
        return None
    def writes(e):
        return [m for m in hir_walk(e) if m.get("k") == "MethodCall" and m["name"] in ("write_str", "write_fmt", "push", "push_str")]
    tw = writes(body["then"])
    ew = writes(body["else"]) if body.get("else") else []
    if len(tw) != 1 or ew or params[si] not in H.expr_str(tw[0], 120):
        return None
    return conds[0], lits[0]["lit"]["v"]


def group_writer(F, call):
    """`write_group(out, prec < X, |out| { .. })`: a private function of this crate that writes "(" when its bool argument is true,
    then runs its closure argument once, then writes ")" under the same bool - and nothing else.  Returns (condition, closure body)
    or None."""
    if F is None or call.get("k") != "Call" or call["f"].get("k") != "Path":
        return None
    import facts as _f
    g = _f.private_helper(F, CORE, call["f"]["r"].get("path", ""))
    if g is None:
        return None
    clos = [a for a in call["args"] if a.get("k") == "Closure"]
    conds = [a for a in call["args"] if (a.get("k") == "Binary" and a.get("op") == "Lt") or (a.get("k") == "Path" and H.local_name(a) and a.get("ty") == "bool")]
    if len(clos) != 1 or len(conds) != 1:
        return None
    h = F.hir_of(g)
    params = [(x.get("pat") or x).get("name") for x in h.get("params", [])]
    bi, ci = call["args"].index(conds[0]), call["args"].index(clos[0])
    if bi >= len(params) or ci >= len(params):
        return None
    body = H.simplify(h["body"])
    seq = []
    for kind, node in H.stmts_of(body):
        e = node.get("init") if kind == "let" else node
        while e is not None and e.get("k") in ("Try", "DropTemps") and e.get("e"):
            e = e["e"]
        if e is None:
            continue
        if e.get("k") == "If" and H.local_name(e["cond"]) and H.local_name(e["cond"])[0] == params[bi] and not e.get("else"):
            lits = [x["lit"]["v"] for x in hir_walk(e["then"]) if x.get("k") == "Lit" and x["lit"].get("lit") == "str"]
            seq.append("".join(lits))
        elif e.get("k") == "Call" and H.local_name(e["f"]) and H.local_name(e["f"])[0] == params[ci]:
            seq.append("BODY")
        elif e.get("k") == "Call" and e["f"].get("k") == "Path" and e["f"]["r"].get("path", "").endswith(("Result::Ok", "Ok")):
            continue
        elif e.get("k") in ("Path", "Lit", "Tup"):
            continue
        else:
            return None
    if seq != ["(", "BODY", ")"]:
        return None
    return conds[0], clos[0]["body"]


def printer_events(arm_body, F=None, variant=None):
    """Ordered events of a printer arm: ('paren', X) | ('rec', childtext, X) | ('lit', s) | ('fmt', text), with loops flattened
    as ('loop-begin',)/('loop-end',).  `variant`: the arm is shared by several variants (an or-pattern); choices inside it that
    are made on the variant (`if let V = x.op`, `match x.op`) are followed for this one."""
    body = H.simplify(arm_body)
    local_defs = {}
    events = []

    def is_lit_write(e):
        # fmt.write_fmt(<'a>::from_str('x'))  /  literal!("x") -> parts.push(ExprParts::Literal{text: ...})
        if e.get("k") == "MethodCall" and e["name"] == "write_fmt":
            lits = [x["lit"]["v"] for x in hir_walk(e["args"][0]) if x.get("k") == "Lit" and x["lit"].get("lit") == "str"]
            calls = [x for x in hir_walk(e["args"][0]) if x.get("k") == "MethodCall"]
            if calls:
                return ("fmt", H.expr_str(calls[0], 60), lits)
            fmtargs = [x for x in hir_walk(e["args"][0]) if x.get("k") == "Path" and x["r"].get("res") == "local" and x["r"]["name"] not in ("args", "fmt")]
            if fmtargs:
                return ("fmt", fmtargs[0]["r"]["name"], lits)
            return ("lit", "".join(lits))
        if e.get("k") == "MethodCall" and e["name"] == "push" and H.expr_str(e["recv"]) == "parts":
            lits = [x["lit"]["v"] for x in hir_walk(e["args"][0]) if x.get("k") == "Lit" and x["lit"].get("lit") == "str"]
            txt = H.expr_str(e["args"][0], 200)
            if "ExprParts::Property" in txt:
                return ("fmt", "property", lits)
            mcs = [x for x in hir_walk(e["args"][0]) if x.get("k") == "MethodCall" and x["name"] in ("symbol", "name", "to_string")]
            if mcs and mcs[0]["name"] in ("symbol", "name"):
                return ("fmt", H.expr_str(mcs[0], 60), lits)
            if any(m["name"] == "to_string" for m in mcs) and not lits:
                return ("fmt", H.expr_str(mcs[0], 60), lits)
            if lits:
                return ("lit", "".join(lits))
            return ("fmt", txt[:40], lits)
        return None

    def walk(e):
        if not isinstance(e, dict):
            return
        k = e.get("k")
        if k == "Block":
            for kind, node in H.stmts_of(e):
                if kind == "let":
                    nm = node["pat"].get("name")
                    init = node.get("init")
                    if nm and init is not None:
                        t = H.expr_str(init, 80)
                        if t.startswith("Precedence::from("):
                            local_defs[nm] = "from"
                        elif t.startswith("Precedence::next("):
                            local_defs[nm] = "next"
                        elif init.get("k") == "Call" and init["f"].get("k") == "Path" and init["f"]["r"].get("path", "").startswith("ast::expr::Precedence::"):
                            local_defs[nm] = init["f"]["r"]["path"].split("::")[-1]       # `let right_prec = Precedence::right(op)`
                        elif init.get("k") == "Binary" and init.get("op") == "Lt" and H.local_name(init["a"]) and "Precedence" in init["a"].get("ty", ""):
                            local_defs[nm] = ("needs-parens", prec_arg(init["b"], local_defs))     # `let parens = prec < LEVEL`
                        elif init.get("k") == "If" and init["cond"].get("k") == "Binary" and init["cond"]["op"] == "Eq" and \
                                init["cond"]["b"].get("k") == "Lit" and init["cond"]["b"]["lit"].get("v") == 0 and init.get("else") is not None:
                            # `if index == 0 { A } else { B }` under `.enumerate()`: A for the first element, B for the rest
                            def tail(b_):
                                while b_.get("k") == "Block" and not b_["stmts"] and b_.get("expr"):
                                    b_ = b_["expr"]
                                return b_
                            local_defs[nm] = ("first-rest", prec_arg(tail(init["then"]), local_defs), prec_arg(tail(init["else"]), local_defs))
                        elif init.get("k") == "Match" and variant and any("UnaryOpType::" in H.pat_str(a_["pat"]) for a_ in init["arms"]):
                            # `let sign = match op { Positive => "+", _ => "-" }` in an arm shared by several operators: the text this
                            # operator prints
                            hit = [a_ for a_ in init["arms"] if ("UnaryOpType::" + variant) in H.pat_str(a_["pat"])] or [a_ for a_ in init["arms"] if a_["pat"]["pk"] == "wild"]
                            b_ = hit[0]["body"] if hit else {}
                            while b_.get("k") == "Block" and not b_["stmts"] and b_.get("expr"):
                                b_ = b_["expr"]
                            if b_.get("k") == "Lit" and b_["lit"].get("lit") == "str":
                                local_defs[nm] = ("text", b_["lit"]["v"])
                            else:
                                walk(init)
                        else:
                            walk(init)
                else:
                    walk(node)
            return
        if k == "Try":
            walk(e["e"])
            return
        if k == "If":
            c = e["cond"]
            ln_ = H.local_name(c) if c.get("k") == "Path" else None
            if ln_ and isinstance(local_defs.get(ln_[0]), tuple) and local_defs[ln_[0]][0] == "needs-parens":
                inner = [is_lit_write(x) for x in hir_walk(e["then"]) if isinstance(x, dict)]
                inner = [x for x in inner if x]
                which = "open" if any(x[0] == "lit" and x[1] == "(" for x in inner) else "close" if any(x[0] == "lit" and x[1] == ")" for x in inner) else "?"
                events.append(("paren-" + which, local_defs[ln_[0]][1]))
                return
            if c.get("k") == "Binary" and c["op"] == "Lt" and H.local_name(c["a"]) and "Precedence" in c["a"].get("ty", ""):
                inner = [is_lit_write(x) for x in hir_walk(e["then"]) if isinstance(x, dict)]
                inner = [x for x in inner if x]
                which = "open" if any(x[0] == "lit" and x[1] == "(" for x in inner) else "close" if any(x[0] == "lit" and x[1] == ")" for x in inner) else "?"
                events.append(("paren-" + which, prec_arg(c["b"], local_defs)))
                return
            if c.get("k") == "Let" and variant and "UnaryOpType::" in H.pat_str(c["pat"]):
                if ("UnaryOpType::" + variant) in H.pat_str(c["pat"]):
                    walk(e["then"])
                elif e.get("else"):
                    walk(e["else"])
                return
            if c.get("k") == "Let":
                # `if let Some(first) = xs.first() { recurse(first, ..) }`
                events.append(("first-begin",))
                walk(e["then"])
                events.append(("first-end",))
                return
            walk(e["then"])
            if e.get("else"):
                walk(e["else"])
            return
        if k == "Match" and e.get("src") == "ForLoopDesugar":
            it = H.expr_str(e["scrut"]["args"][0], 80) if e["scrut"].get("args") else ""
            events.append(("loop-begin", it))
            for a in e["arms"]:
                walk(a["body"])
            events.append(("loop-end",))
            return
        if k == "Loop":
            walk(e["body"])
            return
        if k == "Match":
            if variant and any("UnaryOpType::" in H.pat_str(a["pat"]) for a in e["arms"]):
                hit = [a for a in e["arms"] if ("UnaryOpType::" + variant) in H.pat_str(a["pat"])] or [a for a in e["arms"] if a["pat"]["pk"] == "wild"]
                for a in hit[:1]:
                    walk(a["body"])
                return
            for a in e["arms"]:
                if "Option::None" in H.pat_str(a["pat"]):
                    continue
                walk(a["body"])
            return
        gw = group_writer(F, e) if k == "Call" else None
        if gw:
            c, cbody = gw
            if c.get("k") == "Binary" and H.local_name(c["a"]) and "Precedence" in c["a"].get("ty", ""):
                lvl = prec_arg(c["b"], local_defs)
            elif H.local_name(c) and isinstance(local_defs.get(H.local_name(c)[0]), tuple) and local_defs[H.local_name(c)[0]][0] == "needs-parens":
                lvl = local_defs[H.local_name(c)[0]][1]
            else:
                lvl = None
            if lvl is not None:
                events.append(("paren-open", lvl))
                walk(H.simplify(cbody))
                events.append(("paren-close", lvl))
                return
        cw = conditional_writer(F, e) if k == "Call" else None
        if cw:
            c, text = cw
            if H.local_name(c["a"]) and "Precedence" in c["a"].get("ty", "") and text in ("(", ")"):
                events.append(("paren-" + ("open" if text == "(" else "close"), prec_arg(c["b"], local_defs)))
                return
        if k == "Call" and e["f"].get("k") == "Path" and e["f"]["r"].get("path", "").endswith("recurse"):
            events.append(("rec", H.expr_str(e["args"][0], 40), prec_arg(e["args"][2], local_defs)))
            return
        w = is_lit_write(e)
        if w:
            if w[0] == "fmt" and isinstance(local_defs.get(w[1]), tuple) and local_defs[w[1]][0] == "text":
                w = ("lit", "".join(w[2]) + local_defs[w[1]][1])      # a local that holds this operator's text
            events.append(w if w[0] == "lit" else (w[0], w[1]))
            return
        for v in e.values():
            if isinstance(v, dict):
                walk(v)
            elif isinstance(v, list):
                for x in v:
                    walk(x)
    walk(body)
    return events


def printer_table(F, path):
    fn = F.find(CORE, path)
    h = F.hir_of(fn)
    ms = [m for m in hir_walk(h["body"]) if m.get("k") == "Match" and m.get("src") == "Normal" and any("Expr::BinOp" in H.pat_str(a["pat"]) for a in m["arms"])]
    if not ms:
        raise AnchorLost("%s: no match over Expr variants" % path)
    top = ms[0]
    T = {}
    for a in top["arms"]:
        ptxt = H.pat_str(a["pat"])
        if ptxt.startswith("Expr::BinOp"):
            ev = printer_events(a["body"], F)
            recs = [e for e in ev if e[0] == "rec"]
            parens = [e for e in ev if e[0].startswith("paren")]
            if len(recs) != 2 or len(parens) != 2 or parens[0][1] != parens[1][1]:
                raise AnchorLost("%s: BinOp arm does not have the shape ( left sym right ) [%s]" % (path, ev))
            order = [e[0] if e[0] != "rec" else ("L" if "left" in e[1] else "R") for e in ev]
            if [o for o in order if o in ("L", "R", "paren-open", "paren-close", "fmt")] != ["paren-open", "L", "fmt", "R", "paren-close"]:
                raise AnchorLost("%s: BinOp arm event order is %s" % (path, order))
            left = [r for r in recs if "left" in r[1]][0][2]
            right = [r for r in recs if "right" in r[1]][0][2]
            sym = [e for e in ev if e[0] == "fmt"]
            if not sym or "symbol" not in sym[0][1]:
                raise AnchorLost("%s: BinOp arm does not print binop.op.symbol()" % path)
            T["BinOp"] = {"paren": parens[0][1], "left": left, "right": right}
        elif ptxt.startswith("Expr::UnaryOp"):
            inner = [m for m in hir_walk(a["body"]) if m.get("k") == "Match" and m.get("src") == "Normal"]
            if not inner:
                raise AnchorLost("%s: UnaryOp arm has no inner match" % path)
            unary_arms = []
            for ua in inner[0]["arms"]:
                up0 = H.pat_str(ua["pat"])
                vs = [v for v in ("Positive", "Negative", "Degree") if ("UnaryOpType::" + v) in up0]
                if len(vs) > 1:
                    # one arm for several operators (`Positive | Negative => ..`): read once per operator
                    unary_arms += [(ua, "UnaryOpType::" + v, v) for v in vs]
                else:
                    unary_arms.append((ua, up0, None))
            for ua, up, shared in unary_arms:
                ev = printer_events(ua["body"], F, shared)
                recs = [e for e in ev if e[0] == "rec"]
                parens = [e for e in ev if e[0].startswith("paren")]
                lits = [e[1] for e in ev if e[0] == "lit"]
                if len(recs) != 1:
                    raise AnchorLost("%s: unary arm %s has %d recursions" % (path, up, len(recs)))
                name = "Pos" if "Positive" in up else "Neg" if "Negative" in up else "Deg" if "Degree" in up else None
                if name is None:
                    raise AnchorLost("%s: unknown unary arm %s" % (path, up))
                entry = {"child": recs[0][2], "paren": parens[0][1] if parens else None}
                if name in ("Pos", "Neg"):
                    sign = [l for l in lits if l in ("+", "-")]
                    if sign != [{"Pos": "+", "Neg": "-"}[name]] or ev.index(("lit", sign[0])) > ev.index(recs[0]):
                        raise AnchorLost("%s: %s arm does not print its sign before the operand (%s)" % (path, name, ev))
                    if parens:
                        order = [e[0] if e[0] != "lit" else "sign" for e in ev if e[0] in ("paren-open", "rec", "paren-close") or (e[0] == "lit" and e[1] in "+-")]
                        if order != ["paren-open", "sign", "rec", "paren-close"] or parens[0][1] != parens[1][1]:
                            raise AnchorLost("%s: %s arm event order %s" % (path, name, order))
                else:
                    order = [e[0] for e in ev if e[0] in ("paren-open", "rec", "fmt", "paren-close")]
                    if order != ["paren-open", "rec", "fmt", "paren-close"]:
                        raise AnchorLost("%s: Degree arm event order %s" % (path, order))
                T[name] = entry
        elif ptxt.startswith("Expr::Mul"):
            ev = printer_events(a["body"], F)
            recs = [e for e in ev if e[0] == "rec"]
            parens = [e for e in ev if e[0].startswith("paren")]
            if not recs or len(parens) != 2 or parens[0][1] != parens[1][1]:
                raise AnchorLost("%s: Mul arm shape %s" % (path, ev))
            first = recs[0][2]
            rest = recs[-1][2]
            if len(recs) == 1 and isinstance(first, tuple) and first[0] == "first-rest":
                first, rest = first[1], first[2]
            T["Mul"] = {"paren": parens[0][1], "first": first, "rest": rest, "special": [e for e in ev if e[0] not in ("rec", "paren-open", "paren-close", "lit", "loop-begin", "loop-end", "first-begin", "first-end")]}
        elif ptxt.startswith("Expr::Call"):
            ev = printer_events(a["body"], F)
            recs = [e for e in ev if e[0] == "rec"]
            if not recs or len(set(r[2] for r in recs)) != 1:
                raise AnchorLost("%s: Call arm shape %s" % (path, ev))
            lits = [e[1] for e in ev if e[0] == "lit"]
            T["Call"] = {"child": recs[0][2], "sep": [l.strip() for l in lits if "," in l], "close": ")" in lits}
        elif ptxt.startswith("Expr::Of"):
            ev = printer_events(a["body"], F)
            recs = [e for e in ev if e[0] == "rec"]
            parens = [e for e in ev if e[0].startswith("paren")]
            if len(recs) != 1 or len(parens) != 2 or parens[0][1] != parens[1][1]:
                raise AnchorLost("%s: Of arm shape %s" % (path, ev))
            T["Of"] = {"paren": parens[0][1], "child": recs[0][2]}
    need = {"BinOp", "Pos", "Neg", "Deg", "Mul", "Call", "Of"}
    if set(T) != need:
        raise AnchorLost("%s: printer arms found %s, need %s" % (path, sorted(T), sorted(need)))
    # the top-level call starts at ...
    tops = [c for c in hir_walk(h["body"]) if False]
    return fn, T


def factor_table(F):
    """Precedence::factor: which node kinds get which precedence as a non-first factor."""
    fn = F.find(CORE, "ast::expr::Precedence::factor")
    h = F.hir_of(fn)
    ms = [m for m in hir_walk(h["body"]) if m.get("k") == "Match" and m.get("src") == "Normal"]
    if len(ms) != 1:
        raise AnchorLost("Precedence::factor is not a single match")
    out = {}
    for a in ms[0]["arms"]:
        ptxt = H.pat_str(a["pat"])
        if a["body"].get("k") != "Path":
            raise AnchorLost("Precedence::factor: arm body is not a Precedence variant")
        val = a["body"]["r"]["path"].split("::")[-1]
        if ptxt == "_":
            out["_"] = val
            continue
        kinds = [k for k in ("Positive", "Negative") if ("UnaryOpType::" + k) in ptxt]
        if not kinds or "Expr::UnaryOp" not in ptxt or "Degree" in ptxt:
            raise AnchorLost("Precedence::factor: unrecognised arm pattern %s" % ptxt)
        for k in kinds:
            out[k] = val
    if "_" not in out:
        raise AnchorLost("Precedence::factor has no default arm")
    return out


def top_prec(F, path):
    """Precedence passed by the outermost recurse call (in the enclosing fmt / from)."""
    fn = F.find(CORE, path)
    h = F.hir_of(fn)
    calls = [c for c in hir_walk(h["body"]) if c.get("k") == "Call" and c["f"].get("k") == "Path" and c["f"]["r"].get("path", "").endswith("recurse") and c["args"][2].get("k") == "Path"]
    if len(calls) != 1:
        raise AnchorLost("%s: outer recurse call not found" % path)
    return calls[0]["args"][2]["r"]["path"].split("::")[-1]


# =========================================================================================
# extraction: parser ladder and lexer
# =========================================================================================
def parse_calls(e):
    """parse_* function calls in an expression, in order: [name]."""
    out = []
    for c in hir_walk(e):
        if c.get("k") == "Call" and c["f"].get("k") == "Path":
            p = c["f"]["r"].get("path", "")
            if p.startswith(TQ + "parse_"):
                out.append(p[len(TQ):])
    return out


def token_names(pat):
    pats = pat["alts"] if pat["pk"] == "or" else [pat]
    out = []
    for p in pats:
        q = p
        while q["pk"] in ("ref", "deref"):
            q = q["sub"]
        if q["pk"] in ("tuplestruct", "struct"):
            n = q["path"].get("path", "")
        elif q["pk"] == "expr":
            n = q["e"].get("path", "")
        elif q["pk"] == "wild":
            n = "_"
        elif q["pk"] == "bind":
            n = "_" if "sub" not in q else "?"
        else:
            n = "?"
        out.append(n.split("::")[-1] if n not in ("_", "?") else n)
    return out


def ctor_of(e, bound=None):
    """Which Expr node an arm builds: ('bin', BinOpType) | ('push',) | ('suffix',) | ('break',) | ...
    `bound` = (name, operator): the arm is entered with `name` bound to that operator (token_arms)."""
    calls = []
    for c in hir_walk(e):
        if c.get("k") == "Call" and c["f"].get("k") == "Path":
            p = c["f"]["r"].get("path", "")
            if p.startswith("ast::expr::Expr::new_"):
                calls.append((p.split("::")[-1], c))
    named = {"new_add": "Add", "new_sub": "Sub", "new_frac": "Frac", "new_pow": "Pow", "new_equals": "Equals"}
    for n, c in calls:
        if n in named:
            return ("bin", named[n], c)
        if n == "new_bin":
            op = c["args"][0]
            if op.get("k") == "Path" and op["r"].get("res") == "local":
                if bound and op["r"].get("name") == bound[0]:
                    return ("bin", bound[1], c)
                return ("other", None, None)
            if op.get("k") == "Path":
                return ("bin", op["r"]["path"].split("::")[-1], c)
        if n == "new_suffix":
            return ("suffix", None, c)
    if [m for m in H.method_calls(e, "push")]:
        return ("push", None, None)
    if [b for b in hir_walk(e) if b.get("k") in ("Break", "Ret")]:
        return ("break", None, None)
    return ("other", None, None)


def operator_table_helper(F, call):
    """`helper(&token)` where helper is a function of the parser module whose body is one match from tokens to
    `Some(BinOpType::X)` (anything else `None`): {token: X}.  None if `call` is not such a call."""
    if call.get("k") != "Call" or call["f"].get("k") != "Path":
        return None
    p = call["f"]["r"].get("path", "")
    if not p.startswith(TQ) or "BinOpType" not in call.get("ty", ""):
        return None
    try:
        h = F.hir_of(F.find(CORE, p))
    except Exception:
        return None
    ms = token_match(h)
    if len(ms) != 1:
        return None
    table = {}
    for a in ms[0]["arms"]:
        toks = token_names(a["pat"])
        b = a["body"]
        while b.get("k") == "Block" and not b["stmts"] and b.get("expr"):
            b = b["expr"]
        if b.get("k") == "Call" and b["f"].get("k") == "Path" and b["f"]["r"].get("path", "").endswith("Option::Some") and \
                b["args"][0].get("k") == "Path" and "BinOpType::" in b["args"][0]["r"].get("path", ""):
            for t in toks:
                table[t] = b["args"][0]["r"]["path"].split("::")[-1]
        elif b.get("k") == "Path" and b["r"].get("path", "").endswith("Option::None") and toks == ["_"]:
            pass
        else:
            return None
    return table or None


def token_arms(F, h):
    """The arms of a level of the ladder: [(tokens, body, operator or None)] - the arms of its token match, and for
    `if let Some(op) = helper(&token) { body }` one arm per line of the helper's table, with that line's operator for `op`."""
    out = []
    ms = token_match(h)
    for e in hir_walk(h["body"]):
        if e.get("k") == "If" and e["cond"].get("k") == "Let" and "Option::Some" in H.pat_str(e["cond"]["pat"]):
            table = operator_table_helper(F, e["cond"]["init"])
            subs = e["cond"]["pat"].get("subs", [])
            if table and len(subs) == 1 and subs[0].get("pk") == "bind":
                for t, op in table.items():
                    out.append(([t], e["then"], (subs[0]["name"], op)))
    if len(ms) == 1:
        for a in ms[0]["arms"]:
            out.append((token_names(a["pat"]), a["body"], None))
        return out
    if ms:
        return None
    # no match over tokens: `if let Token::X = peeked { .. } else { .. }` is the one-arm match with a `_` arm
    ifs = [e for e in hir_walk(h["body"]) if e.get("k") == "If" and e["cond"].get("k") == "Let" and "Token::" in H.pat_str(e["cond"]["pat"])
           and e.get("else") is not None]
    ifs = [e for e in ifs if not any(e is not o and any(x is e for x in hir_walk(o)) for o in ifs)]      # outermost only
    if len(ifs) != 1:
        return None if not out else out
    out.append((token_names(ifs[0]["cond"]["pat"]), ifs[0]["then"], None))
    out.append((["_"], ifs[0]["else"], None))
    return out


def token_match(fn_hir):
    """The match over the peeked/next token of a parse_* function (the one with Token:: arms)."""
    ms = [m for m in hir_walk(fn_hir["body"]) if m.get("k") == "Match" and m.get("src") == "Normal" and any(any(t not in ("_", "?") for t in token_names(a["pat"])) for a in m["arms"])
          and any("Token" in H.pat_str(a["pat"]) for a in m["arms"])]
    return ms


def parser_tables(F):
    P = {}
    hir = {}
    for name in ("parse_eq", "parse_add", "parse_div", "parse_juxt", "parse_frac", "parse_pow", "parse_suffix", "parse_term", "parse_function", "parse_expr"):
        fn = F.find(CORE, TQ + name)
        hir[name] = (fn, F.hir_of(fn))
    # parse_expr -> parse_eq
    pe = parse_calls(hir["parse_expr"][1]["body"])
    if pe != ["parse_eq"]:
        raise AnchorLost("parse_expr does not simply call parse_eq (%s)" % pe)

    def single(name, self_ok=False):
        fn, h = hir[name]
        body = h["body"]
        lets = [s for k, s in H.stmts_of(body) if k == "let"]
        if not lets or not parse_calls(lets[0]["init"]):
            raise AnchorLost("%s: no `let left = parse_*(iter)` first statement" % name)
        lower = parse_calls(lets[0]["init"])[0]
        loops = [l for l in hir_walk(body) if l.get("k") == "Loop" and l.get("src") == "Loop"]
        arms = token_arms(F, h)
        if arms is None:
            raise AnchorLost("%s: expected one token match, found %d" % (name, len(token_match(h))))
        ops = {}
        for toks, abody, bound in arms:
            a = {"body": abody}
            kind, op, call = ctor_of(a["body"], bound)
            if kind == "bin":
                rc = parse_calls(a["body"])
                if len(rc) != 1:
                    raise AnchorLost("%s: arm %s parses %d operands" % (name, toks, len(rc)))
                # operand order: new_x(left, right)
                args = call["args"][-2:]
                lname = H.expr_str(args[0], 30)
                rtxt = H.expr_str(args[1], 60)
                for t in toks:
                    ops[t] = {"op": op, "right": rc[0], "left_is": lname, "right_is": rtxt}
            elif toks == ["_"]:
                pass
            else:
                raise AnchorLost("%s: arm %s does not build a binary node (%s)" % (name, toks, kind))
        return {"lower": lower, "loop": bool(loops), "ops": ops}

    P["eq"] = single("parse_eq")
    P["add"] = single("parse_add")
    P["frac"] = single("parse_frac")
    P["pow"] = single("parse_pow")
    for lvl in ("eq", "frac", "pow"):
        if P[lvl]["loop"]:
            raise AnchorLost("parse_%s unexpectedly loops" % lvl)
    if not P["add"]["loop"]:
        raise AnchorLost("parse_add does not loop (left-associative chain expected)")
    # parse_suffix
    fn, h = hir["parse_suffix"]
    lets = [s for k, s in H.stmts_of(h["body"]) if k == "let"]
    P["suffix"] = {"lower": parse_calls(lets[0]["init"])[0] if lets else None, "tokens": sorted(set(t for m in token_match(h) for a in m["arms"] for t in token_names(a["pat"]) if t not in ("_", "?", "Some")))}
    # parse_div: terms list
    fn, h = hir["parse_div"]
    lets = [s for k, s in H.stmts_of(h["body"]) if k == "let"]
    first = parse_calls(lets[0]["init"]) if lets else []
    arms = token_arms(F, h)
    if arms is None or not first:
        raise AnchorLost("parse_div: shape not recognised")
    ops = {}
    push = []
    for toks, abody, bound in arms:
        a = {"body": abody}
        kind, op, call = ctor_of(a["body"], bound)
        rc = parse_calls(a["body"])
        if kind == "bin":
            ltxt = H.expr_str(call["args"][-2], 80)
            # left operand must be the product of ALL accumulated terms
            lets_a = [s for k, s in H.stmts_of(a["body"]) if k == "let" and s["pat"].get("name") == "left"]
            left_src = H.expr_str(lets_a[0]["init"], 120) if lets_a else ltxt
            whole = "new_mul(terms.drain(" in left_src and "collect" in left_src
            for t in toks:
                ops[t] = {"op": op, "right": rc[-1] if rc else None, "left_all_terms": whole, "left_src": left_src}
        elif kind == "push":
            for t in toks:
                push.append((t, rc[0] if rc else None))
        elif toks == ["_"]:
            pass
        else:
            raise AnchorLost("parse_div: arm %s kind %s" % (toks, kind))
    tail = H.expr_str([n for k, n in H.stmts_of(h["body"]) if k == "tail"][0], 200) if [n for k, n in H.stmts_of(h["body"]) if k == "tail"] else ""
    P["div"] = {"lower": first[0], "ops": ops, "push": push, "collapse": "terms.len() Eq 1" in tail and "new_mul(terms)" in tail}
    # parse_juxt
    fn, h = hir["parse_juxt"]
    lets = [s for k, s in H.stmts_of(h["body"]) if k == "let"]
    first = parse_calls(lets[0]["init"]) if lets else []
    ms = token_match(h)
    if not first:
        raise AnchorLost("parse_juxt: shape not recognised")
    juxt_arms = None
    if len(ms) == 1 and not any(a["body"].get("k") == "Lit" for a in ms[0]["arms"]):
        juxt_arms = [(token_names(a["pat"]), a["body"]) for a in ms[0]["arms"]]
    else:
        # `while !matches!(peeked, A | B | ..) { if let Token::Degree(d) = .. { suffix } else { push } }`: the tokens of the
        # matches! end the run (they are the `=> break` arm), the if-let is the Degree arm and its else the `_` arm
        wl = [l for l in hir_walk(h["body"]) if l.get("k") == "Loop" and l.get("src") == "While"]
        for l in wl:
            conds = [e for e in hir_walk(l["body"]) if e.get("k") == "If" and e["cond"].get("k") == "Unary" and e["cond"].get("op") == "Not"
                     and any(m.get("k") == "Match" and any("Token::" in H.pat_str(a["pat"]) for a in m["arms"]) for m in hir_walk(e["cond"]))]
            if len(conds) != 1 or conds[0].get("else") is None or not [b for b in hir_walk(conds[0]["else"]) if b.get("k") == "Break"]:
                continue
            mm = [m for m in hir_walk(conds[0]["cond"]) if m.get("k") == "Match"][0]
            true_arms = [a for a in mm["arms"] if a["body"].get("k") == "Lit" and a["body"]["lit"].get("v") is True]
            if len(true_arms) != 1:
                continue
            inner = [e for e in hir_walk(conds[0]["then"]) if e.get("k") == "If" and e["cond"].get("k") == "Let" and "Token::" in H.pat_str(e["cond"]["pat"]) and e.get("else") is not None]
            if len(inner) != 1:
                continue
            dp = inner[0]["cond"]["pat"]
            for _ in range(3):     # `Some(&Token::Degree(d))`: the token pattern inside
                while dp["pk"] in ("ref", "deref") and dp.get("sub"):
                    dp = dp["sub"]
                if dp["pk"] == "tuplestruct" and dp["path"].get("path", "").endswith("Option::Some") and dp.get("subs"):
                    dp = dp["subs"][0]
            juxt_arms = [(token_names(true_arms[0]["pat"]), {"k": "Break"}),
                         (token_names(dp), inner[0]["then"]),
                         (["_"], inner[0]["else"])]
    if juxt_arms is None:
        raise AnchorLost("parse_juxt: shape not recognised")
    brk, deg, default = [], None, None
    for toks, abody in juxt_arms:
        a = {"body": abody}
        kind, op, call = ctor_of(a["body"])
        if kind == "break":
            brk += toks
        elif kind == "suffix":
            whole = "new_mul(terms)" in H.expr_str(call, 100)
            deg = {"tokens": toks, "wraps_all_terms": whole}
        elif kind == "push" and toks == ["_"]:
            default = parse_calls(a["body"])[0]
        else:
            raise AnchorLost("parse_juxt: arm %s kind %s" % (toks, kind))
    tail = H.expr_str([n for k, n in H.stmts_of(h["body"]) if k == "tail"][0], 200)
    P["juxt"] = {"lower": first[0], "break": sorted(brk), "degree": deg, "default": default, "collapse": "terms.len() Eq 1" in tail and "new_mul(terms)" in tail}
    # parse_term
    fn, h = hir["parse_term"]
    ms = [m for m in token_match(h) if any("Token::LPar" in H.pat_str(a["pat"]) for a in m["arms"])]
    if not ms:
        raise AnchorLost("parse_term: main token match not found")
    term = {}
    for a in ms[0]["arms"]:
        toks = token_names(a["pat"])
        txt = H.expr_str(a["body"], 400)
        pc = parse_calls(a["body"])
        if toks == ["Plus"]:
            term["Plus"] = {"node": "Pos" if "new_plus" in txt else "?", "operand": pc[0] if pc else None}
        elif toks == ["Minus"]:
            term["Minus"] = {"node": "Neg" if "new_negate" in txt else "?", "operand": pc[0] if pc else None}
        elif toks == ["LPar"]:
            term["LPar"] = {"inner": pc[0] if pc else None, "closes": "Token::RPar" in H.pat_str_all(a["body"]) if hasattr(H, "pat_str_all") else True}
        elif toks == ["Ident"]:
            # of-operand and function call
            ofc = [c for c in hir_walk(a["body"]) if c.get("k") == "Call" and c["f"].get("k") == "Path" and c["f"]["r"].get("path", "").endswith("Expr::new_of")]
            term["of"] = {"operand": parse_calls(ofc[0])[0] if ofc and parse_calls(ofc[0]) else None}
            term["function"] = "parse_function" in pc
    P["term"] = term
    # parse_function
    fn, h = hir["parse_function"]
    ms = token_match(h)
    pf = {}
    for m in ms:
        for a in m["arms"]:
            toks = token_names(a["pat"])
            if toks == ["LPar"] and "paren_args" not in pf:
                pcs = parse_calls(a["body"])
                pf["paren_args"] = pcs[0] if pcs else None
                pf["sep"] = sorted(set(t for mm in hir_walk(a["body"]) if mm.get("k") == "Match" for aa in mm["arms"] for t in token_names(aa["pat"]) if t in ("Comma",)))
            elif toks == ["_"] and "bare_arg" not in pf:
                pcs = parse_calls(a["body"])
                if pcs:
                    pf["bare_arg"] = pcs[0]
    P["function"] = pf
    # new_mul's singleton collapse
    nm = F.find(CORE, "ast::expr::Expr::new_mul")
    P["new_mul_collapse"] = "len() Eq 1" in "\n".join(hirpp.tree(F.hir_of(nm)["body"])) or "len() Eq 1" in hirpp.expr(F.hir_of(nm)["body"])
    return P


def lexer_map(F):
    """char / keyword -> Token variant for the symbols the printer emits."""
    fn = [f for f in F.by_crate[CORE] if f.path == "<parsing::text_query::TokenIterator<'a> as core::iter::traits::iterator::Iterator>::next"]
    if len(fn) != 1:
        raise AnchorLost("text_query lexer not found")
    h = F.hir_of(fn[0])
    out = {}
    for m in hir_walk(h["body"]):
        if m.get("k") != "Match":
            continue
        for a in m["arms"]:
            def keys_of(p):
                """the literal(s) an arm pattern tests: `"mod"`, `"to" | "in"`, or one literal component of a tuple pattern whose
                other components test something else (`(None, "mod")` when the word is matched next to a table lookup)"""
                if p["pk"] == "expr" and "v" in p["e"]:
                    return [p["e"]["v"]]
                if p["pk"] == "or":
                    return [k for q in p["alts"] for k in keys_of(q)]
                if p["pk"] == "tuple":
                    with_lits = [ks for ks in (keys_of(q) for q in p.get("subs", [])) if ks]
                    return with_lits[0] if len(with_lits) == 1 else []
                if p["pk"] in ("ref", "deref") and p.get("sub"):
                    return keys_of(p["sub"])
                return []
            keys = keys_of(a["pat"])
            if not keys:
                continue
            toks = []
            for x in hir_walk(a["body"]):
                if x.get("k") == "Path" and x["r"].get("path", "").startswith("parsing::text_query::Token::"):
                    toks.append(x["r"]["path"].split("::")[-1])
            for k in keys:
                if isinstance(k, str):
                    guard = H.expr_str(a["guard"], 80) if a.get("guard") else ""
                    out.setdefault(k + ("<" if "'<'" in guard else ">" if "'>'" in guard else ""), toks)
    return out


# =========================================================================================
# the models (parameterised only by the tables)
# =========================================================================================
BINOPS = ["Add", "Sub", "Frac", "Pow", "Equals", "ShiftL", "ShiftR", "Mod", "And", "Or", "Xor"]


class Model:
    def __init__(self, order, FROM, NEXT, PT, top, PA, SYMTOK, TABLES=None):
        self.TABLES = TABLES or {}
        self.P = {n: i for i, n in enumerate(order)}
        self.FROM, self.NEXT, self.PT, self.top, self.PA, self.SYMTOK = FROM, NEXT, PT, top, PA, SYMTOK
        self.tok_of_op = {}
        for op in BINOPS:
            self.tok_of_op[op] = SYMTOK[op]

    # ---- printer (token space) ----
    def prec(self, spec, op=None, child=None):
        if spec == "from":
            return self.FROM[op]
        if spec == "next":
            return self.NEXT[op]
        if spec == "right":
            return self.TABLES["right"][op]
        if spec == "factor":
            f = self.TABLES["factor"]
            kind = {"P": "Positive", "N": "Negative"}.get(child[0]) if child is not None else None
            return f.get(kind, f["_"])
        if spec not in self.P:
            raise AnchorLost("model: unknown precedence spec `%s`" % spec)
        return spec

    def pr(self, t, prec=None):
        if prec is None:
            prec = self.top
        k = t[0]
        P = self.P
        if k == "U":
            return [("Ident", t[1])]
        if k == "B":
            op = t[1]
            e = self.PT["BinOp"]
            th = self.prec(e["paren"], op)
            s = self.pr(t[2], self.prec(e["left"], op)) + [self.tok_of_op[op]] + self.pr(t[3], self.prec(e["right"], op))
            return (["LPar"] + s + ["RPar"]) if P[prec] < P[th] else s
        if k in ("P", "N"):
            e = self.PT["Pos" if k == "P" else "Neg"]
            s = ["Plus" if k == "P" else "Minus"] + self.pr(t[1], self.prec(e["child"]))
            if e.get("paren") and P[prec] < P[e["paren"]]:
                return ["LPar"] + s + ["RPar"]
            return s
        if k == "D":
            e = self.PT["Deg"]
            s = self.pr(t[1], self.prec(e["child"])) + ["Degree"]
            return (["LPar"] + s + ["RPar"]) if P[prec] < P[e["paren"]] else s
        if k == "M":
            e = self.PT["Mul"]
            s = []
            for i, x in enumerate(t[1]):
                s += self.pr(x, self.prec(e["first"], child=x) if i == 0 else self.prec(e["rest"], child=x))
            return (["LPar"] + s + ["RPar"]) if P[prec] < P[e["paren"]] else s
        if k == "C":
            e = self.PT["Call"]
            s = [("Func", t[1]), "LPar"]
            for i, a in enumerate(t[2]):
                if i:
                    s.append("Comma")
                s += self.pr(a, self.prec(e["child"]))
            return s + ["RPar"]
        if k == "O":
            e = self.PT["Of"]
            s = [("Ident", t[1]), ("Ident", "of")] + self.pr(t[2], self.prec(e["child"]))
            return (["LPar"] + s + ["RPar"]) if P[prec] < P[e["paren"]] else s
        raise ValueError(k)

    # ---- parser ----
    def parse(self, toks):
        self.t = toks + ["Eof"]
        self.i = 0
        e = self.level("parse_eq")
        return e, self.peek() == "Eof"

    def peek(self):
        return self.t[self.i]

    def kind(self, tok):
        return tok[0] if isinstance(tok, tuple) else tok

    def next(self):
        x = self.t[self.i]
        if x != "Eof":
            self.i += 1
        return x

    def new_mul(self, xs):
        if self.PA["new_mul_collapse"] and len(xs) == 1:
            return xs[0]
        return ("M", list(xs))

    def level(self, name):
        PA = self.PA
        if name == "parse_expr":
            name = "parse_eq"
        if name in ("parse_eq", "parse_frac", "parse_pow", "parse_add"):
            spec = PA[name[6:]]
            left = self.level(spec["lower"])
            while True:
                k = self.kind(self.peek())
                if k in spec["ops"]:
                    self.next()
                    o = spec["ops"][k]
                    right = self.level(o["right"])
                    left = ("B", o["op"], left, right)
                    if not spec["loop"]:
                        return left
                else:
                    return left
        if name == "parse_suffix":
            return self.level(PA["suffix"]["lower"])   # `%` is never printed by the expression printer
        if name == "parse_div":
            spec = PA["div"]
            terms = [self.level(spec["lower"])]
            pushes = dict(spec["push"])
            while True:
                k = self.kind(self.peek())
                if k in spec["ops"]:
                    self.next()
                    o = spec["ops"][k]
                    left = self.new_mul(terms) if o["left_all_terms"] else terms.pop()
                    rest = [] if o["left_all_terms"] else terms
                    terms = rest + [("B", o["op"], left, self.level(o["right"]))]
                elif k in pushes:
                    self.next()
                    terms.append(self.level(pushes[k]))
                else:
                    break
            return terms[0] if (spec["collapse"] and len(terms) == 1) else ("M", terms)
        if name == "parse_juxt":
            spec = PA["juxt"]
            terms = [self.level(spec["lower"])]
            while True:
                k = self.kind(self.peek())
                if k in spec["break"] or k == "Eof":
                    break
                if spec["degree"] and k in spec["degree"]["tokens"]:
                    self.next()
                    inner = self.new_mul(terms) if spec["degree"]["wraps_all_terms"] else terms.pop()
                    rest = [] if spec["degree"]["wraps_all_terms"] else terms
                    terms = rest + [("D", inner)]
                else:
                    before = self.i
                    terms.append(self.level(spec["default"]))
                    if self.i == before:
                        return ("E", "no progress")
            return terms[0] if (spec["collapse"] and len(terms) == 1) else ("M", terms)
        if name == "parse_term":
            T = PA["term"]
            x = self.next()
            k = self.kind(x)
            if k == "Ident":
                if self.peek() == ("Ident", "of") and T.get("of", {}).get("operand"):
                    self.next()
                    return ("O", x[1], self.level(T["of"]["operand"]))
                return ("U", x[1])
            if k == "Func":
                f = PA["function"]
                if self.peek() == "LPar":
                    self.next()
                    args = []
                    while True:
                        if self.peek() == "RPar":
                            self.next()
                            break
                        if self.peek() == "Eof":
                            return ("E", "eof in call")
                        args.append(self.level(f["paren_args"]))
                        if self.peek() == "Comma":
                            self.next()
                        elif self.peek() == "RPar":
                            pass
                        else:
                            return ("E", "call")
                    return ("C", x[1], args)
                return ("C", x[1], [self.level(f["bare_arg"])])
            if k == "Plus" and "Plus" in T:
                return ("P", self.level(T["Plus"]["operand"]))
            if k == "Minus" and "Minus" in T:
                return ("N", self.level(T["Minus"]["operand"]))
            if k == "LPar":
                r = self.level(T["LPar"]["inner"])
                return r if self.next() == "RPar" else ("E", "rpar")
            return ("E", "term")
        raise AnchorLost("model: unknown parser level %s" % name)

    def roundtrip(self, t):
        toks = self.pr(t)
        e, eof = self.parse(toks)
        return (eof and norm(e) == norm(t)), toks


def norm(t):
    k = t[0]
    if k == "M":
        return ("M", tuple(norm(x) for x in t[1]))
    if k == "B":
        return ("B", t[1], norm(t[2]), norm(t[3]))
    if k in "NPD":
        return (k, norm(t[1]))
    if k == "O":
        return ("O", t[1], norm(t[2]))
    if k == "C":
        return ("C", t[1], tuple(norm(a) for a in t[2]))
    return tuple(t)


def show(toks):
    m = {"LPar": "(", "RPar": ")", "Plus": "+", "Minus": "-", "Slash": "/", "Caret": "^", "Equals": "=", "DoubleLAngle": "<<", "DoubleRAngle": ">>",
         "KeywordMod": "mod", "KeywordAnd": "and", "KeywordOr": "or", "KeywordXor": "xor", "Comma": ",", "Degree": "°C", "Asterisk": "*", "Pipe": "|"}
    return " ".join(x[1] if isinstance(x, tuple) else m.get(x, x) for x in toks)


def kindname(t):
    return {"U": "leaf", "N": "Neg", "P": "Pos", "D": "Deg", "M": "Mul", "O": "Of"}.get(t[0]) or (t[1] if t[0] == "B" else ("Call%d" % len(t[2])))


def children(t):
    k = t[0]
    if k == "B":
        return [("L", t[2]), ("R", t[3])]
    if k in "NPD":
        return [("x", t[1])]
    if k == "O":
        return [("subj", t[2])]
    if k == "M":
        return [("f%d" % i, x) for i, x in enumerate(t[1])]
    if k == "C":
        return [("a%d" % i, x) for i, x in enumerate(t[2])]
    return []


def set_child(t, idx, new):
    k = t[0]
    if k == "B":
        return ("B", t[1], new, t[3]) if idx == 0 else ("B", t[1], t[2], new)
    if k in "NPD":
        return (k, new)
    if k == "O":
        return ("O", t[1], new)
    if k == "M":
        xs = list(t[1])
        xs[idx] = new
        return ("M", xs)
    if k == "C":
        xs = list(t[2])
        xs[idx] = new
        return ("C", t[1], xs)


def shapes():
    L = ("U", "u")
    out = [("B", op, L, L) for op in BINOPS]
    out += [("N", L), ("P", L), ("D", L), ("O", "prop", L), ("C", "sqrt", [L]), ("M", [L, L]), ("C", "hypot", [L, L])]
    return out


def relabel(t):
    n = [0]

    def go(t):
        k = t[0]
        if k == "U":
            n[0] += 1
            return ("U", "u%d" % n[0])
        if k == "B":
            return ("B", t[1], go(t[2]), go(t[3]))
        if k in "NPD":
            return (k, go(t[1]))
        if k == "O":
            return ("O", t[1], go(t[2]))
        if k == "M":
            return ("M", [go(x) for x in t[1]])
        if k == "C":
            return ("C", t[1], [go(a) for a in t[2]])
    return go(t)


def gen(depth):
    L = ("U", "u")
    if depth == 0:
        yield L
        return
    yield L
    subs = list(gen(depth - 1))
    for op in BINOPS:
        for l in subs:
            for r in subs:
                yield ("B", op, l, r)
    for x in subs:
        yield ("N", x)
        yield ("P", x)
        yield ("D", x)
        yield ("O", "prop", x)
        yield ("C", "sqrt", [x])
    for l in subs:
        for r in subs:
            yield ("M", [l, r])
            yield ("C", "hypot", [l, r])


# =========================================================================================
def run(chk, F):
    chk.explanation = (
        "Exhaustive decision at the table level: the printer table (Precedence declaration order, Precedence::from/next, the "
        "recurse arms of Display for Expr and of ExprReply::from with the precedence passed to every child and every "
        "parenthesisation threshold, BinOpType::symbol) and the parser table (for each parse_* function of text_query.rs: "
        "lower level, token arms, node built, operand functions, loop/self-call, juxtaposition break set, n-ary product rule, "
        "singleton collapse, of/unary/function operand levels) plus the lexer's symbol->token map are extracted from the HIR of "
        "/repo's current tree; the extractor validates each body's skeleton and refuses otherwise. A generic recursive-printer "
        "model and a generic ladder-parser model parameterised only by these facts are run in token space over every abstract "
        "tree of depth <= 2 over 18 node kinds and every depth-3 spine; each tree is printed, re-parsed and compared. Failing "
        "trees are reported as minimal (parent, slot, child) pairs. Leaf spelling (identifiers needing quotes, numerals, dates) "
        "is outside this model.")
    chk.assume("leaves are plain identifiers; numerals and date literals are excluded by the property statement")
    chk.guard("leaf-names", "Display for Expr", lambda: leaf_names(chk, F))
    # leaf tokens: the symbol Display prints for each temperature scale must be one the lexer reads back as that scale
    import c10
    chk.guard("aliases", "lexer", lambda: c10.aliases(chk, F))
    tables = chk.guard("extraction", "tables", lambda: extract(chk, F))
    if not tables:
        return
    order, FROM, NEXT, SYM, PT_disp, PT_reply, top_d, top_r, PA, LEX, SYMTOK = tables
    chk.extra["printer_table"] = {"order": order, "from": FROM, "next": NEXT, "display": str(PT_disp), "top": top_d}
    chk.extra["parser_table"] = {k: (v if not isinstance(v, dict) else {kk: str(vv) for kk, vv in v.items()}) for k, v in PA.items()}
    chk.decide(PT_disp == PT_reply and top_d == top_r, "printer-siblings-agree", "rink_core::Display for Expr / ExprReply::from", "same-table", "",
               "Display for Expr and ExprReply::from use the same precedences and parenthesisation thresholds",
               "the two printers disagree: Display %s (top %s) vs ExprReply %s (top %s)" % (PT_disp, top_d, PT_reply, top_r))
    for name, PT, top in (("Display", PT_disp, top_d),) + ((("ExprReply", PT_reply, top_r),) if PT_reply != PT_disp else ()):
        chk.guard("roundtrip", name, lambda PT=PT, top=top, name=name: decide(chk, name, order, FROM, NEXT, PT, top, PA, SYMTOK))


def extract(chk, F):
    adt = F.adt(CORE, "ast::expr::Precedence")
    order = [v["name"] for v in adt["variants"]]
    ords = [f for f in F.by_crate[CORE] if f.path == "<ast::expr::Precedence as core::cmp::PartialOrd>::partial_cmp"]
    if not ords or not ords[0].raw.get("from_expansion"):
        raise AnchorLost("Precedence's PartialOrd is not the derived declaration order")
    FROM = match_table(F, "ast::expr::Precedence::from")
    NEXT = match_table(F, "ast::expr::Precedence::next")
    SYM = match_table(F, "ast::BinOpType::symbol")
    binadt = F.adt(CORE, "ast::BinOpType")
    ops = [v["name"] for v in binadt["variants"]]
    for tname, T in (("from", FROM), ("next", NEXT), ("symbol", SYM)):
        chk.decide(sorted(T) == sorted(ops), "extraction", "rink_core::ast", "table-covers-all-operators:" + tname, "", "%s has an entry for each of the %d operators" % (tname, len(ops)),
                   "%s covers %s, operators are %s" % (tname, sorted(T), sorted(ops)))
    if sorted(ops) != sorted(BINOPS):
        raise AnchorLost("BinOpType variants changed: %s" % ops)
    _, PT_disp = printer_table(F, "<ast::expr::Expr as core::fmt::Display>::fmt::recurse")
    _, PT_reply = printer_table(F, "output::reply::ExprReply::from::recurse")
    top_d = top_prec(F, "<ast::expr::Expr as core::fmt::Display>::fmt")
    top_r = top_prec(F, "output::reply::ExprReply::from")
    for t in (PT_disp, PT_reply):
        t["Mul"].pop("special", None)
    TABLES = {}
    used = set()
    for PT in (PT_disp, PT_reply):
        for e in PT.values():
            for v in e.values():
                if isinstance(v, str):
                    used.add(v)
    if "right" in used:
        TABLES["right"] = match_table(F, "ast::expr::Precedence::right")
        chk.decide(sorted(TABLES["right"]) == sorted(ops), "extraction", "rink_core::ast", "table-covers-all-operators:right", "", "right has an entry for each operator", "Precedence::right covers %s" % sorted(TABLES["right"]))
    if "factor" in used:
        TABLES["factor"] = factor_table(F)
    PA = parser_tables(F)
    PA["_tables"] = TABLES
    LEX = lexer_map(F)
    # symbol -> token through the lexer
    SYMTOK = {}
    for op, s in SYM.items():
        key = s.strip()
        if key in ("<<", ">>"):
            toks = LEX.get(key[0] + key[0])
        elif len(key) == 1:
            toks = LEX.get(key)
        else:
            toks = LEX.get(key)
        tok = None
        if toks:
            # the arm may produce several tokens ('*' -> Caret for `**`, '-' -> DashArrow for `->`); the plain one is last
            tok = toks[-1]
        SYMTOK[op] = tok
        chk.decide(tok is not None, "extraction", "rink_core::lexer", "symbol-lexes:" + op, "", "`%s` lexes to Token::%s" % (key, tok), "the printed symbol `%s` of %s is not produced by any lexer arm" % (key, op))
    # every operator token is handled by exactly one parser level with the same operator
    handled = {}
    for lvl in ("eq", "add", "frac", "pow", "div"):
        for tok, o in PA[lvl]["ops"].items():
            handled.setdefault(tok, []).append((lvl, o["op"]))
    for op in BINOPS:
        tok = SYMTOK.get(op)
        hs = handled.get(tok, [])
        ok = any(o == op for _, o in hs)
        chk.decide(ok, "extraction", "rink_core::parser", "token-builds-same-operator:" + op, "", "Token::%s builds %s in parse_%s" % (tok, op, hs[0][0] if hs else "?"),
                   "the token printed for %s (%s) is parsed as %s" % (op, tok, hs))
    return order, FROM, NEXT, SYM, PT_disp, PT_reply, top_d, top_r, PA, LEX, SYMTOK


def decide(chk, name, order, FROM, NEXT, PT, top, PA, SYMTOK):
    M = Model(order, FROM, NEXT, PT, top, PA, SYMTOK, PA.get("_tables"))
    FK = "rink_core::" + name
    # depth <= 2
    trees = [relabel(t) for t in gen(2)]
    pairs = {}
    nfail = 0
    for t in trees:
        ok, toks = M.roundtrip(t)
        if not ok:
            nfail += 1
        ch = children(t)
        nl = [(i, s, c) for i, (s, c) in enumerate(ch) if c[0] != "U"]
        if len(nl) == 1 and all(cc[0] == "U" for _, cc in children(nl[0][2])):
            i, s, c = nl[0]
            pairs.setdefault((kindname(t), s, kindname(c)), []).append((ok, toks, t))
    bad = sorted(k for k, v in pairs.items() if not all(o for o, _, _ in v))
    for k in sorted(pairs):
        v = pairs[k]
        ok = all(o for o, _, _ in v)
        ex = next((x for x in v if not x[0]), v[0])
        e2, _ = M.parse(ex[1])
        chk.decide(ok, "roundtrip", FK, "pair:%s/%s/%s" % k, "",
                   "`%s` re-parses to the same tree" % show(ex[1]),
                   "%s as the %s operand of %s prints as `%s`, which re-parses to a different tree (%s)" % (k[2], k[1], k[0], show(ex[1]), brief(e2)))
    # depth-3 spines: only families not explained by a failing depth-2 pair
    badset = set(bad)
    sh = shapes()
    novel = {}
    nsp = 0
    for a in sh:
        for i in range(len(children(a))):
            for b in sh:
                for j in range(len(children(b))):
                    for c in sh:
                        t = relabel(set_child(a, i, set_child(b, j, c)))
                        nsp += 1
                        ok, toks = M.roundtrip(t)
                        if ok:
                            continue
                        p1 = (kindname(a), children(a)[i][0], kindname(b))
                        p2 = (kindname(b), children(b)[j][0], kindname(c))
                        if p1 in badset or p2 in badset:
                            continue
                        novel.setdefault((p1, p2), (toks, t))
    fam = {}
    for (p1, p2), (toks, t) in novel.items():
        fam.setdefault((p1[0] if p1[0] not in BINOPS else "binop", p1[1], p1[2], p2[1], p2[2] if p2[2] not in BINOPS else "binop"), []).append((p1, p2, toks))
    for fk_, items in sorted(fam.items()):
        p1, p2, toks = items[0]
        chk.finding("roundtrip", FK, "spine:%s/%s/%s/%s/%s" % fk_, "",
                    "depth-3 only: %s under %s(%s) under %s(%s) prints as `%s`, which re-parses differently (%d such spines)" % (p2[2], p2[0], p2[1], p1[0], p1[1], show(toks), len(items)))
    if not fam:
        chk.ok("roundtrip", FK, "spines", "", "all %d depth-3 spines re-parse to the same tree (or are explained by a failing depth-2 pair)" % nsp)
    chk.extra.setdefault("model_runs", {})[name] = {"trees_depth_le_2": len(trees), "failing_trees": nfail, "pairs": len(pairs), "failing_pairs": len(bad), "spines": nsp,
                                                    "novel_spine_families": len(fam), "exhaustive": True}
    chk.samples.append({"example_trees": [show(M.pr(t)) for t in trees[1:400:37]]})
    if len(pairs) < 400:
        chk.anchor_lost("roundtrip", FK, "only %d (parent, slot, child) pairs enumerated, expected >= 400" % len(pairs))


def brief(t):
    k = t[0]
    if k == "U":
        return t[1]
    if k == "B":
        return "%s(%s, %s)" % (t[1], brief(t[2]), brief(t[3]))
    if k in "NPD":
        return "%s(%s)" % ({"N": "Neg", "P": "Pos", "D": "Deg"}[k], brief(t[1]))
    if k == "O":
        return "Of(%s)" % brief(t[2])
    if k == "M":
        return "Mul[%s]" % ", ".join(brief(x) for x in t[1])
    if k == "C":
        return "%s(%s)" % (t[1], ", ".join(brief(a) for a in t[2]))
    return str(t)


def leaf_names(chk, F):
    """Names are leaves of the printed text too: unit names from definition files can be keywords of the query grammar (`in`,
    `to`, `per`) or contain characters the identifier rule does not accept, and property names likewise.  The printer must
    write a name through a routine that checks it against the query lexer and quotes it otherwise; quoted strings must be
    written with their quote character escaped."""
    from facts import hir_walk
    fn = [f for f in F.by_crate[CORE] if f.path == "<ast::expr::Expr as core::fmt::Display>::fmt::recurse"]
    if len(fn) != 1:
        raise AnchorLost("Display for Expr: recurse not found")
    fn = fn[0]
    h = F.hir_of(fn)
    fk = "rink_core::<ast::expr::Expr as Display>::fmt::recurse"
    ms = [m for m in hir_walk(h["body"]) if m.get("k") == "Match" and m.get("src") == "Normal" and any("Expr::Unit" in H.pat_str(a["pat"]) for a in m["arms"])]
    if not ms:
        raise AnchorLost("Display for Expr: match over Expr not found")

    def checked_writer(call):
        """the callee re-lexes the name (TokenIterator) before deciding how to write it"""
        if call.get("k") != "Call" or call["f"].get("k") != "Path":
            return None
        pid = call["f"]["r"].get("id")
        g = F.fns.get(pid)
        if g is None:
            return None
        names = [t["callee"]["path"] for _, t in g.calls() if "callee" in t]
        return g.path if any(n.endswith("text_query::TokenIterator::<'a>::new") or n.endswith("TokenIterator::new") for n in names) else None
    # names are written in double quotes by write_name; the lexer's `"` arm reads `\<c>` as the character <c> itself, whatever it
    # is (identity escapes: there is no `\n` inside double quotes).  So the only escapes the writer may use are a backslash followed
    # by the very character it stands for; a fixed escape letter (`\n`, `\t`) reads back as that letter.
    wn = [f for f in F.by_crate[CORE] if f.path == "ast::expr::write_name"]
    if len(wn) == 1:
        import re as _re
        lits = [n["lit"]["v"] for n in hir_walk(F.hir_of(wn[0])["body"]) if n.get("k") == "Lit" and n["lit"].get("lit") == "str"]
        fixed = sorted({v for v in lits if _re.fullmatch(r"\\[A-Za-z0-9]", v)})
        chk.decide(not fixed, "leaf-names", "rink_core::ast::expr::write_name", "name-escapes-are-identity-escapes", wn[0].where(),
                   "inside double quotes the writer only puts a backslash in front of the character itself",
                   "write_name writes the fixed escape(s) %s inside double quotes; the lexer's `\"` arm has no such escapes and reads `\\t` as the letter t: "
                   "the name `ton<TAB>US` prints as \"ton\\tUS\" and reads back as `tontUS`" % fixed)
    else:
        raise AnchorLost("ast::expr::write_name not found")
    for a in ms[0]["arms"]:
        p = H.pat_str(a["pat"])
        if p.startswith("Expr::Unit"):
            b = a["body"]
            w = checked_writer(b)
            chk.decide(w is not None, "leaf-names", fk, "unit-name-written-checked", "%s:%d" % (fn.file, a["line"]),
                       "unit names are written by %s, which re-lexes the name and quotes it unless it reads back as that one identifier" % w,
                       "unit names are written verbatim (`%s`): `usgallon = 231 in^3` prints text in which `in` is the conversion keyword" % H.expr_str(b, 60))
        elif p.startswith("Expr::Of"):
            calls = [x for x in hir_walk(a["body"]) if checked_writer(x)]
            chk.decide(bool(calls), "leaf-names", fk, "property-name-written-checked", "%s:%d" % (fn.file, a["line"]),
                       "property names are written through the lexer-checked writer", "the property name of `x of y` is written verbatim")
        elif p.startswith("Expr::Quote"):
            txt = H.expr_str(a["body"], 400)
            loops = [x for x in hir_walk(a["body"]) if x.get("k") in ("Loop", "Match") and x.get("src") in ("ForLoop", "ForLoopDesugar")]
            chk.decide(bool(loops), "leaf-names", fk, "quoted-string-escaped", "%s:%d" % (fn.file, a["line"]),
                       "quoted strings are written character by character (quote and backslash escaped)",
                       "quoted strings are written verbatim between quotes: a `'` inside the string ends it when the text is read back")
            # writer/reader table agreement: inside '..' the lexer does not take three characters verbatim - the quote (ends the
            # string), the newline (an error) and the backslash (starts an escape; the escapes it knows are extracted below).  The
            # printer has to write the first two as escapes the lexer knows (a backslash cannot be written at all, and no parser
            # produces one).
            lex = [f for f in F.by_crate[CORE] if f.path == "<parsing::text_query::TokenIterator<'a> as core::iter::traits::iterator::Iterator>::next"]
            if len(lex) != 1:
                raise AnchorLost("text_query lexer not found")
            known = {}
            for m2 in hir_walk(F.hir_of(lex[0])["body"]):
                if m2.get("k") == "Match":
                    for a2 in m2["arms"]:
                        pt = a2["pat"]
                        # Some('<c>') => buf.push('<d>')
                        if pt.get("pk") == "tuplestruct" and pt["subs"] and pt["subs"][0].get("pk") == "expr" and pt["subs"][0]["e"].get("lit") == "char":
                            pushes = [c for c in H.method_calls(a2["body"], "push") if c["args"] and c["args"][0].get("k") == "Lit" and c["args"][0]["lit"].get("lit") == "char"]
                            if len(pushes) == 1 and "buf" in H.expr_str(pushes[0]["recv"]):
                                known[pt["subs"][0]["e"]["v"]] = pushes[0]["args"][0]["lit"]["v"]
            if not {"'", "n"} <= set(known):
                raise AnchorLost("lexer: escapes of the quote branch not found (%s)" % known)
            handled = set()
            written = []
            for n2 in hir_walk(a["body"]):
                if n2.get("pk") == "expr" and n2["e"].get("lit") == "char":
                    handled.add(n2["e"]["v"])
                if n2.get("k") == "Lit" and n2["lit"].get("lit") == "char":
                    handled.add(n2["lit"]["v"])
                if n2.get("k") == "Lit" and n2["lit"].get("lit") == "str" and str(n2["lit"]["v"]).startswith("\\") and len(n2["lit"]["v"]) == 2:
                    written.append(n2["lit"]["v"][1])
            need = {"'", "\n"}
            okw = all(w in known for w in written)
            chk.decide(need <= handled and okw and bool(written), "leaf-names", fk, "quote-escapes-agree-with-the-lexer", "%s:%d" % (fn.file, a["line"]),
                       "the printer escapes %s with escapes the lexer knows (%s)" % (sorted(repr(c) for c in handled), sorted(known)),
                       "inside quotes the lexer cannot read a raw quote or a raw newline (its escapes: %s); the printer handles %s and writes the escapes %s: "
                       "`'a\\nb'` is printed with a line break inside the quotes and does not read back" % (sorted(known), sorted(repr(c) for c in handled), written))
