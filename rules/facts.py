"""Fact extraction management and access layer.

Facts are produced by driver/ (rustc_private) from /repo's *current working tree*; they are
cached by a hash of the tree + driver so that the twenty property checks on one tree share
one extraction, and an edited tree is always re-extracted.  Nothing in /repo is executed.
"""
import fcntl
import glob
import hashlib
import json
import os
import shutil
import subprocess
import sys
import time

VERIF = os.path.dirname(os.path.dirname(os.path.abspath(__file__)))
REPO = os.environ.get("VERIF_REPO", "/repo")
WORK = os.environ.get("VERIF_WORK", "/var/tmp/rinkverif")
DRIVER_DIR = os.path.join(VERIF, "driver")
DRIVER_BIN = os.path.join(DRIVER_DIR, "target", "debug", "rinkfacts")
MEMBERS = ["rink_core", "rink_sandbox", "rink", "rink_irc", "rink_js"]


class AnchorLost(Exception):
    """The code no longer has the shape a rule needs in order to be evaluated."""


def _sha_files(root, files):
    h = hashlib.sha256()
    for f in sorted(files):
        p = os.path.join(root, f)
        if not os.path.isfile(p):
            continue
        h.update(f.encode())
        h.update(b"\0")
        with open(p, "rb") as fh:
            h.update(hashlib.sha256(fh.read()).digest())
    return h.hexdigest()


def repo_files(repo=REPO):
    out = subprocess.run(
        ["git", "-C", repo, "ls-files", "-co", "--exclude-standard"],
        capture_output=True, text=True, check=True).stdout.split("\n")
    return [f for f in out if f and not f.startswith("target/") and not f.startswith("web/")
            and not f.startswith("docs/")]


def tree_hash(repo=REPO):
    files = repo_files(repo)
    drv = [os.path.join("src", f) for f in os.listdir(os.path.join(DRIVER_DIR, "src"))] + ["Cargo.toml"]
    return _sha_files(repo, files)[:24] + "-" + _sha_files(DRIVER_DIR, drv)[:12]


def sysroot():
    return subprocess.run(["rustc", "+nightly", "--print", "sysroot"], capture_output=True, text=True,
                          check=True).stdout.strip()


def build_driver():
    env = dict(os.environ, CARGO_NET_OFFLINE="true")
    env.pop("RUSTFLAGS", None)
    r = subprocess.run(["cargo", "build", "--offline"], cwd=DRIVER_DIR, env=env, capture_output=True, text=True)
    if r.returncode != 0 or not os.path.exists(DRIVER_BIN):
        sys.stderr.write(r.stdout + r.stderr)
        raise RuntimeError("driver build failed")


def extract(repo=REPO, features=None, tag="ws", force=False, target_dir=None):
    """Run the driver over the workspace at `repo`; returns the directory with fact files."""
    os.makedirs(WORK, exist_ok=True)
    lock = open(os.path.join(WORK, ".lock"), "w")
    fcntl.flock(lock, fcntl.LOCK_EX)
    try:
        build_driver()
        th = tree_hash(repo)
        out = os.path.join(WORK, "facts", th + "-" + tag)
        done = os.path.join(out, ".complete")
        if os.path.exists(done) and not force:
            return out
        shutil.rmtree(out, ignore_errors=True)
        os.makedirs(out)
        tdir = target_dir or os.path.join(WORK, "target")
        # cargo's freshness cache would skip the wrapper: drop the members' fingerprints
        for d in glob.glob(os.path.join(tdir, "debug", ".fingerprint", "rink*")):
            shutil.rmtree(d, ignore_errors=True)
        env = dict(os.environ)
        env.update({
            "LD_LIBRARY_PATH": os.path.join(sysroot(), "lib"),
            "RUSTFLAGS": "-Zmir-opt-level=0 -Awarnings --cfg rustix_use_libc",
            "RUSTC_WORKSPACE_WRAPPER": DRIVER_BIN,
            "RINKFACTS_OUT": out,
            "CARGO_TARGET_DIR": tdir,
            "CARGO_NET_OFFLINE": "true",
            "CARGO_INCREMENTAL": "0",
        })
        cmd = ["cargo", "+nightly", "check", "--offline"]
        if features is None:
            cmd += ["--workspace"]
        else:
            cmd += features
        t0 = time.time()
        r = subprocess.run(cmd, cwd=repo, env=env, capture_output=True, text=True)
        if r.returncode != 0:
            sys.stderr.write(r.stdout[-4000:] + r.stderr[-8000:])
            raise RuntimeError("fact extraction failed: /repo does not compile under the driver")
        names = set()
        for f in glob.glob(os.path.join(out, "*.json")):
            names.add(os.path.basename(f).split("-build-")[0])
        need = MEMBERS if features is None else ["rink_core"]
        missing = [m for m in need if m not in names]
        if missing:
            raise RuntimeError("no fact file for member crate(s) %s (wrapper skipped?)" % missing)
        with open(done, "w") as fh:
            fh.write("%.1f\n" % (time.time() - t0))
        # keep the cache small: drop older extractions
        allf = sorted(glob.glob(os.path.join(WORK, "facts", "*")), key=os.path.getmtime)
        for old in allf[:-6]:
            shutil.rmtree(old, ignore_errors=True)
        return out
    finally:
        fcntl.flock(lock, fcntl.LOCK_UN)
        lock.close()


# ---------------------------------------------------------------------------------------


def const_of(op):
    return op.get("const") if isinstance(op, dict) else None


def place_of(op):
    if not isinstance(op, dict):
        return None
    return op.get("copy") or op.get("move")


def proj_names(place):
    """Field/variant names along a place's projection ('*' for deref)."""
    out = []
    for p in place["p"]:
        if p == "*":
            out.append("*")
        elif isinstance(p, dict):
            if "f" in p:
                out.append("." + p["f"])
            elif "variant" in p:
                out.append("as " + p["variant"])
            elif "index" in p:
                out.append("[_]")
            else:
                out.append("[c]")
        else:
            out.append(str(p))
    return out


def place_str(place):
    return "_%d%s" % (place["l"], "".join(proj_names(place)))


def callee_name(c):
    """Resolved callee path; provided trait methods (e.g. PartialEq::ne) get their Self type spelled out."""
    p = c["path"]
    tr = c.get("trait")
    if tr and p.startswith(tr + "::") and c.get("gargs"):
        return "<%s as %s>::%s" % (c["gargs"][0].lstrip("&"), tr, p.split("::")[-1])
    return p


# calls that only re-borrow their argument (looked through by access paths)
TRANSPARENT = ("::Deref>::deref", "::DerefMut>::deref_mut", "::AsRef<T>>::as_ref", "::AsRef<std::path::Path>>::as_ref",
               "::Borrow<T>>::borrow", "PathBuf::as_path", "String::as_str", "::AsRef<str>>::as_ref", "::AsMut<T>>::as_mut")


class Fn:
    """One MIR body with CFG helpers."""

    def __init__(self, raw, crate):
        self.raw = raw
        self.crate = crate
        self.path = raw["path"]
        self.id = raw["id"]
        self.blocks = raw["blocks"]
        self.loc = raw["loc"]
        self.locals = raw["locals"]
        self._preds = None
        self._idom = None
        self._defs = None
        self.varnames = {}
        for v in raw.get("vars", []):
            if not v["place"]["p"]:
                self.varnames.setdefault(v["place"]["l"], v["name"])

    def __repr__(self):
        return "<Fn %s::%s>" % (self.crate, self.path)

    @property
    def file(self):
        return self.loc["file"]

    def where(self, bb=None, stmt=None):
        if bb is None:
            return "%s:%d" % (self.loc["file"], self.loc["line"])
        b = self.blocks[bb]
        l = b["term"]["loc"] if stmt is None else b["stmts"][stmt].get("loc", b["term"]["loc"])
        return "%s:%d" % (l["file"], l["line"])

    # --- CFG -------------------------------------------------------------------------
    def succs(self, bb, unwind=False):
        """[(label, target)] normal successors (no cleanup edges unless unwind=True)."""
        t = self.blocks[bb]["term"]
        k = t["k"]
        out = []
        if k == "goto":
            out.append(("", t["target"]))
        elif k == "switch":
            for v, tb in t["targets"]:
                out.append((v, tb))
            out.append(("otherwise", t["otherwise"]))
        elif k in ("drop", "assert"):
            out.append(("", t["target"]))
        elif k == "call":
            if t.get("target") is not None:
                out.append(("ret", t["target"]))
        elif k == "yield":
            out.append(("", t["target"]))
        elif k == "asm":
            for tb in t.get("targets", []):
                out.append(("", tb))
        if unwind and t.get("unwind") is not None:
            out.append(("unwind", t["unwind"]))
        return out

    def preds(self):
        if self._preds is None:
            p = [[] for _ in self.blocks]
            for i in range(len(self.blocks)):
                for lab, s in self.succs(i):
                    p[s].append((i, lab))
            self._preds = p
        return self._preds

    def reachable(self, start=0, cut_edges=(), cut_blocks=()):
        """Blocks reachable from `start` when edges (bb,label,target) in cut_edges and
        blocks in cut_blocks are removed."""
        cut_edges = set(cut_edges)
        cut_blocks = set(cut_blocks)
        seen = set()
        if start in cut_blocks:
            return seen
        stack = [start]
        while stack:
            b = stack.pop()
            if b in seen:
                continue
            seen.add(b)
            for lab, s in self.succs(b):
                if (b, lab, s) in cut_edges or (b, s) in cut_edges or s in cut_blocks:
                    continue
                if s not in seen:
                    stack.append(s)
        return seen

    def can_reach(self, targets, cut_edges=(), cut_blocks=()):
        """Blocks from which some block in `targets` is reachable."""
        targets = set(targets)
        cut_edges = set(cut_edges)
        cut_blocks = set(cut_blocks)
        seen = set(t for t in targets if t not in cut_blocks)
        stack = list(seen)
        preds = self.preds()
        while stack:
            b = stack.pop()
            for p, lab in preds[b]:
                if p in seen or p in cut_blocks:
                    continue
                if (p, lab, b) in cut_edges or (p, b) in cut_edges:
                    continue
                seen.add(p)
                stack.append(p)
        return seen

    def idom(self):
        if self._idom is None:
            n = len(self.blocks)
            order = []
            seen = set()

            def dfs(b):
                stack = [(b, iter(self.succs(b)))]
                seen.add(b)
                while stack:
                    node, it = stack[-1]
                    adv = False
                    for _, s in it:
                        if s not in seen:
                            seen.add(s)
                            stack.append((s, iter(self.succs(s))))
                            adv = True
                            break
                    if not adv:
                        order.append(node)
                        stack.pop()
            dfs(0)
            rpo = list(reversed(order))
            idx = {b: i for i, b in enumerate(rpo)}
            idom = {0: 0}
            preds = self.preds()
            changed = True
            while changed:
                changed = False
                for b in rpo[1:]:
                    new = None
                    for p, _ in preds[b]:
                        if p in idom:
                            if new is None:
                                new = p
                            else:
                                a, c = p, new
                                while a != c:
                                    while idx[a] > idx[c]:
                                        a = idom[a]
                                    while idx[c] > idx[a]:
                                        c = idom[c]
                                new = a
                    if new is not None and idom.get(b) != new:
                        idom[b] = new
                        changed = True
            self._idom = idom
        return self._idom

    def dominates(self, a, b):
        idom = self.idom()
        if b not in idom:
            return False
        while True:
            if a == b:
                return True
            if b == 0:
                return False
            b = idom[b]

    # --- calls / statements ------------------------------------------------------------
    def calls(self):
        """Yield (bb, term) for every call terminator in non-cleanup blocks."""
        for i, b in enumerate(self.blocks):
            if b["cleanup"]:
                continue
            if b["term"]["k"] == "call":
                yield i, b["term"]

    def call_sites(self, pred):
        return [(i, t) for i, t in self.calls() if "callee" in t and pred(t["callee"])]

    def stmts(self):
        for i, b in enumerate(self.blocks):
            if b["cleanup"]:
                continue
            for j, st in enumerate(b["stmts"]):
                yield i, j, st

    def defs(self):
        """local -> list of ('stmt', bb, j, rvalue) / ('call', bb, term) whole-local definitions."""
        if self._defs is None:
            d = {}
            for i, j, st in self.stmts():
                if st["k"] == "assign" and not st["place"]["p"]:
                    d.setdefault(st["place"]["l"], []).append(("stmt", i, j, st["rv"]))
            for i, t in self.calls():
                if not t["dest"]["p"]:
                    d.setdefault(t["dest"]["l"], []).append(("call", i, t))
            self._defs = d
        return self._defs

    def origin(self, op, depth=12):
        """Trace an operand back through copies/moves/refs/derefs of single-definition temporaries.

        Returns a tuple describing where the value comes from:
          ('const', constjson) | ('call', bb, term) | ('place', place) | ('rv', bb, j, rvalue) | ('arg', local)
        """
        c = const_of(op)
        if c is not None:
            return ("const", c)
        pl = place_of(op)
        if pl is None:
            return ("unknown", op)
        return self.origin_place(pl, depth)

    def origin_place(self, pl, depth=12):
        l = pl["l"]
        projs = [p for p in pl["p"]]
        non_deref = [p for p in projs if p != "*"]
        if non_deref:
            # a field of something: try to rebase onto the origin of the base local
            base = self.origin_place({"l": l, "p": [], "ty": ""}, depth - 1) if depth > 0 else None
            if base and base[0] == "place":
                return ("place", {"l": base[1]["l"], "p": base[1]["p"] + projs, "ty": pl.get("ty", "")})
            return ("place", pl)
        if 1 <= l <= self.raw["arg_count"]:
            ds = self.defs().get(l, [])
            if not ds:
                return ("arg", l)
        ds = self.defs().get(l, [])
        if len(ds) != 1 or depth <= 0:
            return ("place", pl)
        d = ds[0]
        if d[0] == "call":
            return ("call", d[1], d[2])
        rv = d[3]
        if rv["k"] == "use":
            return self.origin(rv["a"], depth - 1)
        if rv["k"] == "ref" or rv["k"] == "rawptr":
            inner = rv["place"]
            r = self.origin_place(inner, depth - 1)
            return r
        if rv["k"] == "cast" and rv["ck"].startswith("PointerCoercion"):
            return self.origin(rv["a"], depth - 1)
        return ("rv", d[1], d[2], rv)

    # --- access paths (normal form for def-use rules) --------------------------------------
    def reaching(self, l, at):
        """Definitions of local l that can be the one in force at `at` = (block, statement index or None for the terminator):
        flow-sensitive where apath is not (a `let mut res = a(); if res.is_none() { res = b(); }` has two definitions of
        `res`, but only a()'s is in force at the test)."""
        bb, j = at if isinstance(at, tuple) else (at, None)
        key = (l, bb, j)
        cache = self.__dict__.setdefault("_reaching", {})
        if key in cache:
            return cache[key]
        ds = self.defs().get(l, [])
        same = [d for d in ds if d[0] == "stmt" and d[1] == bb and (j is None or d[2] < j)]
        if same:
            out = [max(same, key=lambda d: d[2])]
        else:
            out = []
            blocks = {d[1] for d in ds}
            for d in ds:
                others = {b for b in blocks if b != d[1]}
                starts = [t for _, t in self.succs(d[1])] if d[0] == "call" else [d[1]]
                ok = False
                for s0 in starts:
                    if d[0] == "call":
                        r = self.reachable(s0, cut_blocks=others - {bb})
                    else:
                        r = self.reachable(s0, cut_blocks=others - {bb})
                    if bb in r and (d[1] != bb or d[0] == "call" or (j is not None and d[2] >= j)):
                        # a def later in the same block reaches only around a loop; same rule as any other block
                        ok = True
                if ok:
                    # reaching the point through a block that redefines l does not count, unless that block is the point's own block
                    # (the redefinition there comes after the point, or is handled by `same`)
                    out.append(d)
        cache[key] = out
        return out

    def apath_place(self, pl, depth=16, at=None):
        """(root, projs): root is ('arg', n) | ('call', callee_path, (arg apaths...), bb) | ('local', l) |
        ('const', text) | ('rv', kind, ...); projs is a tuple of field / variant names (derefs dropped)."""
        projs = []
        for p in pl["p"]:
            if p == "*":
                continue
            if isinstance(p, dict):
                if "f" in p:
                    projs.append(p["f"])
                elif "variant" in p:
                    projs.append("as " + p["variant"])
                elif "index" in p:
                    projs.append("[]")
                else:
                    projs.append("[c]")
        l = pl["l"]
        ds = self.defs().get(l, [])
        if 1 <= l <= self.raw["arg_count"] and not ds:
            return (("arg", l), tuple(projs))
        if len(ds) > 1 and at is not None and depth > 0:
            rd = self.reaching(l, at)
            if len(rd) == 1:
                ds = rd
        if len(ds) == 1 and depth <= 0:
            return (("local", l, "cut"), tuple(projs))      # not followed any further (depth): stands for an expression (see ap_match)
        if len(ds) != 1 or depth <= 0:
            return (("local", l), tuple(projs))
        d = ds[0]
        if at is not None:
            at = (d[1], d[2]) if d[0] == "stmt" else (d[1], None)
        if d[0] == "call":
            t = d[2]
            name = callee_name(t["callee"]) if "callee" in t else "<indirect>"
            args = tuple(self.apath(a, depth - 1, at) for a in t["args"])
            if len(args) == 1 and name.endswith(TRANSPARENT):
                return (args[0][0], args[0][1] + tuple(projs))
            if name.endswith("Try>::branch") and len(args) == 1 and tuple(projs[:2]) == ("as Continue", "0") and args[0][0][0] == "local" and not args[0][1]:
                # `x?` where x has several definitions (a helper's return slot put back in place: `Ok(v)` on its success path, the
                # residuals of its own `?`s on the others): what continues is the payload of the one definition that builds Ok / Some
                v = self._success_payload(args[0][0][1], depth - 1)
                if v is not None:
                    return self._select(v, projs[2:])
            return (("call", name, args, d[1]), tuple(projs))
        rv = d[3]
        k = rv["k"]
        if k == "use" or (k == "cast" and (rv["ck"].startswith("PointerCoercion") or rv["ck"] in ("PtrToPtr", "Transmute"))):
            base = self.apath(rv["a"], depth - 1, at)
            return self._select(base, projs)
        if k in ("ref", "rawptr"):
            base = self.apath_place(rv["place"], depth - 1, at)
            return self._select(base, projs)
        if k == "agg":
            name = rv["agg"] if rv["agg"] != "adt" else rv["adt"] + "::" + rv["variant"]
            if rv["agg"] == "adt" and rv.get("fields"):
                AGG_FIELDS[name] = tuple(rv["fields"])
            if rv["agg"] == "closure":
                name = "closure:" + rv["closure"]["path"]
            return self._select((("agg", name, tuple(self.apath(o, depth - 1, at) for o in rv["ops"]), d[1]), ()), projs)
        if k == "binop":
            return (("binop", rv["op"], self.apath(rv["a"], depth - 1, at), self.apath(rv["b"], depth - 1, at)), tuple(projs))
        if k == "unop":
            return (("unop", rv["op"], self.apath(rv["a"], depth - 1, at)), tuple(projs))
        if k == "cast":
            return (("cast", rv["ck"], self.apath(rv["a"], depth - 1, at), rv["to"]), tuple(projs))
        if k == "discr":
            return (("discr", self.apath_place(rv["place"], depth - 1, at)), tuple(projs))
        return (("rv", k, d[1], d[2]), tuple(projs))

    def _success_payload(self, l, depth):
        """Local l is defined several times: exactly once as `Ok{v}` / `Some{v}` (possibly through moves), otherwise only as
        failures (`Err{..}`, `None`, from_residual(..)).  Returns the access path of v, else None."""
        seen, work, succ = set(), [l], []
        while work:
            x = work.pop()
            if x in seen:
                continue
            seen.add(x)
            for d in self.defs().get(x, []):
                if d[0] == "call":
                    nm = callee_name(d[2]["callee"]) if "callee" in d[2] else ""
                    if nm.endswith(("FromResidual<core::result::Result<core::convert::Infallible, E>>>::from_residual",
                                    "FromResidual<core::option::Option<core::convert::Infallible>>>::from_residual", "::from_residual")):
                        continue
                    return None
                rv = d[3]
                if rv["k"] == "use" and place_of(rv["a"]) and not place_of(rv["a"])["p"]:
                    work.append(place_of(rv["a"])["l"])
                elif rv["k"] == "agg" and rv.get("variant") in ("Ok", "Some") and len(rv["ops"]) == 1:
                    succ.append(rv["ops"][0])
                elif rv["k"] == "agg" and rv.get("variant") in ("Err", "None"):
                    continue
                else:
                    return None
        if len(succ) != 1:
            return None
        return self.apath(succ[0], depth)

    def mutated_types(self):
        """Types of the locals of this function that are changed after they were put together (a field is assigned, or the
        local is borrowed mutably): a field of such a struct is not what it was built from."""
        if "_mutated_types" not in self.__dict__:
            import re
            out = set()
            def note(pl):
                ty = str(self.raw["locals"][pl["l"]]) if pl["l"] < len(self.raw["locals"]) else ""
                ty = re.sub(r"^&(mut )?", "", ty)
                out.add(re.sub(r"<.*$", "", ty))
            for b in self.blocks:
                for st in b["stmts"]:
                    if st.get("k") != "assign":
                        continue
                    if [p for p in st["place"]["p"] if p != "*"]:
                        note(st["place"])
                    rv = st.get("rv", {})
                    if rv.get("k") == "ref" and (rv.get("mut") or rv.get("bk") in ("Mut", "Mutable")) :
                        note(rv["place"])
                t = b["term"]
                if t and t["k"] == "call" and t.get("dest") and [p for p in t["dest"]["p"] if p != "*"]:
                    note(t["dest"])
            self._mutated_types = out
        return self._mutated_types

    def _select(self, base, projs):
        """A field of a value that was just put together is the operand it was built from: `(closure{a, b}).1` is b,
        `(Some{x} as Some).0` is x, `Candidate{name, unit, power}.power` is power - unless values of that struct type are
        changed in place somewhere in this function."""
        root = base[0]
        projs = base[1] + tuple(projs)
        while root[0] == "agg" and projs:
            p0 = projs[0]
            if isinstance(p0, str) and p0.startswith("as ") and len(projs) > 1 and str(root[1]).endswith("::" + p0[3:]):
                projs = projs[1:]
                p0 = projs[0]
            elif isinstance(p0, str) and p0.startswith("as "):
                break
            if str(p0).isdigit() and int(p0) < len(root[2]) and (str(root[1]).startswith(("closure:", "tuple")) or "::" in str(root[1])):
                sub = root[2][int(p0)]
                root, projs = sub[0], sub[1] + projs[1:]
            elif isinstance(p0, str) and p0 in AGG_FIELDS.get(root[1], ()) and len(AGG_FIELDS[root[1]]) == len(root[2]) \
                    and str(root[1]).rsplit("::", 1)[0] not in self.mutated_types():
                # a named field of a struct value that was just put together (`SingleUnit{value, base, power}.power`)
                sub = root[2][AGG_FIELDS[root[1]].index(p0)]
                root, projs = sub[0], sub[1] + projs[1:]
            else:
                break
        return (root, projs)

    def apath(self, op, depth=16, at=None):
        c = const_of(op)
        if c is not None:
            if "int" in c:
                return (("const", c["int"]), ())
            if "fndef" in c:
                return (("fn", c["fndef"]["path"]), ())
            return (("const", c.get("dbg", "?")), ())
        pl = place_of(op)
        if pl is None:
            return (("unknown",), ())
        return self.apath_place(pl, depth, at)

    def guards_of(self, bb):
        """Necessary branch edges: [(switch_bb, label, info)] such that `bb` is unreachable from the
        entry once that single edge is removed (cut-set decision on single edges)."""
        out = []
        for s in range(len(self.blocks)):
            if self.blocks[s]["cleanup"] or self.blocks[s]["term"]["k"] != "switch" or s == bb:
                continue
            if not self.dominates(s, bb):
                continue
            succ = self.succs(s)
            for lab, tgt in succ:
                # B must be unreachable without this edge, but reachable with it (i.e. other edges do not lead there)
                if bb not in self.reachable(0, cut_edges={(s, lab, tgt)}):
                    out.append((s, lab, self.switch_info(s)))
        return out

    def guard_desc(self, g):
        """Human/rule readable description of a guard: ('variant', apath(place), enum, VariantName) or
        ('bool', apath_or_rv, True/False) or ('int', apath, label)."""
        s, lab, info = g
        if info["kind"] == "discr":
            name = info["variants"].get(lab, None) if lab != "otherwise" else None
            if name is None:
                named = {info["variants"].get(v) for v, _ in info["targets"]}
                rest = [n for n in info["variants"].values() if n not in named]
                name = rest[0] if len(rest) == 1 else "otherwise(" + "|".join(rest) + ")"
            return ("variant", self.apath_place(info["place"], 16, (s, None)), info["enum"], name)
        if info["kind"] == "bool":
            t = self.blocks[s]["term"]
            val = (lab != 0)
            return ("bool", self.apath(t["discr"], 16, (s, None)), val)
        t = self.blocks[s]["term"]
        return ("int", self.apath(t["discr"], 16, (s, None)), lab)

    def switch_info(self, bb):
        """For a switch terminator: what is tested. Returns dict with
        kind: 'discr' (enum discriminant; 'place', 'variants' {value:name}),
              'bool' (origin of the boolean), 'int'."""
        t = self.blocks[bb]["term"]
        if t["k"] != "switch":
            return None
        pl = place_of(t["discr"])
        info = {"kind": "int", "targets": t["targets"], "otherwise": t["otherwise"], "dty": t["dty"]}
        if pl is None:
            return info
        # find the defining statement (same block first, else single def)
        rv = None
        if not pl["p"]:
            for st in reversed(self.blocks[bb]["stmts"]):
                if st["k"] == "assign" and st["place"]["l"] == pl["l"] and not st["place"]["p"]:
                    rv = st["rv"]
                    break
            if rv is None:
                ds = self.defs().get(pl["l"], [])
                if len(ds) == 1 and ds[0][0] == "stmt":
                    rv = ds[0][3]
                elif len(ds) == 1 and ds[0][0] == "call":
                    info["kind"] = "bool" if t["dty"] == "bool" else "int"
                    info["origin"] = ("call", ds[0][1], ds[0][2])
                    return info
        if rv is not None and rv["k"] == "discr":
            info["kind"] = "discr"
            info["place"] = rv["place"]
            info["enum"] = rv["enum"]
            info["variants"] = {v: n for v, n in rv["variants"]}
            return info
        if t["dty"] == "bool":
            info["kind"] = "bool"
            if rv is not None:
                info["origin"] = ("rv", rv)
            else:
                info["origin"] = self.origin(t["discr"])
        return info

    def variant_edges(self, bb):
        """For a discriminant switch: {variant_name: target_bb}; 'otherwise' covers the rest."""
        info = self.switch_info(bb)
        if not info or info["kind"] != "discr":
            return None
        out = {}
        named = set()
        for v, tb in info["targets"]:
            name = info["variants"].get(v, str(v))
            out[name] = tb
            named.add(name)
        rest = [n for n in info["variants"].values() if n not in named]
        for n in rest:
            out[n] = info["otherwise"]
        return out


AGG_FIELDS = {}     # aggregate name -> field names, as seen in the facts (see Fn._select)


class Facts:
    def __init__(self, directory):
        self.dir = directory
        self.crates = {}
        self.fns = {}
        self.by_crate = {}
        self.hir = {}
        self.consts = {}      # crate -> {path: {path, ty, body (HIR expression), loc}} for const / static items
        for f in sorted(glob.glob(os.path.join(directory, "*.json"))):
            with open(f) as fh:
                d = json.load(fh)
            name = d["crate"]
            if d.get("is_test"):
                continue
            self.crates[name] = d
            self.by_crate[name] = []
            for raw in d["fns"]:
                fn = Fn(raw, name)
                self.fns[fn.id] = fn
                self.by_crate[name].append(fn)
            self.hir[name] = {h["id"]: h for h in d["hir"]}
            self.consts.setdefault(name, {}).update({c["path"]: c for c in d.get("consts", [])})

    def item_tail(self, path):
        """`Type::name` for a method, `name` for a free function (closures stripped): what stays when an item moves to another
        module."""
        import re
        p = re.sub(r"(::\{closure(#\d+)?\})+$", "", path)
        segs = p.split("::")
        return "::".join(segs[-2:]) if len(segs) >= 2 and segs[-2][:1].isupper() else segs[-1]

    def moved_to(self, crate, path):
        """A rule or a table names a function by the path it has on the pinned tree.  When the crate has no function of that path
        today but exactly one with the same item tail, that is where it went (None otherwise)."""
        key = (crate, path)
        cache = self.__dict__.setdefault("_moved", {})
        if key not in cache:
            fns = [f for f in self.by_crate.get(crate, []) if "{closure" not in f.path]
            if any(f.path == path for f in fns) or path.startswith("<"):
                cache[key] = None
            else:
                tail = self.item_tail(path)
                c = [f.path for f in fns if not f.path.startswith("<") and (f.path == tail or f.path.endswith("::" + tail))]
                cache[key] = c[0] if len(c) == 1 else None
        return cache[key]

    def const_named(self, crate, name):
        """The const / static item a HIR path expression `name` (its last segment, or more) refers to, if there is exactly one."""
        last = name.split("::")[-1]
        c = [v for p, v in self.consts.get(crate, {}).items() if p == name or p.endswith("::" + name) or p.split("::")[-1] == last]
        return c[0] if len(c) == 1 else None

    def const_literals(self, crate, name, kind="str"):
        """Literals of one kind in the body of the named const table, in source order (None: no such const)."""
        c = self.const_named(crate, name)
        if c is None:
            return None
        return [e["lit"]["v"] for e in hir_walk(c["body"]) if e.get("k") == "Lit" and e["lit"].get("lit") == kind]

    def find(self, crate, suffix, exact=False, allow_many=False, inline=False, keep=()):
        """Find MIR bodies in `crate` whose path ends with `suffix` (closures excluded
        unless the suffix names one)."""
        res = []
        for fn in self.by_crate.get(crate, []):
            p = fn.path
            if exact:
                ok = p == suffix
            else:
                ok = p == suffix or p.endswith("::" + suffix) or p.endswith(suffix) and (
                    len(p) == len(suffix) or p[-len(suffix) - 1] in ":< ")
            if ok:
                res.append(fn)
        if allow_many:
            return res
        if not res:
            # a private stage function that goes by another name today (see stage_aliases)
            al = self.stage_aliases().get((crate, suffix))
            if al is not None and al != suffix:
                return self.find(crate, al, exact=True, inline=inline, keep=keep)
        if not res and not exact and "{closure" not in suffix and "<" not in suffix:
            # moved to another module (a private function taken out into its own file, a method moved along with its type): the
            # same item name under the same type name, if the crate has exactly one such function
            segs = suffix.split("::")
            tail = "::".join(segs[-2:]) if len(segs) >= 2 and segs[-2][:1].isupper() else segs[-1]
            cand = [fn for fn in self.by_crate.get(crate, []) if "{closure" not in fn.path and not fn.path.startswith("<")
                    and (fn.path == tail or fn.path.endswith("::" + tail))]
            if len(cand) == 1:
                res = cand
        if len(res) != 1:
            raise AnchorLost("expected exactly one function %s in %s, found %d%s" % (
                suffix, crate, len(res), "" if not res else " (" + ", ".join(f.path for f in res[:4]) + ")"))
        return self.inlined(res[0], keep=tuple(keep)) if inline else res[0]

    def stage_aliases(self):
        """The lookup families (Registry::lookup, Registry::canonicalize, Resolver::lookup) are an entry function that calls a
        private "with prefix" stage of the same type, which calls a private "exact" stage.  The rules name the stages
        `<entry>_with_prefix` / `<entry>_exact`; when the private functions are called something else they are found by that call
        structure: {(crate, name the rules use): path today}."""
        if "_stage_aliases" in self.__dict__:
            return self._stage_aliases
        self._stage_aliases = out = {}
        crate = "rink_core"
        by_path = {}
        for g in self.by_crate.get(crate, []):
            by_path.setdefault(g.path, []).append(g)
        for ty, entry in (("loader::registry::Registry", "lookup"), ("loader::registry::Registry", "canonicalize"), ("loader::load::Resolver", "lookup")):
            full = by_path.get(ty + "::" + entry, [])
            if len(full) != 1:
                continue

            def private_callees(g, exclude):
                seen = []
                for h in [g] + [c for c in self.by_crate[crate] if (c.raw.get("root") or {}).get("id") == g.id]:
                    for b in h.blocks:
                        t = b["term"]
                        if t["k"] == "call" and "callee" in t:
                            p_ = t["callee"]["path"]
                            if p_.startswith(ty + "::") and p_ not in exclude and p_ not in seen and len(by_path.get(p_, [])) == 1 \
                                    and not by_path[p_][0].raw.get("public") and by_path[p_][0].raw.get("arg_count") == g.raw.get("arg_count"):
                                seen.append(p_)
                return seen
            wp = private_callees(full[0], {full[0].path})
            if len(wp) != 1:
                continue
            ex = private_callees(by_path[wp[0]][0], {full[0].path, wp[0]})
            if len(ex) != 1:
                continue
            out[(crate, ty + "::" + entry + "_with_prefix")] = wp[0]
            out[(crate, ty + "::" + entry + "_exact")] = ex[0]
        return out

    def closures_of(self, fn):
        out = []
        ids = {fn.id} | set(getattr(fn, "inlined_ids", ()))
        for g in self.by_crate[fn.crate]:
            r = g.raw.get("root")
            if r and r["id"] in ids:
                out.append(g)
        return out

    # --- private helpers are the code of the function that calls them --------------------------------------------------
    def inlined(self, fn, keep=()):
        """`fn` in normalised form (rules/inliner.py): private helpers and the closures of the choosing std combinators are put
        back where they run.  The functions themselves stay in the tables (inventories see every site exactly once)."""
        import inliner
        cache = self.__dict__.setdefault("_inl", {})
        ck = (fn.id, tuple(keep))
        if ck not in cache:
            cache[ck] = inliner.normalise(self, fn, tuple(keep))
        return cache[ck]

    def hir_of(self, fn):
        h = self.hir[fn.crate].get(fn.id)
        if h is None:
            raise AnchorLost("no HIR body for %s" % fn.path)
        return h

    def hirs_of(self, fn):
        """HIR of fn and of every function the normalised form of fn contains (its private helpers)."""
        out = [self.hir_of(fn)]
        for gid in getattr(fn, "inlined_ids", ()):
            g = self.fns.get(gid)
            h = self.hir[g.crate].get(gid) if g is not None else None
            if h is not None and h not in out:
                out.append(h)
        return out

    def adt(self, crate, suffix):
        res = [a for a in self.crates[crate]["adts"] if a["path"] == suffix or a["path"].endswith("::" + suffix)]
        if len(res) != 1:
            raise AnchorLost("expected exactly one type %s in %s, found %d" % (suffix, crate, len(res)))
        return res[0]


def callee_is(callee, *needles):
    """True when the resolved (or declared) callee path contains one of `needles`."""
    p = callee.get("path", "")
    d = callee.get("decl_path", "")
    return any(n in p or n in d for n in needles)


# --- HIR helpers -------------------------------------------------------------------------

def hir_walk(node, fn=None):
    """Yield every dict node of an HIR tree (pre-order)."""
    stack = [node]
    while stack:
        n = stack.pop()
        if isinstance(n, dict):
            yield n
            for v in reversed(list(n.values())):
                if isinstance(v, (dict, list)):
                    stack.append(v)
        elif isinstance(n, list):
            for v in reversed(n):
                if isinstance(v, (dict, list)):
                    stack.append(v)


def hir_kind(node, kind):
    return [n for n in hir_walk(node) if n.get("k") == kind]


_loaded = {}


CURRENT = None     # the facts most recently loaded (for helpers that are handed a Fn only)


def load(repo=REPO, features=None, tag="ws"):
    global CURRENT
    key = (repo, tag)
    if key not in _loaded:
        d = extract(repo, features=features, tag=tag)
        _loaded[key] = Facts(d)
    CURRENT = _loaded[key]
    return _loaded[key]


def subst_ap(ap, argmap):
    """Replace the parameters of a callee in one of its access paths by the caller's access paths of the arguments."""
    root, projs = ap
    k = root[0]
    if k == "arg":
        base = argmap.get(root[1])
        return ap if base is None else (base[0], base[1] + projs)
    if k in ("call", "agg"):
        return ((k, root[1], tuple(subst_ap(a, argmap) for a in root[2]), root[3]), projs)
    if k == "binop":
        return (("binop", root[1], subst_ap(root[2], argmap), subst_ap(root[3], argmap)), projs)
    if k == "unop":
        return (("unop", root[1], subst_ap(root[2], argmap)), projs)
    if k == "cast":
        return (("cast", root[1], subst_ap(root[2], argmap), root[3]), projs)
    if k == "discr":
        return (("discr", subst_ap(root[1], argmap)), projs)
    return ap


def ap_match(a, b):
    """Equality of access paths up to the depth at which they were cut off: a `('local', n)` leaf stands for an expression that
    was not followed any further, and matches whatever the other side has there."""
    if a == b:
        return True
    if not (isinstance(a, tuple) and isinstance(b, tuple)):
        return False
    if len(a) == 2 and isinstance(a[0], tuple) and a[0] and isinstance(a[0][0], str):
        # an access path (root, projs)
        if not (len(b) == 2 and isinstance(b[0], tuple) and b[0] and isinstance(b[0][0], str)):
            return False
        # two locals are the same value only when they are the same local
        if a[0][0] == "local" and b[0][0] == "local":
            return a[0][1] == b[0][1] and (tuple(a[1]) == tuple(b[1]) or not a[1] or not b[1] or tuple(a[1][-len(b[1]):]) == tuple(b[1]) or tuple(b[1][-len(a[1]):]) == tuple(a[1]))
        # a cut-off leaf stands for any expression; projections applied to it must be the last ones of the other side.  (A local
        # with several definitions is not a cut-off leaf: it is that local, and equal only to itself.)
        if a[0][0] == "local" and len(a[0]) == 3 and (not a[1] or tuple(b[1][-len(a[1]):]) == tuple(a[1])):
            return True
        if b[0][0] == "local" and len(b[0]) == 3 and (not b[1] or tuple(a[1][-len(b[1]):]) == tuple(b[1])):
            return True
        return a[1] == b[1] and ap_match(a[0], b[0])
    if len(a) != len(b):
        return False
    for x, y in zip(a, b):
        if isinstance(x, tuple) and isinstance(y, tuple):
            if not ap_match(x, y):
                return False
        elif x != y:
            # the block a call was made in is not part of what was computed
            if isinstance(x, int) and isinstance(y, int) and a and a[0] in ("call", "agg"):
                continue
            return False
    return True


def ap_contains(hay, needle):
    """Does the access path `hay` mention the value `needle` (equal up to cut-off depth, see ap_match)?"""
    root, projs = hay
    for i in range(len(projs), -1, -1):
        if ap_match((root, tuple(projs[:i])), needle):
            return True
    k = root[0]
    subs = []
    if k in ("call", "agg"):
        subs = list(root[2])
    elif k == "binop":
        subs = [root[2], root[3]]
    elif k in ("unop", "cast"):
        subs = [root[2]]
    elif k == "discr":
        subs = [root[1]]
    return any(ap_contains(x, needle) for x in subs)


def private_helper(F, crate, name):
    """The function `name` of `crate` if it is a private free function or inherent method (what `extract function` produces)."""
    idx = F.__dict__.setdefault("_by_path", {})
    if crate not in idx:
        idx[crate] = {}
        for g in F.by_crate[crate]:
            idx[crate].setdefault(g.path, []).append(g)
    gs = idx[crate].get(name, [])
    if len(gs) != 1:
        return None
    g = gs[0]
    if g.raw.get("public") or g.raw.get("impl_trait") or "{closure" in g.path:
        return None
    return g


def straight_line(fn):
    """No branch outside cleanup blocks: the function is one expression of its parameters."""
    return not any(b["term"]["k"] == "switch" for b in fn.blocks if not b["cleanup"])


def expand_ap(F, crate, ap, depth=3):
    """Access path with the calls of private straight-line helpers replaced by what they return (`fn radian() -> Dimensionality
    { Dimensionality::base_unit(BaseUnit::new("radian")) }`): a rule that recognises an expression keeps recognising it after
    the expression has been given a name."""
    root, projs = ap
    k = root[0]
    if k == "call":
        args = tuple(expand_ap(F, crate, a, depth) for a in root[2])
        g = private_helper(F, crate, root[1]) if depth > 0 else None
        if g is not None and straight_line(g) and len(args) == g.raw["arg_count"]:
            ret = g.apath_place({"l": 0, "p": [], "ty": ""})
            if ret[0][0] not in ("local", "unknown", "rv"):
                ret = subst_ap(ret, {i + 1: a for i, a in enumerate(args)})
                ret = expand_ap(F, crate, ret, depth - 1)
                return (ret[0], ret[1] + projs)
        return (("call", root[1], args, root[3]), projs)
    if k == "agg":
        return (("agg", root[1], tuple(expand_ap(F, crate, a, depth) for a in root[2]), root[3]), projs)
    if k == "binop":
        return (("binop", root[1], expand_ap(F, crate, root[2], depth), expand_ap(F, crate, root[3], depth)), projs)
    if k == "unop":
        return (("unop", root[1], expand_ap(F, crate, root[2], depth)), projs)
    if k == "cast":
        return (("cast", root[1], expand_ap(F, crate, root[2], depth), root[3]), projs)
    if k == "discr":
        return (("discr", expand_ap(F, crate, root[1], depth)), projs)
    return ap


def ap_str(ap):
    """Render an access path."""
    root, projs = ap
    k = root[0]
    if k == "arg":
        s = "arg%d" % root[1]
    elif k == "call":
        s = "%s(%s)" % (root[1], ", ".join(ap_str(a) for a in root[2]))
    elif k == "local":
        s = "_%d" % root[1]
    elif k == "const":
        s = str(root[1])
    elif k == "fn":
        s = "fn " + root[1]
    elif k == "agg":
        s = "%s{%s}" % (root[1], ", ".join(ap_str(a) for a in root[2]))
    elif k == "binop":
        s = "(%s %s %s)" % (ap_str(root[2]), root[1], ap_str(root[3]))
    elif k == "unop":
        s = "%s(%s)" % (root[1], ap_str(root[2]))
    elif k == "cast":
        s = "(%s as %s)" % (ap_str(root[2]), root[3])
    elif k == "discr":
        s = "discr(%s)" % ap_str(root[1])
    else:
        s = str(root)
    for p in projs:
        s += (" " + p) if p.startswith("as ") else ("." + p)
    return s


def ap_calls(ap, out=None):
    """All callee paths mentioned in an access path (outermost first)."""
    if out is None:
        out = []
    root = ap[0]
    if root[0] == "call":
        out.append(root[1])
        for a in root[2]:
            ap_calls(a, out)
    elif root[0] == "agg":
        for a in root[2]:
            ap_calls(a, out)
    elif root[0] in ("binop",):
        ap_calls(root[2], out)
        ap_calls(root[3], out)
    elif root[0] in ("unop", "cast"):
        ap_calls(root[2], out)
    elif root[0] == "discr":
        ap_calls(root[1], out)
    return out
