"""C12 Definition order does not matter.  DESIGN.md section 4, C12."""
import loader_rules as L
import datafiles


def run(chk, F):
    chk.explanation = (
        "Order-forgetting structure of the loader, decided from type/MIR/HIR facts: pending definitions, marks, docs and "
        "categories live in BTreeMap/BTreeSet keyed by the derived (namespace, name) order; the driver loop takes its work "
        "item from the ordered `unmarked` set, never from the input list; visit() emits in post-order behind the "
        "unmarked/temp-mark tests; every registry write in load_defs is dominated by the completion of the sort; the "
        "dependency walk covers every expression position of every Def kind and every Expr variant with sub-expressions "
        "and resolves identifiers like the registry (C07 sibling rule); the CLI flattens all files into one Defs for a "
        "single Context::load; loading reaches no clock/env/hash iteration; names are unique per namespace in the "
        "bundled files (the statement's premise).")
    chk.guard("ordered-containers", "Resolver", lambda: L.containers(chk, F))
    chk.guard("worklist-ordered", "load_defs", lambda: L.driver_loop(chk, F))
    chk.guard("visit-postorder", "Resolver::visit", lambda: L.visit_structure(chk, F))
    chk.guard("writes-after-sort", "load_defs", lambda: L.registry_writes_after_sort(chk, F))
    chk.guard("walk-coverage", "Resolver", lambda: L.walk_coverage(chk, F))
    chk.guard("walk-coverage", "load_defs ids", lambda: L.defined_names_are_emitted(chk, F))
    chk.guard("walk-coverage", "name readings", lambda: L.readings_agree(chk, F))
    chk.guard("walk-coverage", "readings per context", lambda: L.context_readings(chk, F))
    chk.guard("walk-coverage", "local names", lambda: L.local_names(chk, F))
    chk.guard("long-prefix-yields-to-a-unit", "load_defs", lambda: L.units_precedence(chk, F))
    chk.guard("single-load", "config::load", lambda: L.single_load_cli(chk, F))
    import c07
    chk.guard("fallback-order", "Resolver::lookup", lambda: c07.family(chk, F, "Resolver::lookup", "loader::load::Resolver::lookup_exact", "loader::load::Resolver::lookup_with_prefix", "loader::load::Resolver::lookup", {}))
    chk.guard("load-is-a-function-of-text", "loader", lambda: L.determinism(chk, F))
    chk.guard("unique-names", "data", lambda: datafiles.unique_names(chk))
    chk.guard("categories-declared-consistently", "data", lambda: datafiles.categories_declared_once(chk))
