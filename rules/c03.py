"""C03 Conversions are exact and refuse non-conformable targets.  DESIGN.md section 4, C03."""
import k2
import k4
from c02 import unit_test, same_dim_accept
from facts import AnchorLost, ap_str, ap_calls

CORE = "rink_core"
EVALQ = "runtime::eval::eval_query"


def run(chk, F):
    chk.explanation = (
        "Refusal/exactness structure of `->`: in eval_query every Context::show call and every Number division that feeds it "
        "is cut from the entry when the accepting edges of the test `top.unit == bottom.unit` on exactly those two operands "
        "are removed (CFG cut-set); the other edge builds QueryError::Conformance from conformance_err of the same operands; "
        "the value shown is `top / bottom` of those operands and the `/` is Div for &Number, whose zero test and whole callee "
        "closure contain no float-introducing site (K4 guarded reachability); conformance_err flags the reciprocal case from "
        "`top * bottom` being dimensionless and its own divisions use operands whose value was reset to exactly one; "
        "substance targets push a property only behind the unit comparisons. Values of the ~4000 database units are data.")
    chk.guard("conversion-gate", "eval_query", lambda: gates(chk, F))
    chk.guard("conformance-error", "conformance_err", lambda: conformance(chk, F))
    chk.guard("exact-quotient", "Div for &Number", lambda: exact(chk, F))
    # the unit *name* printed with the quotient is canonicalize(target): it must read the target the way lookup() did when
    # the quotient was computed (same exact -> prefix -> plural order, first matching prefix)
    chk.guard("reply-unit-name", "canonicalize", lambda: reply_name(chk, F))
    chk.guard("target-consumed", "parse_query", lambda: target_consumed(chk, F))
    chk.floor("conversion-gate", 6)


def gates(chk, F):
    # private helpers of eval_query are its own code (`extract function`); conformance_err is named by the rule and stays a call
    fn = F.find(CORE, EVALQ, inline=True, keep=("::conformance_err", "::find_quantity", "::to_list", "Option::<T>::ok_or_else", "Option::<T>::map", "Option::<T>::and_then"))
    fk = "rink_core::" + EVALQ
    shows = [(bb, t) for bb, t in fn.calls() if "callee" in t and t["callee"]["path"].endswith("loader::context::Context::show")]
    if len(shows) != 2:
        raise AnchorLost("eval_query: expected 2 Context::show call sites (Convert/Expr and Degree), found %d" % len(shows))
    for bb, t in shows:
        raw = fn.apath(t["args"][1])
        bottom = fn.apath(t["args"][2])
        # the raw value must be (top / bottom) [as Some .0]
        r = raw[0]
        # unwrap(...) form (Degree arm) or match Some(raw) form
        inner = raw
        # look through unwrap(..) and the `x.ok_or_else(..)?` form (Try::branch(ok_or_else(x)) as Continue.0)
        for _ in range(4):
            r = inner[0]
            if r[0] == "call" and r[2] and r[1].endswith(("Option::<T>::unwrap", "Try>::branch", "Option::<T>::ok_or_else", "Option::<T>::ok_or")):
                inner = r[2][0]
            else:
                break
        is_div = inner[0][0] == "call" and inner[0][1].endswith("core::ops::arith::Div<&'b types::number::Number>>::div")
        tag = "degree" if "name_base_scale" in ap_str(raw) or "Context::lookup" in ap_str(bottom) else "expr"
        ok_q = False
        top_owner = None
        if is_div:
            num, den = inner[0][2]
            ok_q = val_key(den) == val_key(bottom)
            top_owner = num
        chk.decide(is_div and ok_q, "conversion-gate", fk, tag + ":value-is-top-over-bottom", fn.where(bb),
                   "the reported value is `top / bottom` (Div for &Number) with the same `bottom` that is shown as the unit",
                   "Context::show is not given `top / bottom` of the compared operands (raw = %s)" % ap_str(raw)[:160])
        if not is_div:
            continue
        div_bb = inner[0][3]
        if tag == "degree":
            # top - zero : the numerator is Sub(top, lookup(base)); the compared operand is `top`
            n = top_owner
            for _ in range(4):
                if n[0][0] == "call" and n[0][2] and n[0][1].endswith(("Option::<T>::unwrap", "Try>::branch", "Option::<T>::ok_or_else", "Option::<T>::ok_or")):
                    n = n[0][2][0]
                else:
                    break
            if n[0][0] == "call" and n[0][1].endswith("core::ops::arith::Sub<&'b types::number::Number>>::sub"):
                # re-derive the operand from the Sub call itself (the nested path may have hit the depth limit)
                top_owner = fn.apath(fn.blocks[n[0][3]]["term"]["args"][0])
        owners = {val_key(top_owner), val_key(bottom)}

        def acc(kind, ap, info, owners=owners):
            if kind != "bool":
                return None
            tt = unit_test(ap)
            if not tt or tt[0] not in ("ne", "eq"):
                return None
            if set(val_key(b) if b[0] != 'other' else b for b in tt[1]) != owners:
                return None
            return {"false"} if tt[0] == "ne" else {"true"}
        k2.gate_rule(chk, fn, "conversion-gate", fk, tag + ":same-dimensionality", [bb, div_bb], acc,
                     "the conversion value is computed and shown only behind `top.unit == bottom.unit` of exactly these operands",
                     "a conversion result can be produced for operands whose dimensionalities were not compared")
        # rejecting edge -> conformance_err(ctx, top, bottom) -> QueryError::Conformance
        ces = [(b2, t2) for b2, t2 in fn.calls() if "callee" in t2 and t2["callee"]["path"].split("::")[-1] == "conformance_err"]
        match = [b2 for b2, t2 in ces if {val_key(fn.apath(t2["args"][1])), val_key(fn.apath(t2["args"][2]))} == owners]
        ok = False
        if match:
            cb = match[0]
            res, matched = k2.cut_gate(fn, [cb], lambda kind, ap, info: ({"true"} if unit_test(ap)[0] == "ne" else {"false"}) if kind == "bool" and unit_test(ap) and unit_test(ap)[0] in ("ne", "eq") and set(val_key(b) if b[0] != 'other' else b for b in unit_test(ap)[1]) == owners else None)
            ok = all(res.values()) and bool(matched)
        chk.decide(ok, "conversion-gate", fk, tag + ":mismatch-is-conformance-error", fn.where(match[0]) if match else fn.where(bb),
                   "the failing edge of the same test builds the conformance error from the same two operands",
                   "a dimensionality mismatch of these operands does not lead to conformance_err(top, bottom)")
    # QueryError::Conformance is built from conformance_err's result only
    for i, j, st in fn.stmts():
        rv = st.get("rv", {})
        if rv.get("k") == "agg" and rv.get("adt", "").endswith("reply::QueryError") and rv["variant"] == "Conformance":
            ap = fn.apath(rv["ops"][0])
            chk.decide("conformance_err" in ap_str(ap), "conversion-gate", fk, "conformance-from-helper", fn.where(i, j),
                       "QueryError::Conformance wraps conformance_err(..)", "QueryError::Conformance is built from %s" % ap_str(ap)[:100])
    # substance targets: get_in_unit builds a property reply only behind unit comparisons
    g = F.find(CORE, "runtime::substance::Substance::get_in_unit")
    total = 0
    for c in F.closures_of(g):
        acts = []
        for i, j, st in c.stmts():
            rv = st.get("rv", {})
            if rv.get("k") == "agg" and rv.get("adt", "").endswith("reply::PropertyReply"):
                acts.append(i)
        if not acts:
            continue
        total += len(acts)

        def acc(kind, ap, info):
            if kind != "bool":
                return None
            tt = unit_test(ap)
            if tt and tt[0] in ("ne", "eq"):
                return {"false"} if tt[0] == "ne" else {"true"}
            return None
        k2.gate_rule(chk, c, "conversion-gate", "rink_core::" + c.path, "property-behind-unit-test", acts, acc,
                     "a substance property is reported for a conversion target only behind a dimensionality comparison with the target unit",
                     "get_in_unit reports a property without comparing its dimensionality with the target unit")
    if total < 2:
        chk.anchor_lost("conversion-gate", "rink_core::runtime::substance::Substance::get_in_unit", "expected >=2 PropertyReply constructions in get_in_unit's closures, found %d" % total)


def conformance(chk, F):
    fn = F.find(CORE, "runtime::eval::conformance_err")
    fk = "rink_core::runtime::eval::conformance_err"
    # reciprocal flag: push("Reciprocal ...") behind dimless(topu * bottomu)
    h = F.hir_of(fn)
    import hirutil as H
    from facts import hir_walk
    ifs = [n for n in hir_walk(h["body"]) if n.get("k") == "If" and n["cond"].get("k") == "MethodCall" and n["cond"]["name"] == "dimless"]
    ok = False
    if len(ifs) == 1:
        lits = [x["lit"]["v"] for x in hir_walk(ifs[0]["then"]) if x.get("k") == "Lit" and x["lit"].get("lit") == "str"]
        ok = any("Reciprocal" in l for l in lits) and not any("Reciprocal" in x["lit"]["v"] for x in hir_walk(ifs[0].get("else") or {}) if x.get("k") == "Lit" and x["lit"].get("lit") == "str")
    # what is tested: the product of the two operands' units
    muls = [(bb, t) for bb, t in fn.calls() if "callee" in t and t["callee"]["path"].endswith("core::ops::arith::Mul<&'b types::number::Number>>::mul")]
    dl = [(bb, t) for bb, t in fn.calls() if "callee" in t and t["callee"]["path"].endswith("types::number::Number::dimless")]
    prod = bool(dl) and "arith::Mul" in ap_str(fn.apath(dl[0][1]["args"][0]))
    chk.decide(ok and prod, "conformance-error", fk, "reciprocal-flag", fn.where(), "the reciprocal hint is given exactly when top * bottom is dimensionless",
               "the reciprocal suggestion is not tied to `top * bottom` being dimensionless")
    # operands of * and / have their value reset to exactly one (no division by a zero value, no dependence on magnitudes)
    divs = [(bb, t) for bb, t in fn.calls() if "callee" in t and t["callee"]["path"].endswith("core::ops::arith::Div<&'b types::number::Number>>::div")]
    for bb, t in muls + divs:
        for k, a in enumerate(t["args"]):
            pl = a.get("copy") or a.get("move")
            ap = fn.apath(a)
            base_local = underlying_local(fn, a)
            # find assignments `<local>.value = Numeric::one()` dominating the call
            okv = False
            for i, j, st in fn.stmts():
                pl2 = st.get("place")
                if st["k"] == "assign" and pl2 and pl2["l"] == base_local and pl2["p"] and isinstance(pl2["p"][-1], dict) and pl2["p"][-1].get("f") == "value" \
                        and len(pl2["p"]) == 1 and st["rv"]["k"] == "use" and fn.dominates(i, bb):
                    src = fn.apath(st["rv"]["a"])
                    if src[0][0] == "call" and src[0][1].endswith("types::numeric::Numeric::one") and not src[1]:
                        okv = True
            chk.decide(okv, "conformance-error", fk, "%s-operand%d-unit-valued" % ("mul" if (bb, t) in muls else "div", k), fn.where(bb),
                       "the operand's value was reset to exactly 1 before the unit arithmetic (cannot divide by zero, does not depend on magnitudes)",
                       "conformance_err does unit arithmetic on an operand whose value is not forced to 1: a zero-valued side makes the "
                       "division fail instead of producing the conformance error (operand %s)" % ap_str(ap)[:80])


def val_key(ap):
    """Identity of a value for def-use comparisons: calls are identified by callee + call block, not by argument text."""
    r = ap[0]
    if r[0] == "call":
        return (("call", r[1], r[3]), ap[1])
    if r[0] == "agg" and len(r) > 3:
        return (("agg", r[1], r[3]), ap[1])
    return (r, ap[1])


def underlying_local(fn, op):
    """The local that an operand ultimately borrows (through & / &* / copies of single-definition temporaries)."""
    pl = op.get("copy") or op.get("move")
    for _ in range(8):
        if pl is None:
            return None
        nonderef = [p for p in pl["p"] if p != "*"]
        if nonderef:
            return None
        ds = fn.defs().get(pl["l"], [])
        stmt_defs = [d for d in ds if d[0] == "stmt"]
        if len(ds) == 1 and stmt_defs and stmt_defs[0][3]["k"] in ("ref", "rawptr"):
            pl = stmt_defs[0][3]["place"]
            continue
        if len(ds) == 1 and stmt_defs and stmt_defs[0][3]["k"] == "use":
            pl = stmt_defs[0][3]["a"].get("copy") or stmt_defs[0][3]["a"].get("move")
            continue
        return pl["l"]
    return None


def exact(chk, F):
    roots = [F.find(CORE, "<&'a types::number::Number as core::ops::arith::Div<&'b types::number::Number>>::div", exact=True),
             F.find(CORE, "<&'a types::number::Number as core::ops::arith::Sub<&'b types::number::Number>>::sub", exact=True),
             F.find(CORE, "types::number::Number::invert")]
    nreach, nprim, bad = k4.check_exact(chk, F, "exact-quotient", roots, "the conversion quotient must be exact")
    chk.extra["exact_quotient_reach"] = {"functions": nreach, "float_primitives_seen": nprim}
    if nprim < 3:
        chk.anchor_lost("exact-quotient", "k4", "only %d float primitives seen in the closure of Number::div (expected the float-preserving arms of Numeric's operators)" % nprim)
    # the zero test of Div is exact: compares other.value with Numeric::zero() through Numeric's PartialEq
    fn = roots[0]
    acts = k2.call_blocks(fn, "types::number::Number::invert")

    def acc(kind, ap, info):
        if kind != "bool":
            return None
        r = ap[0]
        if r[0] == "call" and r[1] in ("<types::numeric::Numeric as core::cmp::PartialEq>::eq", "<types::numeric::Numeric as core::cmp::PartialEq>::ne"):
            s = ap_str(ap)
            fzero = False
            if "promoted" in s and "types::numeric::Numeric" in s:
                import k1
                fzero = fn.blocks[r[3]]["term"]["loc"].get("line") in k1.float_zero_lines(F, fn)
            if "arg2.value" in s and ("Numeric::zero()" in s or fzero):
                return {"false"} if r[1].endswith("::eq") else {"true"}
        return None
    k2.gate_rule(chk, fn, "exact-quotient", "rink_core::Number::div", "exact-zero-test", acts, acc,
                 "the divisor is inverted only behind the exact test `other.value != Numeric::zero()`",
                 "Number::div inverts a divisor that was not compared exactly against zero")


def reply_name(chk, F):
    import c07
    policy = {}
    for fam, ex, wp, full in (("Registry::lookup", "loader::registry::Registry::lookup_exact", "loader::registry::Registry::lookup_with_prefix", "loader::registry::Registry::lookup"),
                              ("Registry::canonicalize", "loader::registry::Registry::canonicalize_exact", "loader::registry::Registry::canonicalize_with_prefix", "loader::registry::Registry::canonicalize")):
        c07.family(chk, F, fam, ex, wp, full, policy)
    a, b = policy.get("Registry::lookup"), policy.get("Registry::canonicalize")
    chk.decide(a is not None and a == b, "reply-unit-name", "rink_core::loader::registry::Registry", "canonicalize-reads-like-lookup", "",
               "canonicalize selects the prefix the way lookup does: %s" % a,
               "canonicalize and lookup select the prefix differently (%s vs %s): the unit named in a conversion reply is not the unit the quotient was computed with" % (b, a))


def target_consumed(chk, F):
    """The conversion that is answered is the one that was written: parse_query builds Query::Convert only when nothing but
    end of input follows the target (otherwise `300 K -> degC / s` is answered as `-> degC`, a non-conformable target accepted),
    and the single-token targets (temperature scale, time zone) are consumed before that test."""
    import hirutil as H
    from facts import hir_walk
    fn = F.find(CORE, "parsing::text_query::parse_query")
    h = F.hir_of(fn)
    fk = "rink_core::parsing::text_query::parse_query"
    ctor = [n for n in hir_walk(h["body"]) if n.get("k") == "Call" and n["f"].get("k") == "Path" and n["f"]["r"].get("ctor_of", "").endswith("Query::Convert")]
    if not ctor:
        raise AnchorLost("parse_query: Query::Convert construction not found")
    gated_ids = set()
    for m in hir_walk(h["body"]):
        def looks_at_next_token(scrut):
            """the scrutinee is the next token: iter.peek() itself, or a local helper whose body peeks (after skipping comments)"""
            for x in hir_walk(scrut):
                if x.get("k") == "MethodCall" and x["name"] == "peek":
                    return True
                if x.get("k") == "Call" and x["f"].get("k") == "Path":
                    g = F.fns.get(x["f"]["r"].get("id"))
                    if g is not None and g.crate == CORE and any("Peekable::<I>::peek" in t["callee"]["path"] for _, t in g.calls() if "callee" in t):
                        return True
            return False
        def eof_verdict(scrut):
            """the scrutinee is a private helper's verdict on the next token (`fn leftover(iter) -> Result<(), Token>`): what the
            helper answers when - and only when - that token is the end of the input, as pattern text (`Result::Ok(())`, `true`)"""
            sc = scrut
            while sc.get("k") in ("DropTemps", "Paren") and sc.get("e"):
                sc = sc["e"]
            if sc.get("k") != "Call" or sc["f"].get("k") != "Path":
                return None
            g = F.fns.get(sc["f"]["r"].get("id"))
            if g is None or g.crate != CORE or g.raw.get("public"):
                return None
            for mm in hir_walk(F.hir_of(g)["body"]):
                if mm.get("k") == "Match" and mm.get("src") == "Normal" and looks_at_next_token(mm["scrut"]):
                    bodies = {}
                    for a_ in mm["arms"]:
                        b_ = a_["body"]
                        while b_.get("k") == "Block" and not b_["stmts"] and b_.get("expr"):
                            b_ = b_["expr"]
                        bodies.setdefault(H.expr_str(b_, 60).replace(" ", ""), []).append(H.pat_str(a_["pat"]).replace(" ", ""))
                    for body_txt, pats in bodies.items():
                        if pats in (["Token::Eof"], ["Option::Some(Token::Eof)"]):
                            return body_txt
            return None
        if m.get("k") == "Match" and m.get("src") == "Normal" and looks_at_next_token(m["scrut"]):
            verdict = eof_verdict(m["scrut"])
            for a in m["arms"]:
                ptxt = H.pat_str(a["pat"]).replace(" ", "")
                at_end = ptxt in ("Token::Eof", "Option::Some(Token::Eof)") or (verdict is not None and ptxt == verdict)
                if at_end and any(x is c for c in ctor for x in hir_walk(a["body"])):
                    gated_ids |= {id(c) for c in ctor if any(x is c for x in hir_walk(a["body"]))}
    # the unit-list form is built from parse_unitlist, which itself only succeeds at the end of the input
    lists = [c for c in ctor if "Conversion::List" in H.expr_str(c, 200)]
    if lists:
        ul = F.find(CORE, "parsing::text_query::parse_unitlist")
        hu = F.hir_of(ul)
        loops = [l for l in hir_walk(hu["body"]) if l.get("k") == "Loop"]
        ok_list = False
        for l in loops:
            brk = [b for b in hir_walk(l["body"]) if b.get("k") == "Break" and b.get("target") == l.get("hid")]
            arms_with_break = []
            for m in hir_walk(l["body"]):
                if m.get("k") == "Match" and m.get("src") == "Normal":
                    for a in m["arms"]:
                        if any(b2 is b for b in brk for b2 in hir_walk(a["body"])):
                            arms_with_break.append(H.pat_str(a["pat"]))
            # the list ends only at the real end of the input: an arm that also leaves on a comment or a line end does not count
            ok_list = ok_list or (bool(brk) and len(arms_with_break) == len(brk) and all(p.replace(" ", "") == "Token::Eof" for p in arms_with_break))
        behind_eof = all(id(c) in gated_ids for c in lists)
        chk.decide(ok_list or behind_eof, "target-consumed", fk, "unit-list-ends-at-end-of-input", ul.where(),
                   "the unit-list conversion is built only when nothing follows the list (%s)" % ("the list parser leaves its loop only on Eof" if ok_list else "parse_query tests for the end of the input after the list"),
                   "parse_unitlist also succeeds at a comment or a line end and parse_query does not look at what follows: `1 m -> ft, inch /**/ / s` is answered as `-> ft, inch`")
        if ok_list:
            gated_ids |= {id(c) for c in lists}
    gated = len(gated_ids)
    chk.decide(gated == len(ctor), "target-consumed", fk, "convert-only-at-end-of-input", "%s:%d" % (fn.file, ctor[0]["line"]),
               "Query::Convert is built only in the arm where the next token is the end of the input",
               "Query::Convert is built without checking that the input ends after the target (%d of %d constructions are behind an end-of-input arm): "
               "trailing tokens are dropped and a different, possibly non-conformable, target is answered" % (gated, len(ctor)))
    # a plain expression query is likewise only accepted at the end of the input (`2 ) 3` is not the number 2)
    ector = [n for n in hir_walk(h["body"]) if n.get("k") == "Call" and n["f"].get("k") == "Path" and n["f"]["r"].get("ctor_of", "").endswith("Query::Expr")]
    eg = 0
    for m in hir_walk(h["body"]):
        if m.get("k") == "Match" and m.get("src") == "Normal" and looks_at_next_token(m["scrut"]):
            verdict = eof_verdict(m["scrut"])
            for a in m["arms"]:
                if "Token::Eof" in H.pat_str(a["pat"]) or (verdict is not None and H.pat_str(a["pat"]).replace(" ", "") == verdict):
                    eg += sum(1 for c in ector if any(x is c for x in hir_walk(a["body"])))
    chk.decide(bool(ector) and eg == len(ector), "target-consumed", fk, "expression-only-at-end-of-input", "%s:%d" % (fn.file, ector[0]["line"] if ector else 0),
               "Query::Expr is built only when the whole input has been read",
               "Query::Expr is built without checking that the input ended: `2 ) 3` and `1,5` are answered as `2` and `1`")
    # Degree / Timezone targets: the arm that picks them consumes the token
    arms = []
    for m in hir_walk(h["body"]):
        if m.get("k") == "Match" and m.get("src") == "Normal":
            for a in m["arms"]:
                p = H.pat_str(a["pat"])
                b = a["body"]
                txt = H.expr_str(b, 200)
                if ("Conversion::Degree" in txt and "Token::Degree" in p) or ("Conversion::Timezone" in txt and "is_valid_timezone" in H.expr_str(a.get("guard") or {}, 80)):
                    consumed = any(x.get("k") == "MethodCall" and x["name"] == "next" for x in hir_walk(b))
                    arms.append(("Degree" if "Token::Degree" in p else "Timezone", consumed, a["line"]))
    if len(arms) < 2:
        raise AnchorLost("parse_query: Degree/Timezone target arms not found")
    for kind, consumed, line in arms:
        chk.decide(consumed, "target-consumed", fk, "single-token-target-consumed:" + kind, "%s:%d" % (fn.file, line),
                   "the %s target token is consumed before the end-of-input test" % kind, "the %s target is only peeked: what follows it is never looked at" % kind)
