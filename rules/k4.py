"""K4: float-introduction analysis (exactness).  DESIGN.md section 3, K4.

A *float primitive* is a site that can turn an exact rational into a machine float or read a float out of a
Numeric: construction of Numeric::Float, calls of Numeric::to_f64 / From<&Numeric> for f64 / BigRat::as_float /
BigInt::as_float, and int<->float casts.  A site is *float-preserving* when it is reachable only through a
discriminant edge showing that an operand already is a float (Numeric::Float / Parity::Float arm).  Guarded
reachability from the exact operator set must not reach any other float primitive.
"""
import cg
from facts import ap_str

CORE = "rink_core"
FLOAT_CALLS = ("types::numeric::Numeric::to_f64", "<impl core::convert::From<&'a types::numeric::Numeric> for f64>::from",
               "types::bigrat::BigRat::as_float", "types::bigint::BigInt::as_float", "types::bigrat::BigRat::to_f64")


def float_guarded(fn, bb):
    """Is block bb reachable only through a `... is Float` discriminant edge?"""
    for g in fn.guards_of(bb):
        d = fn.guard_desc(g)
        if d[0] == "variant" and d[3] == "Float" and ("numeric::Numeric" in d[2] or "numeric::Parity" in d[2]):
            return True
    return False


def primitives(fn):
    """[(bb, kind, text)] float primitives in fn."""
    out = []
    for i, j, st in fn.stmts():
        rv = st.get("rv", {})
        if rv.get("k") == "agg" and rv.get("adt") == "types::numeric::Numeric" and rv.get("variant") == "Float":
            out.append((i, "construct", "Numeric::Float{..}"))
        if rv.get("k") == "agg" and rv.get("adt") == "types::numeric::Parity" and rv.get("variant") == "Float":
            out.append((i, "construct", "Parity::Float{..}"))
        if rv.get("k") == "cast" and rv["ck"] in ("IntToFloat", "FloatToInt"):
            out.append((i, "cast", "%s %s -> %s" % (rv["ck"], rv["from"], rv["to"])))
    for bb, t in fn.calls():
        if "callee" in t and t["callee"]["path"].endswith(FLOAT_CALLS):
            out.append((bb, "call", t["callee"]["path"].split("::")[-1] if not t["callee"]["path"].startswith("<impl") else "f64::from(&Numeric)"))
    return out


def exact_reach(F, roots, extra_stop=None):
    """Guarded reachability: call edges issued from float-guarded blocks (or blocks matched by extra_stop(fn, bb))
    are not followed.  Returns {fn id: parent id}."""
    G = cg.get(F)
    parent = {}
    stack = []
    for r in roots:
        parent[r.id] = None
        stack.append(r.id)
    while stack:
        a = stack.pop()
        fa = F.fns[a]
        for b in sorted(G.edges.get(a, ())):
            if b in parent:
                continue
            if F.fns[b].path.endswith(FLOAT_CALLS):
                continue  # the conversion itself is the primitive, reported at its call site
            kind, bb = G.why[(a, b)]
            # all call sites from a to b: follow if at least one is unguarded
            sites = [i for i, t in fa.calls() if edge_targets(G, fa, i, t, b)]
            if not sites:
                sites = [bb]
            follow = False
            for s in sites:
                if float_guarded(fa, s):
                    continue
                if extra_stop and extra_stop(fa, s):
                    continue
                follow = True
            if follow:
                parent[b] = a
                stack.append(b)
    return parent


def edge_targets(G, fa, i, t, b):
    c = t.get("callee")
    if not c:
        return False
    if c["id"] == b or c.get("decl_id") == b:
        return True
    if (c.get("closure_self") or {}).get("id") == b:
        return True
    for l in c.get("links", []):
        if l["target"]["id"] == b:
            return True
    return False


def check_exact(chk, F, rule, roots, what, extra_stop=None, allowed_fns=()):
    """No unguarded float primitive in the guarded-reachable set of `roots`."""
    G = cg.get(F)
    reach = exact_reach(F, roots, extra_stop)
    n = 0
    bad = 0
    for fid in reach:
        fn = F.fns[fid]
        if fn.crate != CORE:
            continue
        for bb, kind, text in primitives(fn):
            n += 1
            fk = "%s::%s" % (fn.crate, fn.path)
            if float_guarded(fn, bb) or (extra_stop and extra_stop(fn, bb)):
                chk.ok(rule, fk, "%s:%s" % (kind, text), fn.where(bb), "float-preserving: reachable only when an operand already is a float")
                continue
            if fn.path in allowed_fns:
                chk.ok(rule, fk, "%s:%s" % (kind, text), fn.where(bb), "inside %s, which is outside the exact set by definition" % fn.path)
                continue
            bad += 1
            chk.finding(rule, fk, "%s:%s" % (kind, text), fn.where(bb),
                        "%s: a float can be introduced here (%s) on a path where every operand is an exact rational" % (what, text),
                        path=G.path_to(reach, fid))
    return len(reach), n, bad
