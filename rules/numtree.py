"""Role-normalised trees of Number arithmetic (def-use over access paths)."""
from facts import ap_str

MUL = "core::ops::arith::Mul<&'b types::number::Number>>::mul"
DIV = "core::ops::arith::Div<&'b types::number::Number>>::div"
ADD = "core::ops::arith::Add<&'b types::number::Number>>::add"
SUB = "core::ops::arith::Sub<&'b types::number::Number>>::sub"
PEEL = ("Option::<T>::unwrap", "Option::<T>::expect", "Option::<T>::ok_or_else", "Option::<T>::ok_or", "Try>::branch", "Iterator>::find", "Iterator::find",
        "Clone>::clone", "Result::<T, E>::unwrap", "Result::<T, E>::expect", "Result::<T, E>::map_err")
ROLE = {"input": "I", "output": "O", "amount": "A"}


def tree(ap, roles=None):
    """Normalised tree text for an access path of a Number value."""
    roles = roles or ROLE
    root, projs = ap
    if root[0] == "call":
        n = root[1]
        if n.endswith(DIV):
            return "div(%s,%s)" % (tree(root[2][0], roles), tree(root[2][1], roles))
        if n.endswith(MUL):
            a, b = sorted([tree(root[2][0], roles), tree(root[2][1], roles)])
            return "mul(%s,%s)" % (a, b)
        if n.endswith(ADD):
            a, b = sorted([tree(root[2][0], roles), tree(root[2][1], roles)])
            return "add(%s,%s)" % (a, b)
        if n.endswith(SUB):
            return "sub(%s,%s)" % (tree(root[2][0], roles), tree(root[2][1], roles))
        if n.endswith(PEEL) and root[2]:
            # (what is selected from the peeled value is selected from what was inside: `find(..).ok_or_else(..)?` then `.output`)
            return tree((root[2][0][0], tuple(root[2][0][1]) + tuple(projs)), roles)
    # leaf: last meaningful field name
    fields = [p for p in projs if not p.startswith("as ") and not p.isdigit()]
    if fields and fields[-1] in roles:
        return roles[fields[-1]]
    if root[0] == "arg" and not fields:
        return "arg%d" % root[1]
    if fields:
        return "." + fields[-1]
    return "?" + ap_str((root, ()))[:40]


def arith_calls(fn):
    return [(bb, t) for bb, t in fn.calls() if "callee" in t and t["callee"]["path"].endswith((MUL, DIV, ADD, SUB))]


def maximal_trees(fn):
    """Trees of arithmetic results that are not themselves operands of another arithmetic call in fn."""
    calls = arith_calls(fn)
    used = set()
    trees = {}
    for bb, t in calls:
        ap = fn.apath_place(t["dest"])
        trees[bb] = tree(ap)
        for a in t["args"]:
            sub = fn.apath(a)
            mark_used(sub, used)
    return {bb: tr for bb, tr in trees.items() if bb not in used}, trees


def mark_used(ap, used):
    root = ap[0]
    if root[0] == "call":
        if root[1].endswith((MUL, DIV, ADD, SUB)):
            used.add(root[3])
        for a in root[2]:
            mark_used(a, used)
