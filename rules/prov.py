"""Value provenance over MIR: which calls can have produced the value an operand holds.

`producers(F, fn, operand)` follows the operand backwards through every definition of the locals involved (if/else and match
arms give several), through `Some(..)`/tuples, through the Option/bool combinators of std (`map`, `filter`, `then`, `then_some`,
`and_then`, `or_else`, `unwrap_or*`, `cloned`, ...), into the closures handed to them and into the private helpers of the crate
(`extract function`), and stops at the calls that make a value: each is reported as (callee path, [argument access paths]) with
the arguments written in terms of the function the question was asked in.  "None"/constants produce nothing.  Something the
walk cannot follow is reported as ("?", text) so that a rule fails closed.

A rule that says "this field is X.to_string() of that value or nothing" therefore holds for `if c { Some(x.to_string()) } else
{ None }`, `c.then(|| x.to_string())`, `Some(x).filter(..).map(T::to_string)` and `helper(&x)` alike.
"""
import facts
from facts import ap_str, subst_ap, callee_name, const_of, place_of

# std combinators: which arguments carry the payload on (indices), which argument is a function applied to the payload
PASS = {
    "Option::<T>::filter": (0,), "Option::<T>::or": (0, 1), "Option::<T>::xor": (0, 1), "Option::<T>::unwrap_or": (0, 1),
    "Option::<T>::unwrap": (0,), "Option::<T>::expect": (0,), "Option::<T>::take": (0,), "Option::<&T>::cloned": (0,), "Option::<&T>::copied": (0,),
    "Option::<T>::as_ref": (0,), "Option::<T>::as_deref": (0,), "Option::<T>::unwrap_or_default": (0,), "Option::<T>::ok_or": (0,),
    "Option::<T>::ok_or_else": (0,), "Option::<T>::flatten": (0,), "Option::<Option<T>>::flatten": (0,),
    "bool::then_some": (1,), "<impl bool>::then_some": (1,), "Clone>::clone": (0,), "From<T>>::from": (0,), "Into<U>>::into": (0,), "ToOwned>::to_owned": (0,),
    "Result::<T, E>::ok": (0,), "Result::<T, E>::unwrap_or": (0, 1), "Try>::branch": (0,), "Result::<T, E>::unwrap": (0,),
}
APPLY = {   # (payload argument or None, function argument)
    "Option::<T>::map": (0, 1), "Option::<T>::and_then": (0, 1), "bool::then": (None, 1), "<impl bool>::then": (None, 1), "Option::<T>::or_else": (0, 1),
    "Option::<T>::unwrap_or_else": (0, 1), "Option::<T>::map_or": (1, 2), "Option::<T>::map_or_else": (None, 2),
    "Option::<T>::get_or_insert_with": (0, 1), "Option::<T>::filter_map": (0, 1),
}
APPLY_ALSO = {"Option::<T>::or_else": (0,), "Option::<T>::unwrap_or_else": (0,), "Option::<T>::map_or": (0,), "Option::<T>::map_or_else": (1,)}


def _closure_subst(ap, captured):
    """Inside a closure `arg1.<i>` is the i-th captured value."""
    root, projs = ap
    k = root[0]
    if k == "arg" and root[1] == 1 and projs and str(projs[0]).isdigit() and int(projs[0]) < len(captured):
        base = captured[int(projs[0])]
        return (base[0], base[1] + projs[1:])
    if k in ("call", "agg"):
        return ((k, root[1], tuple(_closure_subst(a, captured) for a in root[2]), root[3]), projs)
    if k == "binop":
        return (("binop", root[1], _closure_subst(root[2], captured), _closure_subst(root[3], captured)), projs)
    if k == "unop":
        return (("unop", root[1], _closure_subst(root[2], captured)), projs)
    if k == "cast":
        return (("cast", root[1], _closure_subst(root[2], captured), root[3]), projs)
    return ap


def _strip_opt(projs):
    """Provenance is followed modulo Option/Result wrapping: `x as Some .0` is the payload of x."""
    out = []
    i = 0
    projs = tuple(projs)
    while i < len(projs):
        if projs[i] in ("as Some", "as Ok", "as Continue") and i + 1 < len(projs) and projs[i + 1] == "0":
            i += 2
            continue
        out.append(projs[i])
        i += 1
    return tuple(out)


class Walk:
    def __init__(self, F, crate):
        self.F, self.crate = F, crate
        self.out = []
        self.seen = set()

    def fn_by_path(self, path):
        gs = [g for g in self.F.by_crate[self.crate] if g.path == path]
        return gs[0] if len(gs) == 1 else None

    def leaf(self, kind, what):
        if (kind, repr(what)) not in self.seen:
            self.seen.add((kind, repr(what)))
            self.out.append((kind, what))

    consts = False      # report constants as ('const', value) leaves (a rule about numbers wants them)

    def operand(self, fn, op, tr, depth, suffix=()):
        c = const_of(op)
        if c is not None:
            if self.consts:
                self.leaf("const", c.get("int", c.get("dbg", "?")))
            return
        if place_of(op) is None:
            self.leaf("?", "operand %s" % str(op)[:60])
            return
        self.ap(fn, fn.apath(op), tr, depth, suffix)

    def ap(self, fn, ap, tr, depth, suffix=()):
        """ap is an access path of fn as fn.apath gives it (call roots name blocks of fn)."""
        root, projs = ap
        projs = _strip_opt(tuple(projs) + tuple(suffix))
        k = root[0]
        key = (fn.id, repr(root), projs)
        if key in self.seen:
            return
        self.seen.add(key)
        if depth <= 0:
            self.leaf("?", "too deep in %s" % fn.path)
            return
        if k == "arg":
            t = tr((root, projs))
            self.leaf("value", (t[0], _strip_opt(t[1])))
        elif k == "local":
            ds = fn.defs().get(root[1], [])
            if not ds:
                self.leaf("?", "_%d of %s has no definition" % (root[1], fn.path))
            for d in ds:
                if d[0] == "call":
                    self.call(fn, d[1], d[2], tr, depth - 1, projs)
                elif d[0] == "stmt":
                    rv = d[3]
                    kk = rv["k"]
                    if kk in ("use", "cast"):
                        self.operand(fn, rv["a"], tr, depth - 1, projs)
                    elif kk in ("ref", "rawptr"):
                        self.ap(fn, fn.apath_place(rv["place"]), tr, depth - 1, projs)
                    elif kk == "agg":
                        self.aggregate(fn, rv.get("agg") == "closure", [fn.apath(o) for o in rv["ops"]], tr, depth - 1, projs, rv.get("fields"))
                    elif kk in ("binop", "unop", "discr"):
                        if self.consts and kk != "discr":
                            self.leaf("?", "computed value %s" % kk)
                    else:
                        self.leaf("?", "rvalue %s" % kk)
                else:
                    self.leaf("?", "definition %s" % d[0])
        elif k == "call":
            t = fn.blocks[root[3]]["term"] if isinstance(root[3], int) and root[3] < len(fn.blocks) else None
            if t is None or t["k"] != "call":
                self.leaf("?", "call %s not found again in %s" % (root[1][:60], fn.path))
            else:
                self.call(fn, root[3], t, tr, depth - 1, projs)
        elif k == "agg":
            import facts as _facts
            self.aggregate(fn, str(root[1]).startswith("closure:"), list(root[2]), tr, depth - 1, projs, _facts.AGG_FIELDS.get(root[1]))
        elif k == "cast":
            self.ap(fn, root[2], tr, depth - 1, projs)
        elif k == "const":
            if self.consts:
                self.leaf("const", root[1])
        elif k in ("binop", "unop", "discr", "fn"):
            if self.consts and k in ("binop", "unop"):
                self.leaf("?", "computed value %s" % k)
        else:
            self.leaf("?", "%s" % (k,))

    def aggregate(self, fn, is_closure, ops, tr, depth, projs, fields=None):
        if is_closure:
            self.leaf("?", "closure value")
            return
        if projs and fields and projs[0] in fields and len(fields) == len(ops):
            # a named field of a struct value: what was put there
            self.ap(fn, ops[list(fields).index(projs[0])], tr, depth, projs[1:])
            return
        if projs and str(projs[0]).isdigit() and int(projs[0]) < len(ops):
            self.ap(fn, ops[int(projs[0])], tr, depth, projs[1:])
            return
        if projs:
            self.leaf("?", "field %s of an aggregate" % (projs[0],))
            return
        for o in ops:        # Some{x}, (a, b): what is put in flows on
            self.ap(fn, o, tr, depth, ())

    def apply(self, fn, farg, payload_ops, tr, depth, suffix):
        """A function value applied to the payload: a fn item is a producer, a closure is walked."""
        c = const_of(farg)
        if c is not None and "fndef" in c:
            path = callee_name(c["fndef"])
            g = self.F.fns.get(c["fndef"].get("id"))
            if g is not None and g.crate == self.crate and not g.raw.get("public") and not g.raw.get("impl_trait"):
                self.descend(g, [tr(fn.apath(o)) for o in payload_ops], depth, None, suffix)
                return
            self.leaf(path, [tr(fn.apath(o)) for o in payload_ops])
            return
        ap = fn.apath(farg)
        if ap[0][0] == "agg" and str(ap[0][1]).startswith("closure:") and not ap[1]:
            g = self.fn_by_path(ap[0][1][len("closure:"):])
            if g is not None:
                captured = [tr(a) for a in ap[0][2]]
                args = [tr(fn.apath(o)) for o in payload_ops]
                self.descend(g, args, depth, captured, suffix)
                return
        self.leaf("?", "function value %s" % ap_str(ap)[:80])

    def descend(self, g, args, depth, captured=None, suffix=()):
        """Sources of g's return value; g's parameters stand for `args` (closures: parameter 1 is the environment)."""
        if captured is not None:
            argmap = {i + 2: a for i, a in enumerate(args)}
            tr2 = lambda ap: _closure_subst(subst_ap(ap, argmap), captured)
        else:
            argmap = {i + 1: a for i, a in enumerate(args)}
            tr2 = lambda ap: subst_ap(ap, argmap)
        self.ap(g, (("local", 0), ()), tr2, depth - 1, suffix)

    def call(self, fn, bb, t, tr, depth, suffix=()):
        if "callee" not in t:
            self.leaf("?", "indirect call at %s" % fn.where(bb))
            return
        c = t["callee"]
        name = callee_name(c)
        cs = c.get("closure_self")
        if cs:
            g = self.F.fns.get(cs["id"])
            if g is not None:
                ap = fn.apath(t["args"][0])
                captured = [tr(a) for a in ap[0][2]] if ap[0][0] == "agg" else []
                self.descend(g, [tr(fn.apath(a)) for a in t["args"][1:]], depth, captured, suffix)
                return
        for sfx, idxs in PASS.items():
            if name.endswith(sfx):
                for i in idxs:
                    if i < len(t["args"]):
                        self.operand(fn, t["args"][i], tr, depth, suffix)
                return
        for sfx, (pi, fi) in APPLY.items():
            if name.endswith(sfx):
                payload_ = [t["args"][pi]] if pi is not None else []
                self.apply(fn, t["args"][fi], payload_, tr, depth, suffix)
                for i in APPLY_ALSO.get(sfx, ()):
                    self.operand(fn, t["args"][i], tr, depth, suffix)
                return
        g = self.F.fns.get(c.get("id"))
        if g is not None and g.crate == self.crate and not g.raw.get("public") and not g.raw.get("impl_trait") and "{closure" not in g.path:
            self.descend(g, [tr(fn.apath(a)) for a in t["args"]], depth, None, suffix)
            return
        args = [tr(fn.apath(a)) for a in t["args"]]
        if suffix:
            # a part of what the call returned: a plain value, rooted at the call
            self.leaf("value", (("call", name, tuple(args), bb), tuple(suffix)))
        else:
            self.leaf(name, args)


def producers(F, fn, operand, depth=8):
    """[(callee path, [argument access paths in terms of fn])] - see the module text."""
    w = Walk(F, fn.crate)
    w.operand(fn, operand, lambda ap: ap, depth)
    return [(k, (ap_str(v) if k == "value" else v)) for k, v in w.out]


def sources(F, fn, operand, depth=10, consts=False):
    """Like producers, with the leaves that are plain values given as access paths: [('value', access path) | (callee, args) |
    ('?', text)]."""
    w = Walk(F, fn.crate)
    w.consts = consts
    w.operand(fn, operand, lambda ap: ap, depth)
    return w.out


def payload(ap):
    """The value inside `Some{x}` / through filter/as_ref/cloned: what a function mapped over an Option is applied to."""
    for _ in range(6):
        r = ap[0]
        if r[0] == "agg" and str(r[1]).endswith("Option::Some") and r[2]:
            ap = (r[2][0][0], r[2][0][1] + ap[1])
        elif r[0] == "call" and r[1].endswith(tuple(k for k, v in PASS.items() if v == (0,))) and r[2]:
            ap = (r[2][0][0], r[2][0][1] + ap[1])
        else:
            break
    return ap
