#!/usr/bin/env python3
"""dev helper + library: compact rendering of HIR fact trees"""
import sys, os
sys.path.insert(0, os.path.dirname(os.path.abspath(__file__)))


def pat(p):
    k = p["pk"]
    if k == "wild": return "_"
    if k == "bind": return p["name"] + ("@" + pat(p["sub"]) if "sub" in p else "")
    if k == "tuplestruct": return "%s(%s)" % (short(p["path"]), ", ".join(pat(s) for s in p["subs"]))
    if k == "struct": return "%s{%s%s}" % (short(p["path"]), ", ".join("%s: %s" % (f["name"], pat(f["pat"])) for f in p["fields"]), ", .." if p.get("rest") else "")
    if k == "or": return " | ".join(pat(s) for s in p["alts"])
    if k == "tuple": return "(%s)" % ", ".join(pat(s) for s in p["subs"])
    if k in ("ref", "deref"): return "&" + pat(p["sub"])
    if k == "expr":
        e = p["e"]
        if "lit" in e: return repr(e.get("v"))
        return short(e)
    if k == "range": return "%s..%s" % (p.get("lo", {}).get("v"), p.get("hi", {}).get("v"))
    if k == "slice": return "[..]"
    return k


def short(r):
    if r.get("res") == "local": return r["name"]
    p = r.get("path", r.get("dbg", "?"))
    parts = p.split("::")
    return "::".join(parts[-2:]) if len(parts) > 1 else p


def expr(e, depth=0, maxdepth=99):
    if e is None: return "-"
    k = e.get("k")
    if depth > maxdepth: return "..."
    r = lambda x: expr(x, depth + 1, maxdepth)
    if k == "Path": return short(e["r"])
    if k == "Lit": return repr(e["lit"].get("v"))
    if k == "Call": return "%s(%s)" % (r(e["f"]), ", ".join(r(a) for a in e["args"]))
    if k == "MethodCall": return "%s.%s(%s)" % (r(e["recv"]), e["name"], ", ".join(r(a) for a in e["args"]))
    if k == "Field": return "%s.%s" % (r(e["e"]), e["name"])
    if k == "AddrOf": return ("&mut " if e["mut"] else "&") + r(e["e"])
    if k == "Unary": return "%s(%s)" % (e["op"], r(e["a"]))
    if k == "Binary": return "(%s %s %s)" % (r(e["a"]), e["op"], r(e["b"]))
    if k == "Assign": return "%s = %s" % (r(e["lhs"]), r(e["rhs"]))
    if k == "AssignOp": return "%s %s= %s" % (r(e["lhs"]), e["op"], r(e["rhs"]))
    if k == "Struct": return "%s{%s}" % (short(e["path"]), ", ".join("%s: %s" % (f["name"], r(f["e"])) for f in e["fields"]))
    if k == "Tup": return "(%s)" % ", ".join(r(x) for x in e["elems"])
    if k == "Array": return "[%s]" % ", ".join(r(x) for x in e["elems"])
    if k == "Ret": return "return %s" % r(e.get("e"))
    if k == "Break": return "break %s" % (r(e.get("e")) if e.get("e") else "")
    if k == "Continue": return "continue"
    if k == "Cast": return "(%s as %s)" % (r(e["e"]), e.get("ty"))
    if k == "Index": return "%s[%s]" % (r(e["a"]), r(e["b"]))
    if k == "Closure": return "|%s| %s" % (", ".join(pat(p) for p in e["params"]), r(e["body"]))
    if k == "If": return "if %s {%s} else {%s}" % (r(e["cond"]), r(e["then"]), r(e.get("else")))
    if k == "Let": return "let %s = %s" % (pat(e["pat"]), r(e["init"]))
    if k == "Match": return "match[%s] %s {%s}" % (e["src"], r(e["scrut"]), "; ".join("%s%s => %s" % (pat(a["pat"]), (" if " + r(a["guard"])) if a.get("guard") else "", r(a["body"])) for a in e["arms"]))
    if k == "Loop": return "loop[%s] %s" % (e["src"], r(e["body"]))
    if k == "Block":
        ss = []
        for s in e["stmts"]:
            if s["sk"] == "let": ss.append("let %s = %s" % (pat(s["pat"]), r(s.get("init"))))
            elif s["sk"] in ("expr", "semi"): ss.append(r(s["e"]))
        if e.get("expr"): ss.append(r(e["expr"]))
        return "{ " + "; ".join(ss) + " }"
    if k in ("Use", "Type", "Yield", "Repeat", "Become"): return "%s(%s)" % (k, r(e.get("e")))
    return str(k)


def tree(e, ind=0, out=None):
    """Indented statement-level rendering."""
    if out is None: out = []
    pad = "  " * ind
    k = e.get("k") if isinstance(e, dict) else None
    if k == "Block":
        for s in e["stmts"]:
            if s["sk"] == "let":
                out.append("%s[%d] let %s =" % (pad, s["line"], pat(s["pat"])))
                if s.get("init"): tree(s["init"], ind + 1, out)
            elif s["sk"] in ("expr", "semi"):
                tree(s["e"], ind, out)
        if e.get("expr"): tree(e["expr"], ind, out)
    elif k == "Match":
        out.append("%s[%d] match[%s] %s" % (pad, e["line"], e["src"], expr(e["scrut"], 0, 6)))
        for a in e["arms"]:
            out.append("%s  ARM %s%s =>" % (pad, pat(a["pat"]), (" if " + expr(a["guard"], 0, 6)) if a.get("guard") else ""))
            tree(a["body"], ind + 2, out)
    elif k == "Loop":
        out.append("%s[%d] loop[%s]" % (pad, e["line"], e["src"]))
        tree(e["body"], ind + 1, out)
    elif k == "If":
        out.append("%s[%d] if %s" % (pad, e["line"], expr(e["cond"], 0, 8)))
        tree(e["then"], ind + 1, out)
        if e.get("else"):
            out.append("%selse" % pad)
            tree(e["else"], ind + 1, out)
    elif k == "Closure":
        out.append("%s[%d] closure(%s) |%s|" % (pad, e["line"], e.get("ckind"), ", ".join(pat(p) for p in e["params"])))
        tree(e["body"], ind + 1, out)
    elif k is not None:
        out.append("%s[%d] %s" % (pad, e.get("line", 0), expr(e, 0, 10)[:220]))
    return out


if __name__ == "__main__":
    import facts
    F = facts.load()
    crate, suffix = sys.argv[1], sys.argv[2]
    for fn in F.find(crate, suffix, allow_many=True):
        h = F.hir[crate].get(fn.id)
        if h:
            print("fn", h["path"], h["inputs"], "->", h["output"])
            print("\n".join(tree(h["body"])))
