#!/usr/bin/env python3
"""dev helper: pretty-print the MIR facts of functions matching a suffix"""
import sys, os, json
sys.path.insert(0, os.path.dirname(os.path.abspath(__file__)))
import facts
from facts import place_str, place_of, const_of

def opstr(o):
    c = const_of(o)
    if c is not None:
        if 'fndef' in c: return 'fn:' + c['fndef']['path']
        if 'int' in c: return 'const %s' % c['int']
        return c['dbg']
    p = place_of(o)
    if p is not None: return ('move ' if 'move' in o else '') + place_str(p)
    return json.dumps(o)[:60]

def rvstr(rv):
    k = rv['k']
    if k == 'use': return opstr(rv['a'])
    if k == 'ref': return ('&mut ' if rv['mut'] else '&') + place_str(rv['place'])
    if k == 'rawptr': return '&raw ' + place_str(rv['place'])
    if k == 'cast': return '%s as %s (%s)' % (opstr(rv['a']), rv['to'], rv['ck'])
    if k == 'binop': return '%s(%s, %s)' % (rv['op'], opstr(rv['a']), opstr(rv['b']))
    if k == 'unop': return '%s(%s)' % (rv['op'], opstr(rv['a']))
    if k == 'discr': return 'discriminant(%s)' % place_str(rv['place'])
    if k == 'agg':
        n = rv.get('adt', rv['agg']) + ('::' + rv['variant'] if 'variant' in rv else '')
        if rv['agg'] == 'closure': n = 'closure ' + rv['closure']['path']
        return '%s{%s}' % (n, ', '.join(opstr(o) for o in rv['ops']))
    return rv.get('dbg', k)

def dump(fn, show_cleanup=False):
    print('fn %s  [%s]  %s:%d' % (fn.path, fn.crate, fn.loc['file'], fn.loc['line']))
    for i, t in enumerate(fn.locals):
        print('   let _%d: %s %s' % (i, t, ('// ' + fn.varnames[i]) if i in fn.varnames else ''))
    for i, b in enumerate(fn.blocks):
        if b['cleanup'] and not show_cleanup: continue
        print(' bb%d:%s' % (i, ' (cleanup)' if b['cleanup'] else ''))
        for st in b['stmts']:
            if st['k'] == 'assign':
                print('    %s = %s    // :%d' % (place_str(st['place']), rvstr(st['rv']), st['loc']['line']))
            else:
                print('    %s' % json.dumps(st)[:100])
        t = b['term']; k = t['k']
        if k == 'call':
            name = t['callee']['path'] if 'callee' in t else 'indirect ' + opstr(t['indirect'])
            extra = ''
            if 'callee' in t and t['callee'].get('links'):
                extra = '  links=' + ','.join(l['target']['path'] for l in t['callee']['links'])
            print('    %s = %s(%s) -> bb%s   // :%d%s%s' % (place_str(t['dest']), name, ', '.join(opstr(a) for a in t['args']), t.get('target'), t['loc']['line'], ' exp=' + t['loc']['exp'] if 'exp' in t['loc'] else '', extra))
        elif k == 'switch':
            print('    switch %s [%s] otherwise bb%d' % (opstr(t['discr']), ', '.join('%s->bb%d' % (v, tb) for v, tb in t['targets']), t['otherwise']))
        elif k == 'assert':
            print('    assert(%s == %s, %s) -> bb%d  // :%d' % (opstr(t['cond']), t['expected'], json.dumps({kk: (opstr(v) if isinstance(v, dict) else v) for kk, v in t['msg'].items()}), t['target'], t['loc']['line']))
        elif k == 'drop':
            print('    drop(%s) -> bb%d' % (place_str(t['place']), t['target']))
        else:
            print('    %s %s' % (k, t.get('target', '')))

if __name__ == '__main__':
    F = facts.Facts(sys.argv[1]) if os.path.isdir(sys.argv[1]) else None
    args = sys.argv[2:] if F else sys.argv[1:]
    if F is None: F = facts.load()
    crate, suffix = args[0], args[1]
    for fn in F.find(crate, suffix, allow_many=True):
        dump(fn, len(args) > 2)
        print()
