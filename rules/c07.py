"""C07 Unit names resolve exact first, then prefix, then plural.  DESIGN.md section 4, C07."""
import cg
import facts
import k2
from facts import AnchorLost, ap_str, ap_calls

CORE = "rink_core"


def calls_to(fn, suffix):
    return [(bb, t) for bb, t in fn.calls() if "callee" in t and t["callee"]["path"].endswith(suffix)]


def first_and_rest(fn, sites):
    """Split call sites into the one that dominates all others and the rest."""
    for bb, t in sites:
        if all(fn.dominates(bb, b2) for b2, _ in sites):
            return (bb, t), [(b, x) for b, x in sites if b != bb]
    raise AnchorLost("no dominating first lookup among %d sites in %s" % (len(sites), fn.path))


def run(chk, F):
    chk.explanation = (
        "Fallback-order analysis on the MIR CFG of the three sibling lookup families (Registry::lookup*, "
        "Registry::canonicalize*, loader Resolver::lookup*) and Context::lookup: in every family the prefix loop is "
        "reachable only through the None/false edge of the exact lookup, the plural retry only through the None/false "
        "edge of the full prefixed lookup and behind the trailing-'s' test, and a hit of the earlier stage is returned "
        "unchanged (single-edge cut-set). The prefix loops iterate the prefix table itself, forwards, and return on "
        "the first hit (no reordering adaptor); the prefixed value is exact-unit x the same tuple's prefix value. "
        "Context::lookup consults ans/ANS/_ and the (load-time, provably emptied) temporaries before the registry. "
        "Determinism: the registry's containers are BTreeMap/BTreeSet/Vec and no hash iteration, clock, env or "
        "randomness is reachable from lookup or canonicalize.")
    fams = [
        ("Registry::lookup", "loader::registry::Registry::lookup_exact", "loader::registry::Registry::lookup_with_prefix", "loader::registry::Registry::lookup"),
        ("Registry::canonicalize", "loader::registry::Registry::canonicalize_exact", "loader::registry::Registry::canonicalize_with_prefix", "loader::registry::Registry::canonicalize"),
        ("Resolver::lookup", "loader::load::Resolver::lookup_exact", "loader::load::Resolver::lookup_with_prefix", "loader::load::Resolver::lookup"),
    ]
    policy = {}
    for fam, exact, withp, full in fams:
        chk.guard("fallback-order", fam, lambda fam=fam, exact=exact, withp=withp, full=full: family(chk, F, fam, exact, withp, full, policy))
    chk.floor("fallback-order", 12, "(3 families x {prefix-after-exact, exact-hit-returned, plural-after-prefix, prefix-hit-returned})")
    # sibling agreement on the selection policy
    pv = {k: tuple(sorted(v.items())) for k, v in policy.items()}
    if len(pv) == 3:
        base = pv["Registry::lookup"]
        for k, v in pv.items():
            chk.decide(v == base or k == "Resolver::lookup", "sibling-agreement", k, "prefix-selection-policy", "",
                       "same prefix selection policy as Registry::lookup: %s" % dict(v),
                       "%s selects the prefix differently from Registry::lookup: %s vs %s (canonicalising or dependency ordering "
                       "would then read a name differently from evaluation)" % (k, dict(v), dict(base)))
    chk.guard("exact-stage-agreement", "Registry", lambda: exact_stage(chk, F))
    chk.guard("exact-stage-agreement", "closes_alias_cycle", lambda: cycle_walk_reading(chk, F))
    chk.guard("exact-stage-agreement", "canonicalize_exact", lambda: exact_means_exact(chk, F))
    chk.guard("context-lookup", "Context::lookup", lambda: context_lookup(chk, F))
    chk.guard("determinism", "registry", lambda: determinism(chk, F))
    # "the first matching prefix wins" is only deterministic if the order of the prefix table is: it is filled in the order
    # the loader emits definitions, so that order must be a function of the text (seeded C07-m6: the loader's work list as a
    # HashSet - `dau` is 0.1 au in most processes and 10 u in some)
    import loader_rules as L
    chk.guard("determinism", "loader", lambda: L.determinism(chk, F, rule="determinism"))
    chk.guard("determinism", "loader-containers", lambda: L.containers(chk, F, rule="determinism"))
    chk.guard("determinism", "loader-worklist", lambda: L.driver_loop(chk, F, rule="determinism"))
    import shared_rules
    chk.guard("temporaries-cleared", "load_defs", lambda: shared_rules.temporaries_cleared(chk, F))


def family(chk, F, fam, exact, withp, full, policy):
    # --- *_with_prefix: exact first, then the loop -------------------------------------------------
    # (the private stages under the names they have today)
    al = F.stage_aliases()
    exact, withp, full = al.get((CORE, exact), exact), al.get((CORE, withp), withp), al.get((CORE, full), full)
    # the normalised form: `a.or_else(|| ..)`, `find_map`/`any` closures and private helpers are put back as the match / loop
    # they stand for; the stage functions the rule is about stay calls
    stages = ("::" + exact.split("::")[-1], "::" + withp.split("::")[-1], "::" + full.split("::")[-1])
    fn = F.find(CORE, withp, inline=True, keep=stages)
    fk = "rink_core::" + withp
    sites = calls_to(fn, exact)
    closures = F.closures_of(fn)
    inner_sites = []
    for c in closures:
        for bb, t in calls_to(c, exact):
            inner_sites.append((c, bb, t))
    if not sites:
        raise AnchorLost("%s does not call %s" % (withp, exact))
    (c1, t1), rest = first_and_rest(fn, sites)
    # first lookup uses the whole name
    name_arg = fn.apath(name_op(F, t1))
    chk.decide(is_whole_name(fn, name_arg), "fallback-order", fk, "exact-on-whole-name", fn.where(c1),
               "the exact lookup is tried on the unmodified name first", "first exact lookup is on %s, not the whole name" % ap_str(name_arg))
    k2.returned_unchanged(chk, fn, "fallback-order", fk, c1, "exact-hit-returned")
    second = [b for b, _ in rest]
    if not second and inner_sites:
        # the loop body lives in a closure (`any`): the closure's creation must be behind the failing edge
        for i, j, st in fn.stmts():
            rv = st.get("rv", {})
            if rv.get("k") == "agg" and rv.get("agg") == "closure" and rv["closure"]["id"] in {c.id for c, _, _ in inner_sites}:
                second.append(i)
    if not second:
        raise AnchorLost("%s has no second (prefixed) exact lookup" % withp)
    for b in second:
        k2.fallback_order(chk, fn, "fallback-order", fk, c1, b, "prefix-after-exact")
    # selection policy facts
    pol = {}
    ext = [t["callee"]["path"] for _, t in fn.calls() if "callee" in t and t["callee"]["crate"] not in ("rink_core",)]
    for c in closures:
        ext += [t["callee"]["path"] for _, t in c.calls() if "callee" in t and t["callee"]["crate"] not in ("rink_core",)]
    REORDER = {"rev", "sort", "sort_by", "sort_by_key", "sort_unstable", "sort_unstable_by", "sort_unstable_by_key", "sorted", "max_by",
               "max_by_key", "min_by", "min_by_key", "last", "rposition", "rfind", "max", "min", "fold", "reduce", "rfold", "filter",
               "collect", "skip", "skip_while", "take", "step_by", "chain", "cycle", "zip", "next_back", "nth", "nth_back", "pop", "rsplit"}
    reorder = sorted(set(p for p in ext if p.split("::")[-1] in REORDER or "BinaryHeap" in p or "HashMap" in p or "HashSet" in p))
    # what decides which prefix is tried first is the iterator that drives the loop the prefixed lookups sit in: only adaptors on
    # *that* iterator reorder the trial (another pass over the table - choosing among equal-valued prefixes which name to show,
    # say, with `fold` in a helper - does not)
    drivers = [(nb, t_) for nb, t_ in fn.calls() if "callee" in t_ and t_["callee"]["path"].endswith("Iterator>::next") and t_["args"]
               and any(fn.dominates(nb, b) for b in second)]
    if drivers:
        on_chain = set()
        for nb, t_ in drivers:
            on_chain |= set(ap_calls(fn.apath(t_["args"][0])))
        # closures that run a lookup stage themselves are part of the trial order as well
        for c in closures:
            if calls_to(c, exact):
                on_chain |= set(t_["callee"]["path"] for _, t_ in c.calls() if "callee" in t_ and t_["callee"]["crate"] not in ("rink_core",))
        hashy = [p for p in ext if "BinaryHeap" in p or "HashMap" in p or "HashSet" in p]
        reorder = sorted(set(p for p in on_chain if p.split("::")[-1] in REORDER) | set(hashy))
    pol["reordering-adaptors"] = ",".join(x.split("::")[-1] for x in reorder)
    # iteration source
    src = None
    for bb, t in fn.calls():
        if "callee" in t and t["callee"]["path"].endswith("IntoIterator>::into_iter"):
            ap = fn.apath(t["args"][0])
            src = ap_str(ap)
    if src is None:
        # `self.prefixes.iter()` driving a find_map / any that has been put back as the loop it stands for
        for bb, t in fn.calls():
            if "callee" in t and t["callee"]["path"].endswith(("<impl [T]>::iter", "Vec::<T, A>::iter")) and t["args"]:
                ap = fn.apath(t["args"][0])
                while ap[0][0] == "call" and len(ap[0][2]) == 1 and ap[0][1].endswith(("Deref>::deref", "::as_slice")) and not ap[1]:
                    ap = ap[0][2][0]
                if any("callee" in t2 and t2["callee"]["path"].endswith("Iterator>::next") and bb in [x for x in range(len(fn.blocks)) if fn.dominates(bb, b2)] for b2, t2 in fn.calls()):
                    src = ap_str(ap)
    pol["iterates"] = src
    if fam.startswith("Registry"):
        chk.decide(src == "arg1.prefixes" and not reorder, "prefix-iteration", fk, "forward-over-prefix-table", fn.where(),
                   "the prefix loop iterates self.prefixes directly and forwards; first match returns",
                   "the prefix loop does not iterate self.prefixes forwards with first-match-wins (source %s, adaptors %s)" % (src, reorder))
        # first match wins: the prefixed hit returns from inside the loop
        for b in second:
            returns = False
            reach = fn.reachable(b)
            for i, j, st in fn.stmts():
                if i in reach and st["k"] == "assign" and not st["place"]["p"] and st["rv"].get("k") == "agg" and st["rv"].get("variant") == "Some" \
                        and str(st["rv"].get("adt", "")).endswith("option::Option"):
                    if "pos" in k2.labels_on_call(fn, i, b):
                        # from that block the loop header must not be reachable before return (the value just built is a Some:
                        # a test of it that follows - the `find_map` loop's own - takes its Some side)
                        hdr_again = b in k2.reach_known(fn, i, st["place"]["l"], "Some")
                        returns = not hdr_again
            chk.decide(returns, "prefix-iteration", fk, "first-hit-returns", fn.where(b),
                       "a prefixed hit leaves the loop immediately (first matching prefix in table order wins)",
                       "a prefixed hit does not return immediately: a later prefix can override an earlier one")
        if fam == "Registry::lookup":
            prefixed_value(chk, fn, fk, second[0])
    policy[fam] = pol
    # --- full lookup: plural retry only after --------------------------------------------------------
    fn = F.find(CORE, full, inline=True, keep=stages)
    fk = "rink_core::" + full
    sites = calls_to(fn, withp)
    esites = calls_to(fn, exact)
    if len(sites) == 2 and not esites:
        (c1, t1), rest = first_and_rest(fn, sites)
        c2, t2 = rest[0]
        chk.decide(is_whole_name(fn, fn.apath(name_op(F, t1))), "fallback-order", fk, "whole-name-first", fn.where(c1),
                   "the full prefixed lookup is tried on the unmodified name first", "first lookup is not on the whole name")
        k2.fallback_order(chk, fn, "fallback-order", fk, c1, c2, "plural-after-prefix")
        k2.returned_unchanged(chk, fn, "fallback-order", fk, c1, "prefix-hit-returned")
        chk.decide(strips_s(fn, c2, t2), "fallback-order", fk, "plural-strips-trailing-s", fn.where(c2),
                   "the retry is on the name without its trailing 's' and only when there is one",
                   "plural retry argument is %s" % ap_str(fn.apath(name_op(F, t2)))[:160])
        return
    # any other arrangement of the stage calls (closures included): order them along the all-miss path and compare
    # the flattened stage sequence with exact(whole) < prefix(whole) < exact(singular) < prefix(singular)
    stage_order(chk, fn, fk, [(b, t, "P") for b, t in sites] + [(b, t, "E") for b, t in esites], F, exact, withp)


def name_param(fn):
    """Which parameter of a lookup function is the name (1-based): the one of a string type, wherever it stands."""
    for i in range(2, fn.raw.get("arg_count", 0) + 1):
        ty = fn.locals[i]
        if "str" in ty or "String" in ty:
            return i
    return 2


def name_op(F, t):
    """The operand a call passes as the name (the callee's string parameter)."""
    g = F.fns.get(t["callee"]["id"]) if "callee" in t else None
    i = name_param(g) - 1 if g is not None else 1
    return t["args"][i] if i < len(t["args"]) else t["args"][-1]


def is_whole_name(fn, ap):
    """The function's own name parameter, possibly re-wrapped by value-preserving conversions (clone, Rc::new(x.to_owned()) ..)."""
    np_ = name_param(fn)
    for _ in range(8):
        if ap == (("arg", np_), ()):
            return True
        r = ap[0]
        if r[0] == "call" and not ap[1] and len(r[2]) == 1 and r[1].endswith(REWRAP):
            ap = r[2][0]
            continue
        return False
    return False


def strips_s(fn, c2, t2, F=None):
    import facts as _f
    F = F or _f.CURRENT
    s2 = ap_str(fn.apath(name_op(F, t2)))
    # `name.strip_suffix('s')` taken on its Some side: `if let Some(x)`, or `x?` inside a closure / function returning Option
    if ("strip_suffix(arg%d, " % name_param(fn)) in s2 and ("as Some" in s2 or ("Try>::branch(" in s2 and "as Continue" in s2)):
        return True
    # name[0..len-1] guarded by ends_with('s')
    gs = [fn.guard_desc(g) for g in fn.guards_of(c2)]
    ew = any(d[0] == "bool" and d[2] is True and any(c.endswith("ends_with") for c in ap_calls(d[1])) for d in gs)
    return ew and "index(" in s2.lower()


REWRAP = ("Rc::<T>::new", "Arc::<T>::new", "ToOwned for str>::to_owned", "ToString>::to_string", "From<&str>>::from", "Deref>::deref",
          "Clone>::clone", "String::as_str", "Borrow<str>>::borrow", "AsRef<str>>::as_ref")


def is_rewrap_of_param(ap):
    """The closure's own parameter (arg2), possibly re-wrapped by value-preserving conversions (Rc::new(x.to_owned()) ...)."""
    for _ in range(8):
        if ap == (("arg", 2), ()):
            return True
        r = ap[0]
        if r[0] == "call" and not ap[1] and len(r[2]) == 1 and r[1].endswith(REWRAP):
            ap = r[2][0]
            continue
        return False
    return False


def stage_order(chk, fn, fk, calls, F, exact, withp):
    """calls: [(bb, term, 'E'|'P')] in the full lookup's own body.  Every call must be ordered against every other
    by 'runs only after the other missed'; the flattened first occurrences must read E(w) P(w) E(s) P(s)."""
    COMB = ("Option::<T>::map_or", "Option::<T>::is_some_and", "Option::<T>::and_then", "Option::<T>::map")
    recv_of = {}
    for c in F.closures_of(fn):
        inner = [(t, "P") for _, t in calls_to(c, withp)] + [(t, "E") for _, t in calls_to(c, exact)]
        if not inner:
            continue
        # the stage runs where the closure is handed to an Option combinator; its name parameter is the Some-content
        # of the combinator's receiver
        use = [(bb, t) for bb, t in fn.calls() if "callee" in t and any(("closure:" + c.path) in ap_str(fn.apath(a)) for a in t["args"][1:])]
        if len(use) != 1 or len(inner) != 1 or not use[0][1]["callee"]["path"].endswith(COMB) or not is_rewrap_of_param(c.apath(inner[0][0]["args"][1])):
            raise AnchorLost("%s runs a lookup stage inside closure %s in a way this rule does not model" % (fn.path, c.path))
        bb, t = use[0]
        recv_of[bb] = fn.apath(t["args"][0])
        calls.append((bb, {"args": [None, t["args"][0]]}, inner[0][1]))
    if not calls:
        raise AnchorLost("%s calls neither %s nor %s" % (fn.path, exact, withp))
    # total order along the all-miss path: a before b when b is reachable from a (the body has no loop over stages)
    reach = {c[0]: fn.reachable(c[0]) for c in calls}
    order = sorted(calls, key=lambda c: sum(1 for d in calls if d[0] != c[0] and c[0] in reach[d[0]]))
    for a, b in zip(order, order[1:]):
        if b[0] not in reach[a[0]] or a[0] in reach[b[0]]:
            raise AnchorLost("%s: lookup stages at %s and %s are not ordered along one path" % (fn.path, fn.where(a[0]), fn.where(b[0])))
    flat = []
    for i, (bb, t, kind) in enumerate(order):
        ap = fn.apath(name_op(F, t)) if "callee" in t else fn.apath(t["args"][1])
        if is_whole_name(fn, ap):
            nm = "whole"
        elif ("strip_suffix(arg%d, " % name_param(fn)) in ap_str(ap) or (bb not in recv_of and strips_s(fn, bb, t)):
            nm = "singular"
        else:
            chk.finding("fallback-order", fk, "stage-name", fn.where(bb),
                        "lookup stage is tried on %s, which is neither the whole name nor the name without its trailing 's'" % ap_str(ap)[:120])
            continue
        if i > 0:
            chk.decide(all(k2.only_after_miss(fn, p[0], bb) for p in order[:i]), "fallback-order", fk, "stage-%d-only-after-miss" % (i + 1), fn.where(bb),
                       "stage runs only on the miss edge of the previous stage",
                       "stage at %s can run after an earlier stage (%s) has hit" % (fn.where(bb), ", ".join(fn.where(p[0]) for p in order[:i])))
        for st in (["E", "P"] if kind == "P" else ["E"]):
            if (st, nm) not in [f[0] for f in flat]:
                flat.append(((st, nm), bb))
    want = [("E", "whole"), ("P", "whole"), ("E", "singular"), ("P", "singular")]
    got = [f[0] for f in flat]
    bad = next((flat[i] for i in range(len(flat)) if i >= len(want) or flat[i][0] != want[i]), None)
    names = {"E": "exact", "P": "prefixed"}
    chk.decide(got == want, "fallback-order", fk, "plural-after-prefix", fn.where(bad[1]) if bad else fn.where(order[0][0]),
               "stages run as exact(whole), prefixed(whole), exact(singular), prefixed(singular)",
               "stages run as %s; expected exact(whole) < prefixed(whole) < exact(singular) < prefixed(singular): a plural-stripped "
               "or later-stage reading can win over an earlier-stage reading of the same name"
               % ", ".join("%s(%s)" % (names[a], b) for a, b in got))
    k2.returned_unchanged(chk, fn, "fallback-order", fk, order[0][0], "prefix-hit-returned")


def prefixed_value(chk, fn, fk, c2):
    """Some(exact(rest) * Number::new(value.clone())) with value from the same tuple as the matched prefix."""
    ok = False
    detail = ""

    def peel(ap):
        for _ in range(4):
            if ap[1][-2:] in (("as Some", "0"), ("as Continue", "0"), ("as Ok", "0")):
                ap = (ap[0], ap[1][:-2])
            if ap[0][0] == "call" and ap[0][2] and not ap[1] and ap[0][1].endswith(("Option::<T>::unwrap", "Try>::branch", "Option::<T>::expect")):
                ap = ap[0][2][0]
        return ap

    for i, j, st in fn.stmts():
        if st["k"] == "assign" and not st["place"]["p"] and st["rv"].get("k") == "agg" and st["rv"].get("variant") == "Some":
            ap = fn.apath(st["rv"]["ops"][0])
            s = ap_str(ap)
            if "ops::arith::Mul" in s:
                detail = s
                mul = peel(ap)[0]
                if mul[0] == "call" and mul[1].endswith("::mul"):
                    a, b = mul[2]
                    a_ok = k2._root_call_bb(peel(a)) == c2 and not peel(a)[1]
                    nb = b[0]
                    b_ok = nb[0] == "call" and nb[1].endswith("Number::new") and nb[2] and nb[2][0][0][0] == "call" and nb[2][0][0][1].endswith("Clone>::clone")
                    if not b_ok:
                        continue
                    val = nb[2][0][0][2][0]
                    b_ok = val[1][-1:] == ("1",) and "::next(" in ap_str(val)
                    item = (val[0], val[1][:-1])
                    # the prefix string used for starts_with / strip_prefix is field 0 of the same item
                    same_item = False
                    for bb, t in fn.calls():
                        if "callee" in t and t["callee"]["path"].endswith(("starts_with", "strip_prefix")):
                            p = fn.apath(t["args"][1])
                            while p[0][0] == "call" and len(p[0][2]) == 1 and not p[1] and p[0][1].endswith(("::as_str", "Deref>::deref", "Borrow<str>>::borrow", "AsRef<str>>::as_ref")):
                                p = p[0][2][0]
                            same_item = same_item or facts.ap_match(p, (item[0], item[1] + ("0",)))
                    ok = ok or (a_ok and b_ok and same_item)
    chk.decide(ok, "prefix-iteration", fk, "value-is-unit-times-same-prefix", fn.where(c2),
               "prefixed value = exact(rest of name) x the value paired with the matched prefix",
               "prefixed value is not exact(rest) * value-of-the-matched-prefix: %s" % detail[:200])


def context_lookup(chk, F):
    # normalised: `x.or_else(|| self.registry.lookup(name))` is the match it stands for
    fn = F.find(CORE, "loader::context::Context::lookup", inline=True, keep=("Registry::lookup",))
    fk = "rink_core::loader::context::Context::lookup"
    sites = calls_to(fn, "loader::registry::Registry::lookup")
    if len(sites) != 1:
        raise AnchorLost("Context::lookup does not call Registry::lookup exactly once")
    rb, rt = sites[0]
    gs = [fn.guard_desc(g) for g in fn.guards_of(rb)]
    eqs = set()
    temp_none = False
    for d in gs:
        s = ap_str(d[1])
        if d[0] == "bool" and d[2] is False and "PartialEq" in s and "arg2" in s:
            r = d[1][0]
            for a in r[2]:
                if a[0][0] == "const":
                    eqs.add(str(a[0][1]))
        if d[0] == "variant" and d[3] == "None" and "arg1.temporaries" in s:
            temp_none = True
    # literal text lives in HIR; MIR shows them as const slices - count only
    # the tests of the name that failed on the way to the registry: `name == "ans"` .. as a chain (three failing edges) or one
    # membership test of a table of names (`NAMES.contains(&name)`); which names they are is decided from the HIR
    name_tests = [d for d in gs if d[0] == "bool" and d[2] is False and "arg2" in ap_str(d[1]) and ("PartialEq" in ap_str(d[1]) or "]>::contains" in ap_str(d[1]))]
    import shared_rules
    from facts import hir_walk
    names = None
    for g in F.hirs_of(fn):
        for e in hir_walk(g["body"]):
            if e.get("k") == "If" and any(x.get("k") == "Field" and x.get("name") == "previous_result" for x in hir_walk(e["then"])):
                acc = shared_rules.accepted_literals(F, CORE, e["cond"])
                names = sorted(acc[0]) if acc else names
            elif e.get("k") == "Match" and e.get("src") == "Normal":
                for a in e["arms"]:
                    if any(x.get("k") == "Field" and x.get("name") == "previous_result" for x in hir_walk(a["body"])) and not a.get("guard"):
                        pats = a["pat"]["alts"] if a["pat"]["pk"] == "or" else [a["pat"]]
                        lits = [p_["e"]["v"] for p_ in pats if p_["pk"] == "expr" and p_["e"].get("lit") == "str"]
                        names = sorted(lits) if len(lits) == len(pats) else names
    chk.decide((len(name_tests) >= 3 or (len(name_tests) >= 1 and names == ["ANS", "_", "ans"])) and temp_none, "context-lookup", fk, "ans-and-temporaries-first", fn.where(rb),
               "the registry is consulted only after the three ans-name tests failed and temporaries had no entry",
               "Registry::lookup is reachable without the ans/ANS/_ tests and the temporaries miss (guards: %s)" % [ap_str(d[1])[:50] for d in gs])
    chk.decide(is_whole_name(fn, fn.apath(name_op(F, rt))), "context-lookup", fk, "same-name", fn.where(rb),
               "the registry is asked for the same name", "registry lookup uses a different name")


def determinism(chk, F):
    adt = F.adt(CORE, "loader::registry::Registry")
    for v in adt["variants"]:
        for f in v["fields"]:
            t = f["ty"]
            ok = t.startswith(("alloc::collections::btree::map::BTreeMap<", "alloc::collections::btree::set::BTreeSet<", "alloc::vec::Vec<"))
            chk.decide(ok and "Hash" not in t, "determinism", "Registry." + f["name"], "ordered-container", "",
                       "%s: %s" % (f["name"], t[:80]), "Registry.%s has type %s (iteration order not defined by the data)" % (f["name"], t))
    G = cg.get(F)
    roots = [F.find(CORE, p) for p in ("loader::context::Context::lookup", "loader::context::Context::canonicalize")]
    reach = G.reachable(roots)
    banned = ("std::collections::hash", "hashbrown", "std::time::", "std::env::", "rand::", "std::thread::", "chrono::offset::local::Local::now")
    bad = []
    for fid in reach:
        for bb, c in G.ext.get(fid, []):
            if any(b in c["path"] for b in banned):
                bad.append((F.fns[fid].path, c["path"], F.fns[fid].where(bb)))
    chk.decide(not bad, "determinism", "rink_core::lookup+canonicalize", "no-hash-clock-env", "",
               "no hash container, clock, environment, thread or randomness call among the %d functions reachable from lookup/canonicalize" % len(reach),
               "non-deterministic source reachable from name resolution: %s" % bad[:3])


def exact_means_exact(chk, F):
    """The other inclusion: a name that lookup_exact answers (it is in `units` or `base_units`) must be an exact name for
    canonicalize_exact too.  If canonicalize_exact says None for such a name, canonicalize goes on to the prefix + unit and plural
    readings of an *exactly defined* name: the long prefixes that can stand alone are units without a recorded definition, and
    with a user unit `eta`, `5e15 -> peta` is answered in `picoeta`.  Rule: in canonicalize_exact every `None` return lies behind
    the failing edge of `units.contains_key(name)` (base units return earlier)."""
    cn = F.find(CORE, "loader::registry::Registry::canonicalize_exact")
    fk = "rink_core::loader::registry::Registry::canonicalize_exact"
    nones = [i for i, j, st in cn.stmts() if st["k"] == "assign" and st["place"]["l"] == 0 and not st["place"]["p"] and st.get("rv", {}).get("k") == "agg"
             and str(st["rv"].get("adt", "")).endswith("option::Option") and st["rv"].get("variant") == "None"]
    if not nones:
        raise AnchorLost("canonicalize_exact has no None return")

    def acc(kind, ap, info):
        r = ap[0]
        if kind == "bool" and r[0] == "call" and r[1].endswith("::contains_key") and r[2] and ap_str(r[2][0]).endswith(".units"):
            return {"false"}
        return None
    res, matched = k2.cut_gate(cn, nones, acc)
    chk.decide(bool(matched) and all(res.values()), "exact-stage-agreement", fk, "exactly-defined-names-stay-exact", cn.where(nones[-1]),
               "canonicalize_exact answers None only for names that are not in `units`",
               "canonicalize_exact can answer None for a name that is in `units` (a unit without a recorded definition, like the long prefix `peta`): "
               "canonicalize then reads it as a prefix and a unit - with a user unit `eta`, `5e15 -> peta` is answered `5 picoeta`")


def cycle_walk_reading(chk, F):
    """The loader's alias-cycle walk (closes_alias_cycle) reads names too: it must read them the way lookup does - exactly first.
    lookup_exact answers from `units` and `base_units`; a base unit has no recorded definition, so unless the walk tests
    `base_units` before it strips prefixes, `cd` (candela) is read as centi-`d` and `d candela` is refused as "an alias of itself".
    Rule: in the closure that tries the prefixed reading, or in every place that uses it, the prefix iteration is reachable only
    through the failing edge of `base_units.contains(name)`."""
    import k2
    # normalised: the closures / nested fns / methods of a private reader struct that the walk is written with are part of it
    root = F.find(CORE, "loader::load::closes_alias_cycle", inline=True)
    fk = "rink_core::loader::load::closes_alias_cycle"

    def acc(kind, ap, info):
        r = ap[0]
        if kind == "bool" and r[0] == "call" and r[1].endswith("::contains") and r[2] and "base_units" in ap_str(r[2][0]):
            return {"false"}
        return None
    its = [bb for bb, t in root.calls() if "callee" in t and t["callee"]["path"].endswith("::iter") and t["args"]
           and "prefixes" in ap_str(root.apath(t["args"][0]))]
    if not its:
        raise AnchorLost("closes_alias_cycle: no iteration over registry.prefixes found in the walk (helpers and closures included)")
    res, matched = k2.cut_gate(root, its, acc)
    ok = bool(matched) and all(res.values())
    where = root.where(its[0])
    chk.decide(ok, "exact-stage-agreement", fk, "cycle-walk-reads-base-units-exactly", where,
               "the alias-cycle walk tries a prefixed reading of a name only after `base_units.contains(name)` failed, like lookup",
               "the alias-cycle walk strips prefixes from a name without first asking whether it is a base unit: `cd` is read as centi-`d`, so "
               "`d candela` (loaded after `cd !candela` and `c-- 1|100`) is refused as \"unit d is an alias of itself\"")


def exact_stage(chk, F):
    """canonicalize_exact may treat a name as an exactly defined unit only when lookup_exact would: lookup_exact answers from
    `units` and `base_units`; `definitions` also holds quantities (`mass ? kg`), so the canonicaliser's read of `definitions`
    must lie behind `units.contains_key(name)` (otherwise `mass` - the plural of `mas` for lookup - canonicalises to
    kilogram)."""
    # (normalised: a container read inside `x.or_else(|| self.units.get(name)..)` is a read of the function)
    lk = F.find(CORE, "loader::registry::Registry::lookup_exact", inline=True, keep=("Registry::lookup", "Registry::canonicalize"))
    cn = F.find(CORE, "loader::registry::Registry::canonicalize_exact", inline=True, keep=("Registry::lookup", "Registry::canonicalize"))

    def containers(fn):
        out = set()
        for bb, t in fn.calls():
            if "callee" in t and t["args"]:
                a = fn.apath(t["args"][0])
                if a[0] == ("arg", 1) and len(a[1]) == 1 and t["callee"]["path"].split("::")[-1] in ("get", "contains_key", "contains"):
                    out.add(a[1][0])
        return out
    lc, cc = containers(lk), containers(cn)
    fk = "rink_core::loader::registry::Registry::canonicalize_exact"
    extra = cc - lc - {"base_unit_long_names"}
    ok = True
    detail = []
    for f in sorted(extra):
        for bb, t in cn.calls():
            if "callee" in t and t["args"] and cn.apath(t["args"][0]) == (("arg", 1), (f,)) and t["callee"]["path"].endswith("::get"):
                gated = False
                for g in cn.guards_of(bb):
                    d = cn.guard_desc(g)
                    if d[0] == "bool" and d[1][0][0] == "call" and d[1][0][1].endswith("::contains_key") and any(cn.apath_str_eq(x, ("arg", 1), (c,)) if hasattr(cn, "apath_str_eq") else (x == (("arg", 1), (c,))) for x in d[1][0][2][:1] for c in lc):
                        gated = gated or (d[2] is True)
                    if d[0] == "bool" and d[1][0][0] == "unop" and d[1][0][1] == "Not":
                        inner = d[1][0][2]
                        if inner[0][0] == "call" and inner[0][1].endswith("::contains_key") and any(inner[0][2][0] == (("arg", 1), (c,)) for c in lc):
                            gated = gated or (d[2] is False)
                ok = ok and gated
                detail.append("%s.get(name) %s" % (f, "is behind a membership test of a container lookup_exact answers from" if gated else "is NOT behind `units.contains_key(name)`"))
    chk.decide(ok, "exact-stage-agreement", fk, "same-notion-of-exact-name", cn.where(),
               "canonicalize_exact consults %s; lookup_exact answers from %s; %s" % (sorted(cc), sorted(lc), "; ".join(detail) or "no further container"),
               "canonicalize_exact treats names as exact units that lookup_exact does not know (%s): canonicalising such a name changes the value it "
               "denotes (`mass` is the plural of `mas` for lookup but canonicalises to `kilogram`)" % "; ".join(detail))
