"""C19 Sandbox allocator accounts for every byte and enforces its limit.

K6 path-effect summation over the MIR of the four GlobalAlloc methods of rink_sandbox::Alloc
plus K3 'atomic read-modify-write only' (schedule independence).  See DESIGN.md section 4, C19.
"""
from collections import Counter

import facts
import sympath
from facts import AnchorLost
from sympath import tstr

PID = "C19"
CRATE = "rink_sandbox"
ATOMIC = "core::sync::atomic::Atomic::<usize>::"


def simplify(t):
    """Layout::size(&Layout::from_size_align_unchecked(s, _)) == s  (std contract)."""
    if t[0] == "call" and t[1].endswith("Layout::size"):
        a = t[2][0]
        if a[0] == "ref":
            a = a[1]
        if a[0] == "call" and a[1].endswith("Layout::from_size_align_unchecked"):
            return a[2][0]
        return ("size", a)
    return t


def field_of(t):
    """('ref', ('field', ('deref', ('arg',1)), name)) -> name"""
    if t[0] == "ref":
        t = t[1]
    if t[0] == "field" and t[1] in (("deref", ("arg", 1)), ("arg", 1)):
        return t[2]
    return None


def linear(t):
    """Flatten a term built from Add into a Counter of atoms."""
    c = Counter()
    if t[0] == "binop" and t[1] in ("Add", "AddUnchecked"):
        c.update(linear(t[2]))
        c.update(linear(t[3]))
    else:
        c[t] += 1
    return c


HELPERS = {}   # path of a verified charging helper -> summary (filled by charge_helpers)


def payload(t, variant):
    """Term of the first field of `t as <variant>`."""
    return ("field", ("as", t, variant), "0")


class PathSummary:
    def __init__(self, fn, p):
        self.p = p
        self.posts = []               # terms that denote the usage right after this call's own charge
        self.charge_results = []      # (result term of a charging helper, amount term)
        self.net = Counter()          # effect on `used`, as {amount term: coefficient}
        self.adds = []                # (result term, amount term)
        self.maxes = []               # value terms passed to max.fetch_max
        self.parent_calls = []        # (name, args)
        self.other_field_ops = []     # (field, op)
        self.branches = []
        self.null_ret = False
        self.is_null_taken = None
        for ev in p.events:
            if ev[0] == "call":
                _, bb, name, args, callee, res = ev
                if name.startswith(ATOMIC):
                    op = name[len(ATOMIC):]
                    f = field_of(args[0]) if args else None
                    if f == "used":
                        if op == "fetch_add":
                            self.net[args[1]] += 1
                            self.adds.append((res, args[1]))
                        elif op == "fetch_sub":
                            self.net[args[1]] -= 1
                        elif op != "load":
                            self.other_field_ops.append((f, op, bb))
                    elif f == "max":
                        if op == "fetch_max":
                            self.maxes.append(args[1])
                        else:
                            self.other_field_ops.append((f, op, bb))
                    elif f == "limit":
                        if op != "load":
                            self.other_field_ops.append((f, op, bb))
                    else:
                        self.other_field_ops.append((str(f), op, bb))
                elif "GlobalAlloc" in name and args and field_of(args[0]) == "parent":
                    self.parent_calls.append((name.split("::")[-1], args[1:], res))
                elif name in HELPERS and args and args[0] in (("ref", ("deref", ("arg", 1))), ("arg", 1)):
                    amt = args[1]
                    if HELPERS[name]["amount"] == "size":
                        # the helper charges `layout.size()` of what it is handed: the caller's own size() of the same layout
                        same = [e2[5] for e2 in p.events if e2[0] == "call" and e2[2].endswith("Layout::size") and e2[3] and e2[3][0] == args[1]]
                        amt = same[0] if same else ("call", "core::alloc::layout::Layout::size", (args[1],), -1)
                    self.charge_results.append((res, amt, bb, HELPERS[name]["success"]))
            elif ev[0] == "branch":
                self.branches.append(ev)
        # a charging helper adds its amount exactly on the paths that took the Some edge of its result
        for res, amount, bb, succ in self.charge_results:
            ev = self.branch_on(lambda t, res=res: t == ("discr", res))
            if ev is None:
                self.other_field_ops.append(("used", "charge-result-not-tested", bb))
            elif variant_label(ev, succ) == succ:
                self.net[amount] += 1
                self.posts.append(Counter(linear(payload(res, succ))))
        for r, a in self.adds:
            self.posts.append(Counter(linear(("binop", "Add", r, a))))
        # identity: saturating_sub(a, b) - saturating_sub(b, a) == a - b  (charging only the growth)
        for k in list(self.net):
            if k[0] == "call" and k[1].endswith("saturating_sub") and self.net.get(k, 0) > 0:
                a, b = k[2][0], k[2][1]
                for k2 in list(self.net):
                    if k2[0] == "call" and k2[1].endswith("saturating_sub") and k2[2][0] == b and k2[2][1] == a and self.net[k2] == -self.net[k]:
                        n = self.net[k]
                        del self.net[k]
                        del self.net[k2]
                        self.net[a] += n
                        self.net[b] -= n
                        break
        self.net = Counter({k: v for k, v in self.net.items() if v != 0})

    def parent_result(self):
        return self.parent_calls[0][2] if self.parent_calls else None

    def branch_on(self, pred):
        for ev in self.branches:
            if pred(ev[2]):
                return ev
        return None


def variant_label(ev, success="Some"):
    """Discriminant switch over the helper's result. Option: value 1 = Some, 0 = None; Result: 0 = Ok, 1 = Err;
    `otherwise` is the value not listed."""
    lab, listed = ev[3], ev[4]
    if lab == "otherwise":
        rest = [v for v in (0, 1) if v not in listed]
        lab = rest[0] if len(rest) == 1 else None
    return ({0: "Ok", 1: "Err"} if success == "Ok" else {0: "None", 1: "Some"}).get(lab)


def classify(ps):
    """'refused' (parent never called), 'parent_failed', 'success'"""
    if not ps.parent_calls:
        return "refused"
    res = ps.parent_result()
    ev = ps.branch_on(lambda t: t[0] == "call" and t[1].endswith("is_null") and t[2] and t[2][0] == res)
    if ev is None:
        return "success-unchecked"
    taken_null = ev[3] != 0 and ev[3] != "0"
    # switch on bool: label 0 = false, otherwise = true
    if ev[3] == 0:
        taken_null = False
    elif ev[3] == "otherwise":
        taken_null = True
    return "parent_failed" if taken_null else "success"


def net_str(c):
    if not c:
        return "0"
    return " ".join("%+d*%s" % (v, tstr(k)) for k, v in sorted(c.items(), key=lambda kv: tstr(kv[0])))


def run(chk, F):
    chk.explanation = (
        "Static path-effect summation (no execution): every entry->return path of Alloc's alloc, alloc_zeroed, "
        "realloc and dealloc (loop-free MIR) is enumerated symbolically; per path the net effect of the atomic "
        "fetch_add/fetch_sub calls on `used` is summed and compared with what the path did to the parent allocator "
        "(success: +size / -size / +new-old; refused or parent failure: 0 and the old block untouched); success must "
        "lie behind the `post-add value <= limit` edge of this call's own fetch_add; every success path that raises "
        "`used` must publish the post-add value to `max` with fetch_max. A who-may-write rule over all five crates "
        "shows `used` is only touched by atomic read-modify-write calls, which makes the sums schedule-independent.")
    chk.assume("read-modify-write operations on one atomic are totally ordered (Rust memory model); the chosen "
               "Orderings are not analysed")
    chk.assume("std::alloc::Layout::size(&Layout::from_size_align_unchecked(s, a)) == s")

    HELPERS.clear()
    chk.guard("charge-cannot-wrap", "Alloc", lambda: charge_helpers(chk, F))
    methods = {}
    for m in ("alloc", "alloc_zeroed", "realloc", "dealloc"):
        try:
            # a shared private body (`alloc_with(layout, |p, l| p.alloc(l))`) is put back in place, with its closure; `charge` is
            # the helper the rule knows
            methods[m] = F.find(CRATE, "<alloc::Alloc as core::alloc::global::GlobalAlloc>::" + m, exact=True, inline=True, keep=("::charge", "Option::<T>", "Iterator"))
        except AnchorLost as e:
            chk.anchor_lost("alloc-methods", m, str(e))
    for m, fn in methods.items():
        chk.guard("path-effects", m, lambda m=m, fn=fn: check_method(chk, m, fn))
    chk.floor("path-effects", 10, "(alloc 3 + alloc_zeroed 3 + realloc 3 + dealloc 1 paths)")
    chk.guard("rmw-only", "workspace", lambda: rmw_only(chk, F))
    chk.guard("peak-accessors", "Alloc", lambda: accessors(chk, F))
    chk.guard("configured-limit", "Alloc", lambda: configured_limit(chk, F))
    chk.guard("global-allocator", "statics", lambda: statics(chk, F))


def check_method(chk, m, fn):
    paths = sympath.enumerate_paths(fn, simplify=simplify)
    if not paths:
        raise AnchorLost("no return path in %s" % fn.path)
    kinds = Counter()
    size_args = {"alloc": ("size", ("arg", 2)), "alloc_zeroed": ("size", ("arg", 2)), "dealloc": ("size", ("arg", 3))}
    for n, p in enumerate(paths):
        ps = PathSummary(fn, p)
        kind = "dealloc" if m == "dealloc" else classify(ps)
        kinds[kind] += 1
        where = fn.where(p.blocks[-1])
        desc = "path %s via bb%s" % (kind, ",".join(map(str, p.blocks)))
        fk = "Alloc::" + m
        # 0. no non-RMW writes on this path
        for f, op, bb in ps.other_field_ops:
            chk.finding("path-effects", fk, "%s:unexpected-%s.%s" % (kind, f, op), fn.where(bb),
                        "unexpected atomic operation %s on field %s in %s" % (op, f, desc))
        if m == "dealloc":
            want = Counter({size_args[m]: -1})
            okp = len(ps.parent_calls) == 1 and ps.parent_calls[0][0] == "dealloc" and \
                ps.parent_calls[0][1] == (("arg", 2), ("arg", 3))
            chk.decide(okp, "path-effects", fk, "dealloc:parent-call", where,
                       "parent.dealloc(ptr, layout) called once with this call's own arguments",
                       "dealloc path does not free exactly (ptr, layout) through the parent: %r" % (ps.parent_calls,))
            chk.decide(ps.net == want, "path-effects", fk, "dealloc:net", where,
                       "net effect on used = %s" % net_str(ps.net),
                       "net effect on used is %s, expected -size(layout) [%s]" % (net_str(ps.net), desc))
            continue
        if m == "realloc":
            new, old = ("arg", 4), ("size", ("arg", 3))
            want_success = Counter({new: 1, old: -1})
            parent_name, parent_args = "realloc", (("arg", 2), ("arg", 3), ("arg", 4))
            added = new
        else:
            want_success = Counter({size_args[m]: 1})
            parent_name, parent_args = m, (("arg", 2),)
            added = size_args[m]
        if kind == "refused":
            chk.decide(not ps.net, "path-effects", fk, "refused:net", where,
                       "refused path: net effect on used = 0, parent not called",
                       "refused path changes used by %s [%s]" % (net_str(ps.net), desc))
            # returns null
            isnull = p.ret[0] == "call" and p.ret[1].endswith("null_mut")
            chk.decide(isnull, "path-effects", fk, "refused:returns-null", where, "returns ptr::null_mut()",
                       "refused path returns %s instead of null" % tstr(p.ret))
            # must be behind the rejecting edge of the limit test
            lim = limit_branch(ps)
            chk.decide(lim is not None and lim[1] is False, "path-effects", fk, "refused:edge", where,
                       "reached through the failing edge of `post-add <= limit`",
                       "refused path is not guarded by the limit comparison of this call's post-add value")
            continue
        # parent called
        okp = len(ps.parent_calls) == 1 and ps.parent_calls[0][0] == parent_name and ps.parent_calls[0][1] == parent_args
        chk.decide(okp, "path-effects", fk, "%s:parent-call" % kind, where,
                   "parent.%s called once with this call's own arguments" % parent_name,
                   "expected exactly one parent.%s%s, found %s" % (parent_name, tuple(map(tstr, parent_args)),
                                                                  [(n_, tuple(map(tstr, a))) for n_, a, _ in ps.parent_calls]))
        chk.decide(p.ret == ps.parent_result(), "path-effects", fk, "%s:returns-parent-result" % kind, where,
                   "returns the parent's pointer", "returns %s, not the parent's result" % tstr(p.ret))
        lim = limit_branch(ps)
        if kind == "parent_failed":
            chk.decide(not ps.net, "path-effects", fk, "parent_failed:net", where,
                       "parent returned null: net effect on used = 0",
                       "parent-failure path changes used by %s [%s]" % (net_str(ps.net), desc))
            continue
        if kind == "success-unchecked":
            chk.finding("path-effects", fk, "success:null-check", where,
                        "the parent's result is not tested with is_null before accounting [%s]" % desc)
        chk.decide(ps.net == want_success, "path-effects", fk, "success:net", where,
                   "success path: net effect on used = %s" % net_str(ps.net),
                   "success path changes used by %s, expected %s [%s]" % (net_str(ps.net), net_str(want_success), desc))
        chk.decide(lim is not None and lim[1] is True, "path-effects", fk, "success:limit-gate", where,
                   "success only through the accepting edge of this call's own `post-add usage <= limit.load()` test",
                   "success path is not behind `post-add value of this call <= limit` [%s]" % desc)
        # the charged amount precedes the parent call (charge-before-allocate)
        order = [ev for ev in p.events if ev[0] == "call"]
        idx_add = next((i for i, ev in enumerate(order) if ev[2].endswith("fetch_add") or ev[2] in HELPERS), None)
        idx_par = next((i for i, ev in enumerate(order) if "GlobalAlloc" in ev[2]), None)
        chk.decide(idx_add is not None and idx_par is not None and idx_add < idx_par, "path-effects", fk,
                   "success:charge-first", where, "used is charged before the parent is asked",
                   "the parent allocator is called before the request is charged to used")
        # peak rule
        okmax = any(Counter(linear(v)) in ps.posts for v in ps.maxes)
        chk.decide(okmax, "peak", fk, "success:fetch_max", where,
                   "max.fetch_max(post-add value) on the success path",
                   "no max.fetch_max of the post-add value on the success path: growth through %s is "
                   "invisible to the reported peak" % m)
    need = {"dealloc": {"dealloc": 1}}.get(m, {"refused": 1, "parent_failed": 1, "success": 1})
    for k, n in need.items():
        if kinds.get(k, 0) < n:
            chk.anchor_lost("path-effects", "Alloc::" + m, "no %s path found in %s (paths: %s)" % (k, fn.path, dict(kinds)))


def limit_branch(ps):
    """Find the branch on Le(post_add, limit_load): returns (event, taken_true) or None.  A verified charging helper has
    made that test itself (and the overflow test): its Some edge is the accepting edge."""
    for res, amount, bb, succ in ps.charge_results:
        ev = ps.branch_on(lambda t, res=res: t == ("discr", res))
        if ev is not None:
            return (ev, variant_label(ev, succ) == succ)
    for ev in ps.branches:
        t = ev[2]
        if t[0] == "binop" and t[1] in ("Le", "Lt", "Ge", "Gt"):
            a, b = t[2], t[3]
            if t[1] in ("Ge", "Gt"):
                a, b = b, a
                strict = t[1] == "Gt"
            else:
                strict = t[1] == "Lt"
            if strict:
                continue  # `<` would refuse an exactly-fitting request; not the documented contract
            lim_ok = b[0] == "call" and b[1] == ATOMIC + "load" and field_of(b[2][0]) == "limit"
            if lim_ok and Counter(linear(a)) in ps.posts:
                taken = ev[3] != 0
                return (ev, taken)
    return None


def subst_captures(t, caps):
    """Rewrite a closure-body term into the enclosing function's terms: field i of the closure environment (arg 1) is caps[i]."""
    if not isinstance(t, tuple):
        return t
    if t[0] == "field" and t[1] in (("arg", 1), ("deref", ("arg", 1))) and str(t[2]).isdigit() and int(t[2]) < len(caps):
        return caps[int(t[2])]
    if t[0] == "deref":
        inner = subst_captures(t[1], caps)
        return inner[1] if inner[0] == "ref" else ("deref", inner)
    return tuple(subst_captures(x, caps) for x in t)


def charge_helpers(chk, F):
    """`an operation succeeds only if the resulting usage is within the configured limit`, from any number of threads: the
    counter must never be *moved* to a value that was not checked.  A speculative `used.fetch_add(n)` wraps silently (two
    requests near isize::MAX in flight sum to usize::MAX - 1; the next request then sees a small total and is admitted above the
    limit, and `prev + n` panics inside the allocator in debug builds).  Rule: no fetch_add on `used` anywhere; `used` grows only
    through fetch_update whose closure returns Some(v) only for v = checked_add(current, n)'s Some payload behind `v <= limit`;
    the helper wrapping it returns Some(new usage) exactly on fetch_update's Ok edge and None otherwise."""
    n_add = 0
    for crate, fns in F.by_crate.items():
        for fn in fns:
            for bb, t in fn.calls():
                if "callee" not in t or not t["args"] or not t["callee"]["path"].startswith(ATOMIC):
                    continue
                o = fn.origin(t["args"][0])
                if o[0] != "place" or not any(isinstance(p, dict) and p.get("of", "").endswith("alloc::Alloc") and p.get("f") == "used" for p in o[1]["p"]):
                    continue
                op = t["callee"]["path"].split("::")[-1]
                if op == "fetch_add":
                    n_add += 1
                    chk.finding("charge-cannot-wrap", crate + "::" + fn.path, "speculative-fetch_add", fn.where(bb),
                                "`used.fetch_add(n)` charges the request before any test and wraps silently: with two requests near isize::MAX in "
                                "flight the counter reads usize::MAX - 1, a third request of limit+1 bytes sees a wrapped total <= limit and is "
                                "admitted (alloc(1001) succeeded under limit 1000, peak reported 999); in debug builds `prev + n` panics inside "
                                "GlobalAlloc::alloc and leaves its charge behind")
                elif op == "fetch_update":
                    verify_helper(chk, F, fn, bb, t)
                elif op in ("compare_exchange", "compare_exchange_weak"):
                    verify_cas_helper(chk, F, fn, bb, t)
    if not n_add and not HELPERS:
        raise AnchorLost("no operation that increases Alloc.used was found")


def verify_cas_helper(chk, F, fn, bb, t):
    """The loop fetch_update is made of, written out: `used.compare_exchange[_weak](seen, new, ..)` installs `new` only while the
    counter still holds `seen`.  It is the checked charge when (1) `new` is the Some payload of `checked_add(seen, amount)` for the
    very `seen` that is compared (no other definition of it in between), (2) the exchange lies behind `new <= limit`, (3) the
    function returns Some(new) / Ok(new) only behind the Ok edge of this exchange and None / Err(..) everywhere else, and (4) the
    exchange is the only operation of the function that changes the counter."""
    from facts import ap_str, ap_match, place_of
    fk = "%s::%s" % (fn.crate, fn.path)
    why = ""
    at = (bb, None)
    cur, new = fn.apath(t["args"][1], at=at), fn.apath(t["args"][2], at=at)
    r = new[0]
    ca_bb = None
    amount_kind = None
    if not (r[0] == "call" and r[1].endswith("::checked_add") and tuple(new[1]) in (("as Some", "0"),) and len(r[2]) == 2):
        why = "the value installed is %s, not the Some payload of a checked_add" % ap_str(new)[:80]
    else:
        ca_bb = r[3]
        a0, a1 = r[2]
        same = lambda x: x == cur and cur[0][0] in ("local", "call")        # the very local / the very load that is compared
        other = a1 if same(a0) else (a0 if same(a1) else None)
        if other is None:
            why = "the checked sum is not computed from the value that is compared (%s vs %s)" % (ap_str(a0)[:40], ap_str(cur)[:40])
        elif other == (("arg", 2), ()):
            amount_kind = "arg"
        elif other[0][0] == "call" and other[0][1].endswith("Layout::size") and not other[1] and "arg2" in ap_str(other):
            amount_kind = "size"
        else:
            why = "the amount added is %s, not the helper's parameter" % ap_str(other)[:60]
    if not why and cur[0][0] == "local":
        # the compared value has several definitions (the first load, what a failed exchange reported): none may lie between the
        # sum and the exchange, and each is a read of the counter
        for d in fn.defs().get(cur[0][1], []):
            dbb = d[1]
            if fn.dominates(ca_bb, dbb) and not fn.dominates(bb, dbb) and dbb != ca_bb:
                why = "the compared value is redefined between the checked sum and the exchange (%s)" % fn.where(dbb)
    if not why:
        gs = [fn.guard_desc(g) for g in fn.guards_of(bb)]
        some = any(d[0] == "variant" and d[3] == "Some" and "checked_add" in ap_str(d[1]) for d in gs)
        lim = False
        for d in gs:
            if d[0] == "bool" and d[1][0][0] == "binop" and d[1][0][1] in ("Le", "Ge") and not d[1][1]:
                x, y = d[1][0][2], d[1][0][3]
                if d[1][0][1] == "Ge":
                    x, y = y, x
                if d[2] is True and ap_str(x) == ap_str(new) and y[0][0] == "call" and y[0][1] == ATOMIC + "load" and ap_str(y[0][2][0]).endswith(".limit"):
                    lim = True
        if not (some and lim):
            why = "the exchange is not behind `checked_add(..) is Some` and `new <= limit.load()` (guards: %s)" % [ap_str(d[1])[:50] for d in gs][:4]
    if not why:
        n_ret = 0
        for i, j, st in fn.stmts():
            if st["k"] != "assign" or st["place"]["l"] != 0 or st["place"]["p"] or st["rv"].get("k") != "agg":
                continue
            var = st["rv"].get("variant")
            if var in ("Some", "Ok"):
                n_ret += 1
                v = fn.apath(st["rv"]["ops"][0], at=(i, j))
                behind_ok = any(d[0] == "variant" and d[3] == "Ok" and d[1][0][0] == "call" and d[1][0][3] == bb
                                for d in (fn.guard_desc(g) for g in fn.guards_of(i)))
                if not (ap_str(v) == ap_str(new) and v[0][0] == "call" and behind_ok):      # strictly the same value, not "may be the same"
                    why = "the helper returns %s(%s) %s" % (var, ap_str(v)[:50], "which is not the installed value" if behind_ok else "off the Ok edge of the exchange")
            elif var not in ("None", "Err"):
                why = "the helper's result is %s" % var
        if not why and n_ret == 0:
            why = "the helper never reports success"
    if not why:
        others = [t2["callee"]["path"].split("::")[-1] for b2, t2 in fn.calls() if "callee" in t2 and t2["callee"]["path"].startswith(ATOMIC) and t2["args"]
                  and ap_str(fn.apath(t2["args"][0])).endswith(".used") and b2 != bb and not t2["callee"]["path"].endswith("::load")]
        if others:
            why = "the function has other operations that change the counter: %s" % others
    success = "Ok" if str(fn.locals[0]).startswith("core::result::Result") else "Some"
    chk.decide(not why, "charge-cannot-wrap", fk, "checked-charge", fn.where(bb),
               "used grows only through compare_exchange(seen, checked_add(seen, n)) behind `<= limit`: the counter is never moved to an unchecked "
               "value, a refused request leaves it untouched; the helper returns the new usage exactly when the exchange succeeded",
               "the compare-exchange that charges a request is not the checked form: %s" % why)
    if not why:
        HELPERS[fn.path] = {"success": success, "amount": amount_kind}


def verify_helper(chk, F, fn, bb, t):
    fk = "%s::%s" % (fn.crate, fn.path)
    paths = sympath.enumerate_paths(fn)
    ok_paths = True
    why = ""
    closure_fn = None
    for p in paths:
        ups = [ev for ev in p.events if ev[0] == "call" and ev[2] == ATOMIC + "fetch_update"]
        others = [ev for ev in p.events if ev[0] == "call" and ev[2].startswith(ATOMIC) and ev[3] and field_of(ev[3][0]) == "used" and ev[2] != ATOMIC + "fetch_update"
                  and not ev[2].endswith("::load")]
        if len(ups) != 1 or others:
            ok_paths, why = False, "a path has %d fetch_update and %d other read-modify-write operations on used" % (len(ups), len(others))
            break
        up = ups[0]
        res = up[5]
        clo = up[3][3] if len(up[3]) > 3 else None
        if not clo or clo[0] != "agg" or "closure" not in str(clo[1]):
            ok_paths, why = False, "the update function of fetch_update is not a closure literal"
            break
        caps = clo[2]
        cands = [c for c in F.closures_of(fn)]
        if len(cands) != 1:
            ok_paths, why = False, "cannot identify the closure body (%d closures)" % len(cands)
            break
        closure_fn = cands[0]
        # the helper's own result: Some(payload(Ok) + amount) on the Ok edge, None otherwise (or Ok(..) / Err(..): what the helper
        # is declared to return is its own business); the amount is its second parameter, or that parameter's `Layout::size()`
        ev = next((e for e in p.events if e[0] == "branch" and e[2] == ("discr", res)), None)
        isok = ev is not None and ((ev[3] == 0) if ev[3] != "otherwise" else (0 not in ev[4]))
        amount = ("arg", 2)
        amount_kind = "arg"
        if len(fn.locals) > 2 and "Layout" in fn.locals[2]:
            sz = [e for e in p.events if e[0] == "call" and e[2].endswith("Layout::size") and e[3] and ("arg", 2) in (e[3][0], e[3][0][1] if len(e[3][0]) > 1 else None, (e[3][0][1][1] if len(e[3][0]) > 1 and isinstance(e[3][0][1], tuple) and len(e[3][0][1]) > 1 else None))]
            if len(sz) == 1:
                amount, amount_kind = sz[0][5], "size"
        success = "Ok" if p.ret[0] == "agg" and p.ret[1].endswith(("Result::Ok", "Result::Err")) else "Some"
        if p.ret[0] == "agg" and p.ret[1].endswith(("Option::Some", "Result::Ok")):
            v = p.ret[2][0]
            want = Counter(linear(("binop", "Add", payload(res, "Ok"), amount)))
            if not isok or Counter(linear(v)) != want:
                ok_paths, why = False, "the helper returns Some(%s) %s" % (tstr(v), "off the Ok edge of fetch_update" if not isok else "which is not previous usage + amount")
                break
        elif p.ret[0] == "agg" and p.ret[1].endswith(("Option::None", "Result::Err")):
            if isok:
                ok_paths, why = False, "the helper returns None although the usage was increased"
                break
        else:
            ok_paths, why = False, "the helper's result is neither Some(..) nor None: %s" % tstr(p.ret)[:80]
            break
    # closure body: Some(v) only for v = checked_add(current, amount) behind `v <= limit`
    if ok_paths and closure_fn is not None:
        lim_load = ("call", ATOMIC + "load")
        for cp in sympath.enumerate_paths(closure_fn):
            r = cp.ret
            if r[0] == "agg" and r[1].endswith("Option::None"):
                continue
            if not (r[0] == "agg" and r[1].endswith("Option::Some")):
                ok_paths, why = False, "the update closure returns %s" % tstr(r)[:80]
                break
            v = subst_captures(r[2][0], caps)
            adds = [e for e in cp.events if e[0] == "call" and e[2].endswith("::checked_add")]
            good = False
            for e in adds:
                cres = e[5]
                # one operand is the closure's own argument (the current usage), the other the helper's amount
                cur_ok = ("arg", 2) in (e[3][0], e[3][1])
                amt_ok = amount in (subst_captures(x, caps) for x in (e[3][0], e[3][1]) if x != ("arg", 2))
                somev = subst_captures(payload(cres, "Some"), caps)
                if not (cur_ok and amt_ok and v == somev):
                    continue
                for b in cp.events:
                    if b[0] == "branch" and b[2][0] == "binop" and b[2][1] in ("Le", "Ge"):
                        x, y = b[2][2], b[2][3]
                        if b[2][1] == "Ge":
                            x, y = y, x
                        x, y = subst_captures(x, caps), subst_captures(y, caps)
                        taken = b[3] != 0
                        if x == somev and y[0] == "call" and y[1] == ATOMIC + "load" and field_of(y[2][0]) == "limit" and taken:
                            good = True
            if not good:
                ok_paths, why = False, "the update closure can return Some(%s), which is not checked_add(current, amount)'s value behind `<= limit`" % tstr(v)[:80]
                break
    chk.decide(ok_paths, "charge-cannot-wrap", fk, "checked-charge", fn.where(bb),
               "used grows only through fetch_update(|cur| checked_add(cur, n) if <= limit): the counter is never moved to an unchecked value, "
               "a refused request leaves it untouched; the helper returns Some(new usage) exactly when it charged",
               "the fetch_update that charges a request is not the checked form: %s" % why)
    if ok_paths:
        HELPERS[fn.path] = {"success": success, "amount": amount_kind}


def rmw_only(chk, F):
    allowed = {"used": {"load", "fetch_add", "fetch_sub", "fetch_update", "compare_exchange", "compare_exchange_weak"}, "max": {"load", "store", "fetch_max"},
               "limit": {"load", "store"}}
    n = 0
    for crate, fns in F.by_crate.items():
        for fn in fns:
            for i, j, st in fn.stmts():
                # direct assignment to the counters (possible only with &mut Alloc)
                pl = st.get("place")
                if st["k"] == "assign" and pl and any(isinstance(p, dict) and p.get("of", "").endswith("alloc::Alloc") and p.get("f") in allowed for p in pl["p"]):
                    chk.finding("rmw-only", crate + "::" + fn.path, "direct-write", fn.where(i, j),
                                "direct (non-atomic) write to an Alloc counter")
            for bb, t in fn.calls():
                if "callee" not in t or not t["args"]:
                    continue
                o = fn.origin(t["args"][0])
                if o[0] != "place":
                    continue
                fields = [p for p in o[1]["p"] if isinstance(p, dict) and p.get("of", "").endswith("alloc::Alloc")]
                if not fields:
                    continue
                f = fields[-1]["f"]
                if f == "parent":
                    continue
                name = t["callee"]["path"]
                op = name.split("::")[-1]
                n += 1
                good = name.startswith(ATOMIC) and op in allowed.get(f, set())
                # `store` on max only in reset_max, on limit only in set_limit
                if good and op == "store":
                    good = (f == "max" and fn.path.endswith("::reset_max")) or (f == "limit" and fn.path.endswith("::set_limit"))
                chk.decide(good, "rmw-only", crate + "::" + fn.path, "%s.%s" % (f, op), fn.where(bb),
                           "%s on Alloc.%s" % (op, f),
                           "operation %s on Alloc.%s is not in the allowed set %s (used must only be changed by "
                           "atomic read-modify-write)" % (name, f, sorted(allowed.get(f, []))))
    chk.floor("rmw-only", 12, "(atomic operations on Alloc's counters: 17 on the pinned tree; a floor guards against vacuity, two release arms merged into one statement are still the same operations)")


def accessors(chk, F):
    fn = F.find(CRATE, "Alloc::<A>::reset_max")
    ps = sympath.enumerate_paths(fn)
    ok = False
    for p in ps:
        for ev in p.events:
            if ev[0] == "call" and ev[2] == ATOMIC + "store" and field_of(ev[3][0]) == "max":
                v = ev[3][1]
                ok = v[0] == "call" and v[1] == ATOMIC + "load" and field_of(v[2][0]) == "used"
    chk.decide(ok and len(ps) == 1, "peak-accessors", "Alloc::reset_max", "store-current-used", fn.where(),
               "reset_max stores the current `used` into `max`", "reset_max does not store used.load() into max")
    # load-then-store is not atomic: an allocation that publishes its usage (fetch_add on used, fetch_max on max) between the
    # two is overwritten.  The store must be followed by a read-modify-write that re-publishes the current usage.
    republish = False
    for p in ps:
        seen_store = False
        for ev in p.events:
            if ev[0] == "call" and ev[2] == ATOMIC + "store" and field_of(ev[3][0]) == "max":
                seen_store = True
            elif seen_store and ev[0] == "call" and ev[2] == ATOMIC + "fetch_max" and field_of(ev[3][0]) == "max":
                v = ev[3][1]
                republish = v[0] == "call" and v[1] == ATOMIC + "load" and field_of(v[2][0]) == "used"
    chk.decide(republish, "peak-accessors", "Alloc::reset_max", "reset-does-not-lose-concurrent-peak", fn.where(),
               "after the store, reset_max re-publishes the current usage with fetch_max (an allocation racing with the reset is not lost)",
               "reset_max is a plain load-then-store: an allocation on another thread that lands between the load and the store is wiped from "
               "the peak (get_max() returned 0 with 1000 bytes live)")
    fn = F.find(CRATE, "Alloc::<A>::get_max")
    ps = sympath.enumerate_paths(fn)
    def is_load(t, f):
        return t[0] == "call" and t[1] == ATOMIC + "load" and field_of(t[2][0]) == f
    r = ps[0].ret if len(ps) == 1 else ("none",)
    plain = is_load(r, "max")
    both = r[0] == "call" and r[1].endswith("cmp::Ord::max") and len(r[2]) == 2 and {("max" if is_load(x, "max") else "used" if is_load(x, "used") else None) for x in r[2]} == {"max", "used"}
    if not both and len(ps) == 2:
        # the same maximum written as a comparison: `if used > max { used } else { max }` - each load is returned on the side of
        # the comparison of the two loads on which it is the larger one
        def side_ok(p):
            which = "max" if is_load(p.ret, "max") else "used" if is_load(p.ret, "used") else None
            if which is None:
                return None
            for ev in p.events:
                if ev[0] == "branch" and ev[2][0] == "binop" and ev[2][1] in ("Gt", "Lt", "Ge", "Le"):
                    a, b = ev[2][2], ev[2][3]
                    na = "max" if is_load(a, "max") else "used" if is_load(a, "used") else None
                    nb = "max" if is_load(b, "max") else "used" if is_load(b, "used") else None
                    if {na, nb} != {"max", "used"}:
                        continue
                    taken = ev[3] in (1, True, "true", "otherwise")
                    a_greater = (ev[2][1] in ("Gt", "Ge")) == taken       # on this side a >= b (or a > b)
                    larger = na if a_greater else nb
                    return which if larger == which else None
            return None
        sides = {side_ok(p) for p in ps}
        both = sides == {"max", "used"}
    chk.decide(plain or both, "peak-accessors", "Alloc::get_max", "load-max", fn.where(), "get_max reads max.load()",
               "get_max does not return max.load()")
    # `never less than the largest usage reached since it was last reset`: reset_max stores a snapshot of `used` into `max`, which
    # can overwrite what a racing allocation has just published (re-published a moment later).  In that window max < used; the peak
    # that is reported must therefore be the larger of the two.
    chk.decide(both, "peak-accessors", "Alloc::get_max", "never-below-current-usage", fn.where(),
               "get_max returns max(max.load(), used.load()): never below what is allocated right now",
               "get_max returns max.load() alone: while reset_max() is in flight on another thread it is below a live allocation "
               "(get_max() = 0 with a 1000-byte block held, within a few hundred rounds)")
    # child.rs reports memory_used from get_max after the request and resets before it
    child = F.find(CRATE, "child::become_child", allow_many=True)
    calls = []
    for fn in F.by_crate[CRATE]:
        if "become_child" in fn.path:
            for bb, t in fn.calls():
                if "callee" in t and t["callee"]["path"].endswith(("::reset_max", "::get_max")):
                    calls.append((t["callee"]["path"].split("::")[-1], t["loc"]["line"]))
    names = [c[0] for c in sorted(calls, key=lambda c: c[1])]
    good = "reset_max" in names and "get_max" in names[names.index("reset_max"):]
    chk.decide(good, "peak-accessors", "child::become_child", "reset-then-get", "",
               "child resets the peak before handling a request and reads it after: %s" % names,
               "child does not bracket request handling with reset_max .. get_max: %s" % names)


def configured_limit(chk, F):
    """The ceiling the entry points compare against is the one the embedder configured: set_limit stores exactly its
    argument, and the constructors initialise `limit` with exactly theirs."""
    fn = F.find(CRATE, "Alloc::<A>::set_limit")
    ps = sympath.enumerate_paths(fn)
    stores = [ev for p in ps for ev in p.events if ev[0] == "call" and ev[2] == ATOMIC + "store" and field_of(ev[3][0]) == "limit"]
    ok = len(ps) == 1 and len(stores) == 1 and stores[0][3][1] == ("arg", 2)
    chk.decide(ok, "configured-limit", "Alloc::set_limit", "stores-its-argument", fn.where(),
               "set_limit stores exactly the limit it is given",
               "set_limit stores %s instead of its argument: the enforced ceiling is not the configured limit" % (
                   [tstr(e[3][1])[:80] for e in stores] or "nothing"))
    n = 0
    for f in F.by_crate[CRATE]:
        if not f.path.endswith(("::new", "::new_with")) or "Alloc" not in f.path:
            continue
        for i, j, st in f.stmts():
            rv = st.get("rv", {})
            if rv.get("k") == "agg" and rv.get("adt", "").endswith("alloc::Alloc"):
                fields = dict(zip(rv["fields"], rv["ops"]))
                src = facts.ap_str(f.apath(fields["limit"]))
                n += 1
                lim_arg = "arg1" if f.path.endswith("::new") else "arg2"
                chk.decide(src.endswith("AtomicUsize>::new(%s)" % lim_arg) or src.endswith("::new(%s)" % lim_arg), "configured-limit", "Alloc::" + f.path.split("::")[-1], "initial-limit", f.where(i, j),
                           "the constructor's limit argument initialises the limit", "Alloc.limit is initialised with %s" % src[:80])
    if n < 2:
        chk.anchor_lost("configured-limit", "Alloc constructors", "expected the two constructors of Alloc, found %d" % n)


def statics(chk, F):
    n = 0
    for crate in ("rink", "rink_irc"):
        for st in F.crates[crate]["statics"]:
            if "rink_sandbox::Alloc" in st["ty"] or "alloc::Alloc" in st["ty"]:
                n += 1
                chk.decide(not st["mutable"], "global-allocator", crate, st["path"], "%s:%d" % (st["loc"]["file"], st["loc"]["line"]),
                           "static %s: %s (shared, non-mut)" % (st["path"], st["ty"]), "allocator static is `static mut`")
    chk.floor("global-allocator", 2, "(GLOBAL statics of cli and irc)")
