"""C01 Exact arithmetic: every result equals the true rational value.  DESIGN.md section 4, C01."""
import json
import os

import c02
import c11
import cg
import facts
import hirutil as H
import k2
import k1
import k4
from facts import AnchorLost, ap_str, ap_calls, hir_walk

CORE = "rink_core"
NUM = "types::number::Number::"


def run(chk, F):
    chk.explanation = (
        "(a) no float fallback: guarded call-graph reachability (K4) from the exact operator set - Number's + - * / neg powi shl shr "
        "rem and/or/xor invert from_parts, Numeric's operator impls, div_rem, Numeric::pow, the BigRat/BigInt wrappers, parse_radix "
        "and Value's operator dispatch - reaches no float-introducing site except float-preserving arms (an operand already is a "
        "float) and Number::pow's non-integer-exponent branch; in eval_expr every float site lies in a function-call arm; "
        "(b) undefined => error: every division/remainder in the exact set is cut by an exact zero test of its divisor, 0^negative "
        "is cut by a zero test of the base, bit operators run only on as_bigint()'s Some values, shifts and powers only behind the "
        "integer (den == 1) and magnitude gates; (c) the parser ladder extracted from text_query.rs agrees with the manual's "
        "precedence/associativity table, and every operator of the `* /` level takes the product of all accumulated factors as "
        "its left operand; (e) operator routing: for + - * / mod neg the chain Value -> Number -> Numeric (rational arm) -> BigRat "
        "-> num-rational uses the same std::ops trait at every layer and each wrapper calls exactly that one arithmetic callee; "
        "(f) number-literal arms of the lexer push every digit they consume. The arithmetic identity itself rests on "
        "num-bigint/num-rational and is not decided.")
    chk.guard("no-float-fallback", "exact operator set", lambda: no_float(chk, F))
    chk.guard("undefined-is-error", "Number ops", lambda: undefined(chk, F))
    chk.guard("ladder-vs-manual", "parser", lambda: ladder(chk, F))
    chk.guard("operator-routing", "wrappers", lambda: routing(chk, F))
    chk.guard("literal-digits", "lexer", lambda: digits(chk, F))
    import c03
    chk.guard("target-consumed", "parse_query", lambda: c03.target_consumed(chk, F))
    import castaudit
    chk.guard("no-silent-wrap", "cast audit", lambda: castaudit.run(chk, F, "C01"))
    chk.floor("no-silent-wrap", 15, "(narrowing casts / machine shifts in the arithmetic, lexer and evaluator files)")
    chk.assume("in-memory digit counts and string lengths are below 2^32 (size assumption used by four cast justifications)")


def op_impl(ty, op, method, rhs=None):
    if rhs is None:
        return "<&'a %s as core::ops::arith::%s>::%s" % (ty, op, method)
    return "<&'a %s as core::ops::arith::%s<&'b %s>>::%s" % (ty, op, rhs, method)


def exact_roots(F):
    roots = []
    N, NU, V = "types::number::Number", "types::numeric::Numeric", "runtime::value::Value"
    for op, m in (("Add", "add"), ("Sub", "sub"), ("Mul", "mul"), ("Div", "div")):
        roots.append(F.find(CORE, op_impl(N, op, m, N), exact=True))
    for op, m in (("Add", "add"), ("Sub", "sub"), ("Mul", "mul"), ("Div", "div"), ("Rem", "rem")):
        roots.append(F.find(CORE, op_impl(NU, op, m, NU), exact=True))
    roots.append(F.find(CORE, "<&'a %s as core::ops::arith::Neg>::neg" % N, exact=True))
    roots.append(F.find(CORE, "<&'a %s as core::ops::arith::Neg>::neg" % NU, exact=True))
    for m in ("powi", "shl", "shr", "rem", "and", "or", "xor", "invert", "from_parts", "pow"):
        roots.append(F.find(CORE, NUM + m))
    roots.append(F.find(CORE, "types::numeric::Numeric::div_rem"))
    roots.append(F.find(CORE, "types::numeric::Numeric::pow"))
    roots.append(F.find(CORE, "parsing::text_query::parse_radix"))
    for fn in F.by_crate[CORE]:
        if fn.raw.get("impl_self", "").endswith(("types::bigrat::BigRat", "types::bigint::BigInt")) and fn.raw.get("impl_trait", "").startswith("core::ops::"):
            roots.append(fn)
        if fn.path.startswith("<&'a runtime::value::Value as core::ops::") or fn.path.startswith("runtime::value::Value::"):
            if fn.raw["kind"] != "Closure":
                roots.append(fn)
    return roots


def no_float(chk, F):
    roots = exact_roots(F)
    powfn = F.find(CORE, NUM + "pow")

    def stop(fn, bb):
        # Number::pow: everything behind the failing edge of `den == 1` is the non-integer-exponent branch
        if fn.id == powfn.id:
            for g in fn.guards_of(bb):
                d = fn.guard_desc(g)
                # (`den == one` false, or `den != one` true)
                if k1.den_not_one(d) and "BigInt::one()" in ap_str(d[1]):
                    return True
        t = fn.blocks[bb]["term"]
        if t["k"] == "call" and "callee" in t:
            p = t["callee"]["path"]
            # rendering of error messages / values is not arithmetic
            return p.endswith(("Show>::show", "Number::to_parts", "Number::to_parts_simple")) or "core::fmt::" in p or "alloc::fmt::" in p or p.endswith("parsing::datetime::to_duration") or p.endswith("parsing::datetime::from_duration")
        return False
    nreach, nprim, bad = k4.check_exact(chk, F, "no-float-fallback", roots, "exact operators must not fall back to floats", extra_stop=stop)
    chk.extra["exact_set"] = {"roots": len(roots), "functions_reached": nreach, "float_primitives_seen": nprim}
    if nprim < 15:
        chk.anchor_lost("no-float-fallback", "k4", "only %d float primitives seen (expected the float-preserving arms of Numeric)" % nprim)
    # eval_expr: float sites only in function-call arms
    # (normalised: the bodies of the function arms may have been taken out into private helpers - `trig("sin", num, f64::sin)`)
    fn = F.find(CORE, "runtime::eval::eval_expr", inline=True, keep=("Option::<T>", "Result::<T, E>", "Iterator", "bool>::then"))
    n = 0
    for bb, kind, text in k4.primitives(fn):
        n += 1
        gs = [fn.guard_desc(g) for g in fn.guards_of(bb)]
        in_call = any(d[0] == "variant" and d[2].endswith("ast::expr::Expr") and d[3] == "Call" for d in gs)
        chk.decide(in_call, "no-float-fallback", "rink_core::runtime::eval::eval_expr", "call-arm-only:%s:%s" % (kind, text), fn.where(bb),
                   "float site inside a function-call arm (transcendental functions)", "eval_expr introduces a float (%s) outside the function-call arms" % text)
    if n < 40:
        chk.anchor_lost("no-float-fallback", "rink_core::runtime::eval::eval_expr", "expected >= 40 float sites in the function arms, found %d" % n)


def zero_accept(owner_text, F=None, fn=None):
    """accepting edges of exact zero tests on `<owner>.value` (against Numeric::zero() or the literal Numeric::Float(0.0), which
    is a promoted constant in MIR and is recognised through the HIR when F and fn are given)."""
    def acc(kind, ap, info):
        if kind != "bool":
            return None
        r = ap[0]
        if r[0] == "call" and r[1] in ("<types::numeric::Numeric as core::cmp::PartialEq>::eq", "<types::numeric::Numeric as core::cmp::PartialEq>::ne"):
            s = ap_str(ap)
            fzero = False
            if F is not None and fn is not None and "promoted" in s and "types::numeric::Numeric" in s:
                import k1
                fzero = fn.blocks[r[3]]["term"]["loc"].get("line") in k1.float_zero_lines(F, fn)
            if (owner_text + ".value") in s and ("Numeric::zero()" in s or "Numeric::Float{0" in s or "Float{" in s or fzero):
                return {"false"} if r[1].endswith("::eq") else {"true"}
        return None
    return acc


def undefined(chk, F):
    # Div: covered in C03 too
    fn = F.find(CORE, op_impl("types::number::Number", "Div", "div", "types::number::Number"), exact=True)
    k2.gate_rule(chk, fn, "undefined-is-error", "rink_core::Number::div", "divisor-nonzero", k2.call_blocks(fn, NUM + "invert"), zero_accept("arg2", F, fn),
                 "division happens only behind the exact test `other.value != 0`", "Number::div can divide by zero")
    fn = F.find(CORE, NUM + "rem")
    k2.gate_rule(chk, fn, "undefined-is-error", "rink_core::Number::rem", "divisor-nonzero", k2.call_blocks(fn, "core::ops::arith::Rem<&'b types::numeric::Numeric>>::rem"), zero_accept("arg2", F, fn),
                 "`mod` is computed only behind the exact test `rhs.value != 0`", "`x mod 0` reaches num-rational's remainder (panic) instead of an error")
    # zero to a negative power
    fn = F.find(CORE, NUM + "pow")
    powi = k2.call_blocks(fn, NUM + "powi")

    def acc(kind, ap, info):
        z = zero_accept("arg1", F, fn)(kind, ap, info)
        if z:
            return z
        if kind == "bool":
            r = ap[0]
            if r[0] == "binop" and r[1] in ("Lt", "Ge") and r[3][0] == ("const", 0):
                return {"false"} if r[1] == "Lt" else {"true"}
        return None
    k2.gate_rule(chk, fn, "undefined-is-error", "rink_core::Number::pow", "zero-base-negative-exponent", powi, acc,
                 "an integer power is computed only when the exponent is non-negative or the base is non-zero", "0 to a negative power reaches Ratio::new with a zero denominator (panic)", min_guards=2)
    # integer / magnitude gates for pow, shl, shr
    for name, acts in (("pow", (NUM + "powi",)), ("shl", ("BigInt::pow",)), ("shr", ("BigInt::pow",))):
        fn = F.find(CORE, NUM + name)
        direct = k2.call_blocks(fn, *acts)
        if not direct:
            # the operation may have been moved into a local helper: a call whose callee reaches it counts as the action
            G = cg.get(F)
            for bb, t in fn.calls():
                cid = t.get("callee", {}).get("id")
                if cid in F.fns and cid != fn.id:
                    sub = G.reachable([F.fns[cid]])
                    if any(k2.call_blocks(F.fns[x], *acts) for x in sub if F.fns[x].crate == CORE):
                        direct.append(bb)
        actions = direct + k2.call_blocks(fn, "types::bigint::BigInt::as_int")

        def mag(kind, ap, info):
            if kind != "bool":
                return None
            r = ap[0]
            if r[0] == "call" and "PartialOrd" in r[1] and r[1].endswith(("::lt", "::ge")):
                s = ap_str(ap)
                if "Numeric::abs(arg2.value)" in s:
                    return {"true"} if r[1].endswith("::lt") else {"false"}
            return None
        k2.gate_rule(chk, fn, "undefined-is-error", "rink_core::Number::" + name, "magnitude-gate", actions, mag,
                     "the integer conversion happens only behind `|exponent| < 2^31` (written so that NaN is refused)", "%s converts an exponent whose magnitude was not bounded" % name)
        if name != "pow":
            def integer(kind, ap, info):
                if kind != "bool":
                    return None
                r = ap[0]
                if r[0] == "call" and r[1] in ("<types::bigint::BigInt as core::cmp::PartialEq>::ne", "<types::bigint::BigInt as core::cmp::PartialEq>::eq") and "to_rational" in ap_str(ap):
                    return {"false"} if r[1].endswith("::ne") else {"true"}
                return None
            k2.gate_rule(chk, fn, "undefined-is-error", "rink_core::Number::" + name, "integer-shift-count", direct, integer,
                         "the shift is computed only for an integer count (den == 1)", "%s accepts a non-integer shift count" % name)
    # bit operators: only on as_bigint Some values of both operands
    for name, sym in (("and", "BitAnd"), ("or", "BitOr"), ("xor", "BitXor")):
        # (normalised: the three bodies may share a private helper that is handed the operation as a closure)
        fn = F.find(CORE, NUM + name, inline=True, keep=("Option::<T>", "Result::<T, E>", "Iterator", "bool>::then"))
        acts = [(bb, t) for bb, t in fn.calls() if "callee" in t and ("::bit::%s" % sym) in t["callee"]["path"]]
        if len(acts) != 1:
            raise AnchorLost("Number::%s: bit operation call not found" % name)
        bb, t = acts[0]
        srcs = [ap_str(fn.apath(a)) for a in t["args"]]
        ok = all("Numeric::as_bigint" in s and "as Some" in s for s in srcs) and any("arg1.value" in s for s in srcs) and any("arg2.value" in s for s in srcs)
        chk.decide(ok, "undefined-is-error", "rink_core::Number::" + name, "integers-only", fn.where(bb),
                   "the bit operation takes the Some values of as_bigint() of both operands (non-integers are refused)", "bit operation operands are %s" % [s[:80] for s in srcs])


def ladder(chk, F):
    PA = c11.parser_tables(F)
    man = json.load(open(os.path.join(facts.VERIF, "tables", "manual_precedence.json")))
    levels = man["levels"]
    opof = man["operator_of_token"]
    chain = ["pow", "frac", "juxt", "div", "add", "eq"]
    fk = "rink_core::parsing::text_query"
    # chain of `lower` links (loosest -> tightest)
    lowers = {"eq": PA["eq"]["lower"], "add": PA["add"]["lower"], "div": PA["div"]["lower"], "juxt": PA["juxt"]["lower"], "frac": PA["frac"]["lower"], "pow": PA["pow"]["lower"]}
    want = {"eq": "parse_add", "add": "parse_div", "div": "parse_juxt", "juxt": "parse_frac", "frac": "parse_pow", "pow": "parse_suffix"}
    for lvl in chain:
        chk.decide(lowers[lvl] == want[lvl], "ladder-vs-manual", fk, "level-order:" + lvl, "", "parse_%s takes its operands from %s" % (lvl, lowers[lvl]),
                   "parse_%s takes its operands from %s, the manual's precedence order requires %s" % (lvl, lowers[lvl], want[lvl]))
    for L in levels:
        name = L["name"]
        if name == "juxt":
            j = PA["juxt"]
            ok = j["default"] == "parse_frac" and j["degree"] and j["degree"]["wraps_all_terms"] and j["collapse"]
            chk.decide(ok, "ladder-vs-manual", fk, "juxtaposition", "", "juxtaposition multiplies parse_frac operands; a temperature scale applies to the whole juxtaposed product",
                       "juxtaposition level is %s" % j)
            continue
        spec = PA[name]
        toks = sorted(spec["ops"]) + (sorted(t for t, _ in spec.get("push", [])) if name == "div" else [])
        chk.decide(sorted(toks) == sorted(L["tokens"]), "ladder-vs-manual", fk, "level-tokens:" + name, "", "%s level handles %s" % (name, sorted(toks)),
                   "parse_%s handles tokens %s; the manual puts %s at this level (%s)" % (name, sorted(toks), sorted(L["tokens"]), L["manual"]))
        for tok, o in sorted(spec["ops"].items()):
            chk.decide(opof.get(tok) == o["op"], "ladder-vs-manual", fk, "token-operator:%s" % tok, "", "Token::%s builds %s" % (tok, o["op"]), "Token::%s builds %s, expected %s" % (tok, o["op"], opof.get(tok)))
            # associativity / operand levels
            if L["assoc"] == "right":
                ok = o["right"] == "parse_" + name
                chk.decide(ok, "ladder-vs-manual", fk, "right-assoc:" + tok, "", "right operand is parsed by the same level (right-associative)", "%s is not right-associative: right operand parsed by %s" % (tok, o["right"]))
            else:
                ok = o["right"] == lowers[name]
                chk.decide(ok, "ladder-vs-manual", fk, "right-operand-level:" + tok, "", "right operand is parsed one level tighter (%s)" % o["right"],
                           "the right operand of %s is parsed by %s instead of %s: precedence/associativity differs from the manual" % (tok, o["right"], lowers[name]))
        if name == "add":
            chk.decide(spec["loop"], "ladder-vs-manual", fk, "left-assoc:add", "", "+ and - chain left-associatively (loop)", "parse_add does not loop")
    # n-ary product rule of the `* /` level
    for tok, o in sorted(PA["div"]["ops"].items()):
        chk.decide(o["left_all_terms"], "ladder-vs-manual", fk, "left-operand-is-whole-product:" + tok, "",
                   "the left operand of %s is the product of all factors accumulated so far (same precedence as `*`, left-associative)" % tok,
                   "the left operand of %s is `%s`, not the product of all accumulated factors: `a * b %s c` groups as a * (b %s c)" % (tok, o["left_src"][:60], tok, tok))
    push = dict(PA["div"]["push"])
    chk.decide(push.get("Asterisk") == "parse_juxt" and PA["div"]["collapse"], "ladder-vs-manual", fk, "asterisk-accumulates", "", "`*` appends a juxtaposition-level factor", "`*` handling is %s" % PA["div"]["push"])
    # unary operators and function arguments
    T = PA["term"]
    chk.decide(T.get("Plus", {}).get("operand") == "parse_term" and T.get("Minus", {}).get("operand") == "parse_term", "ladder-vs-manual", fk, "unary-sign-binds-tightest", "",
               "a unary sign applies to the following term only", "unary signs take %s / %s as operand" % (T.get("Plus"), T.get("Minus")))
    chk.decide(T.get("LPar", {}).get("inner") == "parse_expr", "ladder-vs-manual", fk, "parentheses", "", "parentheses contain a full expression", "parenthesised content is parsed by %s" % T.get("LPar"))


def routing(chk, F):
    """Value -> Number -> Numeric -> BigRat -> num-rational: same std::ops trait at every layer."""
    layers = [("runtime::value::Value", "runtime::value::Value"), ("types::number::Number", "types::number::Number"), ("types::numeric::Numeric", "types::numeric::Numeric"),
              ("types::bigrat::BigRat", None)]
    ARITH = ("core::ops::arith::Add", "core::ops::arith::Sub", "core::ops::arith::Mul", "core::ops::arith::Div", "core::ops::arith::Rem", "core::ops::arith::Neg")

    def arith_callees(fn):
        out = []
        for bb, t in fn.calls():
            if "callee" not in t:
                continue
            c = t["callee"]
            tr = c.get("trait") or c.get("impl_trait") or ""
            if tr in ARITH:
                out.append((tr.split("::")[-1], c["path"], bb))
            elif c["path"].split("::")[-1] in ("div_floor", "mod_floor", "div_rem", "div_euclid", "rem_euclid", "checked_div", "checked_rem", "floor", "trunc", "round", "ceil", "recip", "pow"):
                out.append(("helper:" + c["path"].split("::")[-1], c["path"], bb))
        return out
    ops = [("Add", "add"), ("Sub", "sub"), ("Mul", "mul"), ("Div", "div"), ("Rem", "rem")]
    for op, m in ops:
        # Numeric layer: rational arm
        fn = F.find(CORE, op_impl("types::numeric::Numeric", op, m, "types::numeric::Numeric"), exact=True)
        rat = [(tr, p) for tr, p, bb in arith_callees(fn) if any(d[0] == "variant" and d[3] == "Rational" for d in [fn.guard_desc(g) for g in fn.guards_of(bb)])]
        ok = rat == [(op, op_impl("types::bigrat::BigRat", op, m))]
        chk.decide(ok, "operator-routing", "rink_core::Numeric::" + m, "rational-arm", fn.where(), "Numeric %s on rationals is BigRat's %s" % (m, op), "Numeric::%s's rational arm calls %s" % (m, rat))
        # BigRat layer
        fn = F.find(CORE, op_impl("types::bigrat::BigRat", op, m), exact=True)
        calls = arith_callees(fn)
        ok = len(calls) == 1 and calls[0][0] == op and "num_rational::" in calls[0][1] and len([b for b in fn.blocks if not b["cleanup"] and b["term"]["k"] == "switch"]) == 0
        chk.decide(ok, "operator-routing", "rink_core::BigRat::" + m, "delegates-to-num-rational", fn.where(),
                   "BigRat's %s is exactly num-rational's %s on the two inner ratios (no branches, no other arithmetic)" % (m, op),
                   "BigRat::%s does more than delegate to num-rational's %s: arithmetic callees %s, %d branches" % (m, op, [(a, b.split("::")[-1]) for a, b, _ in calls], len([b for b in fn.blocks if not b["cleanup"] and b["term"]["k"] == "switch"])))
        if ok:
            t = [t for _, t in fn.calls() if "callee" in t and t["callee"]["path"] == calls[0][1]][0]
            srcs = [ap_str(fn.apath(a)) for a in t["args"]]
            chk.decide(srcs == ["arg1.inner", "arg2.inner"], "operator-routing", "rink_core::BigRat::" + m, "operand-order", fn.where(), "operands are (self, rhs) in order", "BigRat::%s passes %s" % (m, srcs))
    # Number layer
    for op, m in (("Add", "add"), ("Sub", "sub"), ("Mul", "mul")):
        fn = F.find(CORE, op_impl("types::number::Number", op, m, "types::number::Number"), exact=True)
        calls = [(tr, p) for tr, p, bb in arith_callees(fn) if "Numeric" in p]
        ok = calls == [(op, op_impl("types::numeric::Numeric", op, m, "types::numeric::Numeric"))]
        chk.decide(ok, "operator-routing", "rink_core::Number::" + m, "value-op", fn.where(), "Number %s combines the values with Numeric's %s" % (m, op), "Number::%s combines values with %s" % (m, calls))
    fn = F.find(CORE, NUM + "rem")
    calls = [(tr, p) for tr, p, bb in arith_callees(fn)]
    chk.decide(calls == [("Rem", op_impl("types::numeric::Numeric", "Rem", "rem", "types::numeric::Numeric"))], "operator-routing", "rink_core::Number::rem", "value-op", fn.where(),
               "Number::rem is Numeric's Rem on the two values", "Number::rem computes with %s" % calls)
    fn = F.find(CORE, NUM + "invert")
    calls = [(tr, p.split(">::")[-1]) for tr, p, bb in arith_callees(fn)]
    chk.decide(("Div", "div") in calls, "operator-routing", "rink_core::Number::invert", "one-over-value", fn.where(), "invert is 1 / value with Numeric's Div", "invert computes with %s" % calls)
    # Value layer: Number arms dispatch to the Number operator of the same trait
    for op, m in (("Add", "add"), ("Sub", "sub"), ("Mul", "mul"), ("Div", "div")):
        fn = F.find(CORE, op_impl("runtime::value::Value", op, m, "runtime::value::Value"), exact=True)
        calls = [(tr, p) for tr, p, bb in arith_callees(fn) if "types::number::Number" in p and "Substance" not in p]
        ok = (op, op_impl("types::number::Number", op, m, "types::number::Number")) in calls and all(tr == op for tr, _ in calls)
        chk.decide(ok, "operator-routing", "rink_core::Value::" + m, "number-arm", fn.where(), "Value %s on numbers is Number's %s" % (m, op), "Value::%s dispatches numbers to %s" % (m, calls))
    v = F.find(CORE, "runtime::value::Value::rem")
    calls = [t["callee"]["path"] for _, t in v.calls() if "callee" in t and "types::number::Number::" in t["callee"]["path"]]
    chk.decide(calls == [NUM + "rem"], "operator-routing", "rink_core::Value::rem", "number-arm", v.where(), "Value::rem on numbers is Number::rem", "Value::rem calls %s" % calls)
    # eval_expr's BinOp dispatch table: BinOpType -> Value method
    fn = F.find(CORE, "runtime::eval::eval_expr")
    h = F.hir_of(fn)
    table = {}
    for mm in hir_walk(h["body"]):
        if mm.get("k") == "Match" and mm.get("src") == "Normal" and H.expr_str(mm["scrut"]) == "binop.op":
            for a in mm["arms"]:
                if a["pat"]["pk"] == "expr" and a["body"].get("k") == "MethodCall":
                    table[a["pat"]["e"]["path"].split("::")[-1]] = (a["body"]["name"], H.expr_str(a["body"]["recv"]), H.expr_str(a["body"]["args"][0]))
    want = {"Add": "add", "Sub": "sub", "Frac": "div", "Pow": "pow", "ShiftL": "shl", "ShiftR": "shr", "Mod": "rem", "And": "and", "Or": "or", "Xor": "xor"}
    ok = {k: v[0] for k, v in table.items()} == want and all(v[1] == "left" and v[2] == "&right" for v in table.values())
    chk.decide(ok, "operator-routing", "rink_core::runtime::eval::eval_expr", "binop-dispatch", fn.where(), "each binary operator dispatches to its own Value method with (left, right)", "BinOp dispatch table is %s" % table)


def digits(chk, F):
    """(f) every digit character consumed in a number-literal loop of the lexer is pushed into the buffer being built; only
    separators are dropped."""
    lex = [f for f in F.by_crate[CORE] if f.path == "<parsing::text_query::TokenIterator<'a> as core::iter::traits::iterator::Iterator>::next"]
    if len(lex) != 1:
        raise AnchorLost("lexer not found")
    fn = lex[0]
    # the lexer and the private helpers that only it calls (a digit loop may have been moved into one)
    hs = F.hirs_of(F.inlined(fn, keep=("owned-helpers-only", "Option::<T>", "Iterator", "bool>::then", "FnOnce", "FnMut", "Fn::call")))
    n = 0
    SEPS = ("_", "\u2009", " ")

    def char_lits(e):
        return [x["lit"]["v"] for x in hir_walk(e) if x.get("k") == "Lit" and x["lit"].get("lit") == "char"] + \
               [x["e"]["v"] for x in hir_walk(e) if x.get("pk") == "expr" and isinstance(x.get("e"), dict) and x["e"].get("lit") == "char"]

    def decide_branch(what, body, line, txt):
        """a branch of a literal loop that consumes a character: it pushes it (a digit) or the branch is for separators only"""
        nonlocal n
        pushes = H.method_calls(body, "push")
        nexts = H.method_calls(body, "next")
        if not nexts:
            return
        n += 1
        lits = what["lits"]
        sep_only = bool(lits) and all(l in SEPS for l in lits) and not what["ranges"] and not what["calls"]
        has_sep = any(l in ("_", "\u2009") for l in lits)
        if pushes:
            if has_sep:
                chk.decide(False, "literal-digits", "rink_core::text_query lexer", "separator-arm-discards", "%s:%d" % (fn.file, line), "",
                           "an arm that matches a digit separator (`_`, U+2009) pushes it into the literal buffer (`%s`): the separator is counted as a digit position" % txt)
            else:
                chk.decide(len(pushes) == 1, "literal-digits", "rink_core::text_query lexer", "digit-arm-pushes", "%s:%d" % (fn.file, line),
                           "a consumed digit is pushed into the literal buffer", "a digit arm of the number lexer pushes %d times (`%s`)" % (len(pushes), txt))
        elif sep_only:
            chk.decide(True, "literal-digits", "rink_core::text_query lexer", "separator-arm-discards", "%s:%d" % (fn.file, line), "digit separators are dropped", "")
        else:
            chk.decide(False, "literal-digits", "rink_core::text_query lexer", "digit-arm-pushes", "%s:%d" % (fn.file, line), "",
                       "a digit arm of the number lexer consumes a character without pushing it (`%s`): the literal is parsed one digit short" % txt)

    for h in hs:
        for m in hir_walk(h["body"]):
            if m.get("k") == "Match" and m.get("src") == "Normal":
                for a in m["arms"]:
                    pats = a["pat"]["alts"] if a["pat"]["pk"] == "or" else [a["pat"]]
                    ranges = [q for q in pats if q["pk"] == "range"]
                    lits = [q["e"]["v"] for q in pats if q["pk"] == "expr" and q["e"].get("lit") == "char"]
                    if not (ranges or lits) or a.get("guard"):
                        continue
                    # only the digit ranges / separators of number literals (other char matches of the lexer are not literal loops)
                    digit_ranges = [q for q in ranges if isinstance(q.get("lo", {}).get("v"), str) and isinstance(q.get("hi", {}).get("v"), str)
                                    and (q["lo"]["v"] + q["hi"]["v"]) in ("09", "af", "AF", "07", "01")]
                    if not digit_ranges and not all(l in SEPS or l in "01" for l in lits):
                        continue
                    decide_branch({"lits": lits, "ranges": digit_ranges, "calls": []}, a["body"], a["line"], H.expr_str(a["body"], 120))
            if m.get("k") == "Loop":
                # `if is_digit(c) { next(); push(c) } else if c == '_' || c == '\u{2009}' { next() } else { break }`: only loops that
                # have a branch on a digit predicate (a closure/function parameter applied to the character, or char::is_digit & co.)
                def digit_pred(c_):
                    if c_.get("k") == "Call" and H.local_name(c_["f"]):
                        return True
                    return c_.get("k") == "MethodCall" and c_["name"] in ("is_digit", "is_ascii_digit", "is_ascii_hexdigit")
                def own(e_):
                    """nodes of this loop's body, not those of loops nested in it"""
                    if isinstance(e_, dict):
                        yield e_
                        for k_, v_ in e_.items():
                            if isinstance(v_, dict) and v_.get("k") == "Loop":
                                continue
                            if isinstance(v_, (dict, list)):
                                yield from own(v_)
                    elif isinstance(e_, list):
                        for x_ in e_:
                            if isinstance(x_, dict) and x_.get("k") == "Loop":
                                continue
                            yield from own(x_)
                mine = list(own(m["body"]))
                if not any(e.get("k") == "If" and e["cond"].get("k") != "Let" and any(digit_pred(c_) for c_ in hir_walk(e["cond"])) and H.method_calls(e["then"], "push")
                           for e in mine):
                    continue
                for e in mine:
                    if e.get("k") != "If" or e["cond"].get("k") == "Let":
                        continue
                    cond = e["cond"]
                    calls = [c for c in hir_walk(cond) if c.get("k") in ("Call", "MethodCall")]
                    lits = char_lits(cond)
                    if not (lits or calls):
                        continue
                    if not H.method_calls(e["then"], "next") or any(x.get("k") == "Loop" for x in hir_walk(e["then"])):
                        continue
                    decide_branch({"lits": lits, "ranges": [], "calls": calls}, e["then"], e["line"], H.expr_str(e["then"], 120))
    if n < 2:
        chk.anchor_lost("literal-digits", "rink_core::text_query lexer", "only %d digit/separator branches recognised in the number lexer (expected >= 2)" % n)
