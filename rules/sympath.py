"""Path enumeration with a tiny symbolic environment over MIR facts (loop-free bodies).

Terms are nested tuples:
  ('arg', n) ('const', v) ('unit',) ('call', name, (args...), bb) ('field', base, name) ('deref', t)
  ('ref', t) ('binop', op, a, b) ('unop', op, a) ('cast', t, to) ('agg', name, (ops...)) ('discr', t)
  ('unknown', text)
"""
from facts import const_of, place_of, AnchorLost


class Path:
    def __init__(self):
        self.blocks = []
        self.events = []   # ('call', bb, name, args, callee, result_term) / ('branch', bb, term, label) / ('assert', bb, kind)
        self.ret = None


def _const_term(c):
    if "int" in c:
        return ("const", c["int"])
    if "fndef" in c:
        return ("fn", c["fndef"]["path"])
    if c.get("ty") == "()":
        return ("unit",)
    return ("const", c.get("dbg", "?"))


def place_term(env, pl):
    t = env.get(pl["l"], ("local", pl["l"]))
    for p in pl["p"]:
        if p == "*":
            t = t[1] if t[0] == "ref" else ("deref", t)
        elif isinstance(p, dict) and "f" in p:
            if t[0] == "agg" and p["i"] < len(t[2]) and t[1] in ("tuple",):
                t = t[2][p["i"]]
            elif t[0] == "binop" and t[1].endswith("WithOverflow"):
                t = ("binop", t[1].replace("WithOverflow", ""), t[2], t[3]) if p["i"] == 0 else ("overflowflag", t)
            else:
                t = ("field", t, p["f"])
        elif isinstance(p, dict) and "variant" in p:
            t = ("as", t, p["variant"])
        else:
            t = ("proj", t, str(p))
    return t


def op_term(env, op):
    c = const_of(op)
    if c is not None:
        return _const_term(c)
    pl = place_of(op)
    if pl is not None:
        return place_term(env, pl)
    return ("unknown", str(op)[:40])


def rv_term(env, rv):
    k = rv["k"]
    if k == "use":
        return op_term(env, rv["a"])
    if k in ("ref", "rawptr"):
        return ("ref", place_term(env, rv["place"]))
    if k == "binop":
        return ("binop", rv["op"], op_term(env, rv["a"]), op_term(env, rv["b"]))
    if k == "unop":
        return ("unop", rv["op"], op_term(env, rv["a"]))
    if k == "cast":
        return ("cast", op_term(env, rv["a"]), rv["to"])
    if k == "discr":
        return ("discr", place_term(env, rv["place"]))
    if k == "agg":
        name = rv["agg"] if rv["agg"] != "adt" else rv["adt"] + "::" + rv["variant"]
        return ("agg", name, tuple(op_term(env, o) for o in rv["ops"]))
    return ("unknown", rv.get("dbg", k)[:60])


def enumerate_paths(fn, max_paths=2000, simplify=None):
    """All entry->return paths of a loop-free body, with symbolic events. Raises AnchorLost on a cycle."""
    paths = []

    def run(bb, env, path, onstack):
        if len(paths) > max_paths:
            raise AnchorLost("more than %d paths in %s" % (max_paths, fn.path))
        if bb in onstack:
            raise AnchorLost("%s is not loop-free (cycle through bb%d)" % (fn.path, bb))
        onstack = onstack | {bb}
        b = fn.blocks[bb]
        env = dict(env)
        path.blocks.append(bb)
        for st in b["stmts"]:
            if st["k"] != "assign":
                continue
            t = rv_term(env, st["rv"])
            if simplify:
                t = simplify(t)
            pl = st["place"]
            if not pl["p"]:
                env[pl["l"]] = t
            else:
                path.events.append(("store", bb, place_term(env, pl), t))
        term = b["term"]
        k = term["k"]
        if k == "return":
            path.ret = env.get(0, ("local", 0))
            paths.append(path)
            return
        if k in ("unreachable", "resume", "terminate"):
            return
        if k == "call":
            args = tuple(op_term(env, a) for a in term["args"])
            name = term["callee"]["path"] if "callee" in term else "<indirect>"
            res = ("call", name, args, bb)
            if simplify:
                res = simplify(res)
            path.events.append(("call", bb, name, args, term.get("callee"), res))
            if not term["dest"]["p"]:
                env[term["dest"]["l"]] = res
            if term.get("target") is None:
                return
            run(term["target"], env, path, onstack)
            return
        if k == "switch":
            dt = op_term(env, term["discr"])
            succ = fn.succs(bb)
            for lab, s in succ:
                p2 = Path()
                p2.blocks = path.blocks[:]
                p2.events = path.events[:] + [("branch", bb, dt, lab, [v for v, _ in term["targets"]])]
                run(s, env, p2, onstack)
            return
        if k == "assert":
            path.events.append(("assert", bb, term["msg"].get("kind")))
        for lab, s in fn.succs(bb):
            run(s, env, path, onstack)
            return

    env0 = {i: ("arg", i) for i in range(1, fn.raw["arg_count"] + 1)}
    run(0, env0, Path(), frozenset())
    return paths


def tstr(t):
    if not isinstance(t, tuple):
        return str(t)
    k = t[0]
    if k == "arg":
        return "arg%d" % t[1]
    if k == "const":
        return str(t[1])
    if k == "call":
        return "%s(%s)" % (t[1].split("::")[-1] if "::" in t[1] else t[1], ", ".join(tstr(a) for a in t[2]))
    if k == "field":
        return "%s.%s" % (tstr(t[1]), t[2])
    if k == "ref":
        return "&" + tstr(t[1])
    if k == "deref":
        return "*" + tstr(t[1])
    if k == "binop":
        return "(%s %s %s)" % (tstr(t[2]), t[1], tstr(t[3]))
    if k == "agg":
        return "%s{%s}" % (t[1], ", ".join(tstr(a) for a in t[2]))
    return "(" + " ".join(tstr(x) for x in t) + ")"
