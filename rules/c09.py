"""C09 Unit lists and duration breakdowns decompose without loss.  DESIGN.md section 4, C09."""
import c02
import k2
import k4
from facts import AnchorLost, ap_str, ap_calls

CORE = "rink_core"


def run(chk, F):
    chk.explanation = (
        "Structure of to_list decided on MIR: the two conformance gates (value vs first unit, every member vs the first) cut "
        "every division; inside the loop each non-last unit is consumed by Numeric::div_rem of the *running* value, the quotient "
        "component is what is pushed and the remainder component of the same call is what the running value becomes; the last "
        "unit takes the exact Numeric division; every division is behind an exact zero test of the list unit's value; div_rem's "
        "rational arm computes a truncating integer quotient (BigInt division of numerator by denominator of left/right) and the "
        "remainder as left - right * quotient; K4: no float-introducing site is reachable from to_list/div_rem on rational "
        "operands; the automatic duration reply is built only from to_list's result behind the `unit == s` test. The mixed-radix "
        "law itself (sum, integrality, sign, bound) is arithmetic over values and is not decided.")
    chk.guard("conformance-gate", "to_list", lambda: c02.to_list_gates(chk, F))
    chk.guard("remainder-threading", "to_list", lambda: threading(chk, F))
    chk.guard("positional-pairing", "to_list", lambda: pairing(chk, F))
    chk.guard("positive-units", "to_list", lambda: positive_units(chk, F))
    import c03
    chk.guard("target-consumed", "parse_query", lambda: c03.target_consumed(chk, F))
    chk.guard("div_rem-shape", "Numeric::div_rem", lambda: div_rem(chk, F))
    chk.guard("exactness", "to_list", lambda: exact(chk, F))
    chk.guard("duration-breakdown", "eval_query", lambda: duration(chk, F))


REORDERING = {"sort", "sort_by", "sort_by_key", "sort_unstable", "sort_unstable_by", "sort_unstable_by_key", "sort_by_cached_key", "reverse", "rev",
              "rotate_left", "rotate_right", "swap", "swap_remove", "dedup", "dedup_by", "dedup_by_key", "retain", "retain_mut", "remove", "insert",
              "truncate", "drain", "pop", "split_off", "chain", "filter", "filter_map", "step_by", "take", "take_while", "skip_while", "flat_map",
              "flatten", "cycle", "last", "nth", "max_by", "min_by", "max_by_key", "min_by_key", "select_nth_unstable", "partition", "extend"}


def pairing(chk, F):
    """The i-th part is computed from the i-th list unit and labelled with the i-th name: names, resolved units and parts
    are three sequences in the caller's order.  Nothing in to_list may reorder, drop or insert elements, and the final
    labelling zips the names (the `list` parameter, from its start) with the parts (the vector the loop pushed into)."""
    fn = F.find(CORE, "runtime::eval::to_list")
    fk = "rink_core::runtime::eval::to_list"
    bodies = [fn] + F.closures_of(fn)
    bad = []
    for f in bodies:
        for bb, t in f.calls():
            if "callee" not in t or t["callee"]["crate"] == CORE:
                continue
            last = t["callee"]["path"].split("::")[-1]
            if last in REORDERING or "BinaryHeap" in t["callee"]["path"] or "BTree" in t["callee"]["path"] or "Hash" in t["callee"]["path"]:
                bad.append((last, f.where(bb)))
    chk.decide(not bad, "positional-pairing", fk, "no-reordering", bad[0][1] if bad else fn.where(),
               "to_list never reorders, drops or inserts elements of the unit list, the resolved units or the parts",
               "to_list calls %s: the parts are computed from the units in one order and labelled with the names in another" % ", ".join("%s at %s" % b for b in bad))
    zips = [(bb, t) for bb, t in fn.calls() if "callee" in t and t["callee"]["path"].endswith("Iterator::zip")]
    if len(zips) != 1:
        raise AnchorLost("to_list: expected one zip of names and parts, found %d" % len(zips))
    bb, t = zips[0]
    a = [ap_str(fn.apath(x)) for x in t["args"]]
    import c02 as _c02
    LIST = _c02.param_of_type(fn, "&[") or 3      # the names parameter is the slice, wherever it stands
    names_ok = any(x == "core::slice::<impl [T]>::iter(arg%d)" % LIST for x in a)
    # (`.zip(out.into_iter())`, or `.zip(out)`: the vector of parts itself)
    parts_ok = any(x.endswith("into_iter(alloc::vec::Vec::<T>::new())") or "IntoIterator>::into_iter(" in x and "Vec" in x and "skip" not in x
                   or x in ("alloc::vec::Vec::<T>::new()",) or x.startswith("alloc::vec::Vec::<T>::with_capacity(") for x in a)
    chk.decide(names_ok and parts_ok, "positional-pairing", fk, "zip-names-with-parts", fn.where(bb),
               "the reply zips the caller's names, from the first, with the parts in the order they were computed",
               "the final zip pairs %s" % [x[:80] for x in a])
    # the decomposition loop walks the resolved units themselves, from the first (no skip feeding enumerate)
    enums = [(bb, t) for bb, t in fn.calls() if "callee" in t and t["callee"]["path"].endswith("Iterator::enumerate")]
    ok = len(enums) == 1 and "skip" not in ap_str(fn.apath(enums[0][1]["args"][0])) and "IntoIterator>::into_iter(" in ap_str(fn.apath(enums[0][1]["args"][0]))
    if not enums:
        # no index: the last unit taken off with split_last(), the loop over the rest, from the first (see peeled_last)
        nf = F.find(CORE, "runtime::eval::to_list", inline=True, keep=TO_LIST_KEEP)
        drs = [(b_, t_) for b_, t_ in nf.calls() if "callee" in t_ and t_["callee"]["path"].endswith("types::numeric::Numeric::div_rem")]
        divs = [(b_, t_) for b_, t_ in nf.calls() if "callee" in t_ and t_["callee"]["path"].endswith("core::ops::arith::Div<&'b types::numeric::Numeric>>::div")]
        if len(drs) == 1 and len(divs) == 1:
            sp = peeled_last(nf, drs[0][1], divs[0][1])
            if sp is not None:
                src = ap_str(nf.apath(nf.blocks[sp]["term"]["args"][0]))
                ok = "Iterator>::collect(" in src and "skip" not in src and "rev" not in src
                enums = [(sp, nf.blocks[sp]["term"])]
                fn = nf
    chk.decide(ok, "positional-pairing", fk, "loop-over-all-units", fn.where(enums[0][0]) if enums else fn.where(),
               "the decomposition loop enumerates the resolved units from the first", "the decomposition loop does not enumerate the resolved units themselves")


TO_LIST_KEEP = ("conformance_err", "Option::<T>", "Result::<T, E>", "Iterator", "bool>::then")


def positive_units(chk, F):
    """All parts share the value's sign only if every list unit is positive: the decomposition runs behind the refusing edge
    of `unit.value < 0` (zero is refused by the divisor gate)."""
    # (normalised: the tests may have been taken out into a private `check(unit)?` helper)
    fn = F.find(CORE, "runtime::eval::to_list", inline=True, keep=TO_LIST_KEEP)
    fk = "rink_core::runtime::eval::to_list"
    drs = [bb for bb, t in fn.calls() if "callee" in t and t["callee"]["path"].endswith("types::numeric::Numeric::div_rem")]
    if len(drs) != 1:
        raise AnchorLost("to_list: div_rem call not found")

    def acc(kind, ap, info):
        if kind != "bool":
            return None
        r = ap[0]
        if r[0] == "call" and r[1].startswith("<types::numeric::Numeric as core::cmp::PartialOrd>::") and len(r[2]) == 2:
            op = r[1].split("::")[-1]
            a, b = ap_str(r[2][0]), ap_str(r[2][1])
            if a.endswith(".value") and b == "types::numeric::Numeric::zero()":
                return {"lt": {"false"}, "le": {"false"}, "gt": {"true"}, "ge": {"true"}}.get(op)
            if b.endswith(".value") and a == "types::numeric::Numeric::zero()":
                return {"gt": {"false"}, "ge": {"false"}, "lt": {"true"}, "le": {"true"}}.get(op)
        return None
    k2.gate_rule(chk, fn, "positive-units", fk, "negative-units-refused", drs, acc,
                 "the value is decomposed only with list units that passed a sign test",
                 "to_list accepts a negative-valued list unit (`10 K -> delisle_absolute;K`): the parts do not share the value's sign")


def peeled_last(fn, dt, xt):
    """The same decomposition with the last unit taken out of the loop: `let (last, init) = units.split_last()..; for unit in init
    { div_rem by unit.value } exact division by last.value`.  Returns the block of the split_last call when div_rem divides by the
    elements of its second component (all of them, from the first) and the exact division by its first component, once, after the
    loop; None otherwise."""
    WRAP = ("Try>::branch", "Option::<T>::ok_or_else", "Option::<T>::ok_or", "Option::<T>::unwrap", "Option::<T>::expect", "Deref>::deref")

    def split_site(ap):
        """(block of the split_last call, tuple component taken) for an access path that goes through it"""
        root, projs = ap
        comp = [p for p in projs if str(p).isdigit()]
        for _ in range(8):
            if root[0] != "call" or not root[2]:
                return None
            if root[1].endswith("<impl [T]>::split_last"):
                return root[3], comp
            if not root[1].endswith(WRAP):
                return None
            inner = root[2][0]
            comp = [p for p in inner[1] if str(p).isdigit()] + comp
            root = inner[0]
        return None
    u1, u2 = fn.apath(dt["args"][1]), fn.apath(xt["args"][1])
    if u1[1][-1:] != ("value",) or u2[1][-1:] != ("value",):
        return None
    # the exact division: <split_last payload>.0.value
    s2 = split_site((u2[0], u2[1][:-1]))
    # div_rem: next(iter(<split_last payload>.1)) as Some.0 .value, nothing skipped
    r1 = u1[0]
    if r1[0] != "call" or not r1[1].endswith(("Iterator>::next", "::next")) or not r1[2]:
        return None
    src = r1[2][0]
    while src[0][0] == "call" and src[0][2] and src[0][1].endswith(("::iter", "into_iter", "IntoIterator>::into_iter")) and not src[1]:
        src = src[0][2][0]
    s1 = split_site(src)
    if s1 is None or s2 is None or s1[0] != s2[0]:
        return None
    # payload steps contribute one "0" each (Continue.0 / Some.0): the tuple component is the last digit
    if s1[1][-1:] != ["1"] or s2[1][-1:] != ["0"]:
        return None
    return s1[0]


def threading(chk, F):
    fn = F.find(CORE, "runtime::eval::to_list", inline=True, keep=TO_LIST_KEEP)
    fk = "rink_core::runtime::eval::to_list"
    drs = [(bb, t) for bb, t in fn.calls() if "callee" in t and t["callee"]["path"].endswith("types::numeric::Numeric::div_rem")]
    divs = [(bb, t) for bb, t in fn.calls() if "callee" in t and t["callee"]["path"].endswith("core::ops::arith::Div<&'b types::numeric::Numeric>>::div")]
    if len(drs) != 1 or len(divs) != 1:
        raise AnchorLost("to_list: expected one div_rem and one exact division, found %d and %d" % (len(drs), len(divs)))
    db, dt = drs[0]
    xb, xt = divs[0]
    # the running value: the local that div_rem's receiver borrows
    import c03
    val_local = c03.underlying_local(fn, dt["args"][0])
    val_local2 = c03.underlying_local(fn, xt["args"][0])
    chk.decide(val_local is not None and val_local == val_local2, "remainder-threading", fk, "same-running-value", fn.where(db),
               "div_rem and the final division both operate on the running value", "div_rem and the final division do not read the same running value")
    # unit operand is the loop item's .value in both
    u1, u2 = fn.apath(dt["args"][1]), fn.apath(xt["args"][1])
    same_item = u1[1][-1:] == ("value",) and u2[1][-1:] == ("value",) and u1[1] == u2[1] and c03.val_key(u1)[0] == c03.val_key(u2)[0]
    # ... or the last unit has been taken off the list: div_rem by the elements of `init`, the exact division by `last`
    chk.decide(same_item or peeled_last(fn, dt, xt) is not None, "remainder-threading", fk, "divides-by-list-unit", fn.where(db),
               "both divide by the current list unit's value", "the divisor is not the current list unit's value (%s / %s)" % (ap_str(u1)[-60:], ap_str(u2)[-60:]))
    # running value := remainder component of this very call; pushed := quotient component
    assigned = None
    for i, j, st in fn.stmts():
        if st["k"] == "assign" and st["place"]["l"] == val_local and not st["place"]["p"] and fn.dominates(db, i) and i != 0:
            ap = fn.apath(st["rv"]["a"]) if st["rv"]["k"] == "use" else None
            if ap is not None:
                assigned = (i, ap)
    ok = assigned is not None and k2._root_call_bb(assigned[1]) == db and assigned[1][1] == ("1",)
    chk.decide(ok, "remainder-threading", fk, "value-becomes-remainder", fn.where(assigned[0]) if assigned else fn.where(db),
               "after each non-last unit the running value is the remainder returned by that div_rem call",
               "the running value is not replaced by the remainder of the div_rem call (assigned: %s)" % (ap_str(assigned[1])[:100] if assigned else "nothing"))
    pushes = [(bb, t) for bb, t in fn.calls() if "callee" in t and t["callee"]["path"].endswith("Vec::<T, A>::push") and fn.dominates(db, bb)]
    okp = any(k2._root_call_bb(fn.apath(t["args"][1])) == db and fn.apath(t["args"][1])[1] == ("0",) for bb, t in pushes)
    chk.decide(okp, "remainder-threading", fk, "pushes-quotient", fn.where(db), "the integer quotient of the same div_rem call is what is reported for the unit",
               "the reported part is not the quotient component of the div_rem call")
    okx = any(k2._root_call_bb(fn.apath(t["args"][1])) == xb and not fn.apath(t["args"][1])[1] for bb, t in fn.calls()
              if "callee" in t and t["callee"]["path"].endswith("Vec::<T, A>::push"))
    chk.decide(okx, "remainder-threading", fk, "last-takes-exact-quotient", fn.where(xb), "the last unit reports the exact quotient of what remains", "the last part is not value / unit")
    # every part pushed in the loop is one of those two quotients
    out_local = None
    for bb, t in fn.calls():
        if "callee" in t and t["callee"]["path"].endswith("Vec::<T, A>::push") and k2._root_call_bb(fn.apath(t["args"][1])) == db:
            out_local = c03.underlying_local(fn, t["args"][0])
    for bb, t in fn.calls():
        if "callee" in t and t["callee"]["path"].endswith("Vec::<T, A>::push") and c03.underlying_local(fn, t["args"][0]) == out_local and out_local is not None:
            ap = fn.apath(t["args"][1])
            good = (k2._root_call_bb(ap) == db and ap[1] == ("0",)) or (k2._root_call_bb(ap) == xb and not ap[1])
            chk.decide(good, "remainder-threading", fk, "part-is-a-quotient", fn.where(bb),
                       "the reported part is the div_rem quotient or the final exact quotient",
                       "a part is reported that is neither the div_rem quotient nor the exact final quotient (%s): the decomposition law "
                       "(integer parts, remainder smaller than the unit just used) is bypassed on that path" % ap_str(ap)[:80])
    # last-unit test: i == len - 1 guards the exact division; div_rem on the other edge
    def is_last(kind, ap, info):
        """a comparison of the loop index with the list's length that singles out the last element, however it is written
        (`i == len - 1`, `i + 1 < len`, `i + 1 >= len`, ..): evaluated for the last and for the one-before-last index"""
        if kind != "bool":
            return None
        r = ap[0]
        if r[0] != "binop" or r[1] not in ("Eq", "Ne", "Lt", "Le", "Gt", "Ge") or "Vec::<T, A>::len" not in ap_str(ap):
            return None

        def val(a, i, n):
            rt, pr = a
            if rt[0] == "const" and isinstance(rt[1], int):
                return rt[1]
            if rt[0] == "binop" and rt[1].replace("WithOverflow", "") in ("Add", "Sub"):
                x, y = val(rt[2], i, n), val(rt[3], i, n)
                if x is None or y is None:
                    return None
                return x + y if rt[1].startswith("Add") else x - y
            if rt[0] == "cast":
                return val(rt[2], i, n)
            if rt[0] == "call" and rt[1].endswith("::len"):
                return n
            if "numerate" in ap_str(a) and "::next(" in ap_str(a) and pr[-1:] == ("0",):
                return i
            return None
        out = []
        for i in (9, 8):
            x, y = val(r[2], i, 10), val(r[3], i, 10)
            if x is None or y is None:
                return None
            out.append({"Eq": x == y, "Ne": x != y, "Lt": x < y, "Le": x <= y, "Gt": x > y, "Ge": x >= y}[r[1]])
        if out == [True, False]:
            return {"true"}
        if out == [False, True]:
            return {"false"}
        return None
    res, matched = k2.cut_gate(fn, [xb], is_last)
    res2, _ = k2.cut_gate(fn, [db], lambda k, a, i: ({"false"} if is_last(k, a, i) == {"true"} else {"true"}) if is_last(k, a, i) else None)
    PEEL = peeled_last(fn, dt, xt)
    if PEEL is not None and not (bool(matched) and res[xb] and res2[db]):
        # no index test: the last unit is taken off the list up front, the loop serves the others, the exact division comes once,
        # after the loop (it cannot run before a div_rem: the loop is not reachable from it)
        after = db not in fn.reachable(xb) and xb in fn.reachable(db)
        chk.decide(after, "remainder-threading", fk, "last-unit-test", fn.where(xb),
                   "the exact division is by the unit split_last() took off the list and comes after the loop that div_rems by all earlier ones",
                   "the exact division by the last unit is not placed after the div_rem loop over the earlier units")
    else:
        chk.decide(bool(matched) and res[xb] and res2[db], "remainder-threading", fk, "last-unit-test", fn.where(xb),
                   "the exact division is used exactly for i == len - 1 and div_rem for every earlier unit",
                   "the choice between div_rem and the exact division is not `i == len - 1`")
    # zero-valued list unit refused before dividing
    def nonzero(kind, ap, info):
        if kind != "bool":
            return None
        r = ap[0]
        if r[0] == "call" and r[1] in ("<types::numeric::Numeric as core::cmp::PartialEq>::eq", "<types::numeric::Numeric as core::cmp::PartialEq>::ne"):
            s = ap_str(ap)
            if ".value" in s and "Numeric::zero()" in s:
                return {"false"} if r[1].endswith("::eq") else {"true"}
        return None
    k2.gate_rule(chk, fn, "divisor-nonzero", fk, "list-unit-value-nonzero", [db, xb], nonzero,
                 "both divisions are behind the exact test `unit.value != 0`",
                 "a list unit whose value is zero is divided by (num-rational panics on a zero denominator)")


def div_rem(chk, F):
    fn = F.find(CORE, "types::numeric::Numeric::div_rem")
    fk = "rink_core::types::numeric::Numeric::div_rem"
    # rational arm: blocks guarded by Parity::Rational
    calls = []
    for bb, t in fn.calls():
        if "callee" not in t:
            continue
        gs = [fn.guard_desc(g) for g in fn.guards_of(bb)]
        if any(d[0] == "variant" and d[3] == "Rational" for d in gs):
            calls.append((bb, t["callee"]["path"], t))
    names = [p for _, p, _ in calls]
    want = ["<&'a types::bigrat::BigRat as core::ops::arith::Div>::div", "types::bigrat::BigRat::numer", "types::bigrat::BigRat::denom",
            "<&'a types::bigint::BigInt as core::ops::arith::Div>::div"]
    ok = all(any(n.endswith(w) for n in names) for w in want)
    chk.decide(ok, "div_rem-shape", fk, "truncating-quotient", fn.where(),
               "the quotient is numer(left/right) divided by denom(left/right) with BigInt division (truncation toward zero)",
               "div_rem's rational arm no longer computes the quotient as BigInt numer / denom of left / right (callees: %s)" % [n.split("::")[-1] for n in names])
    bad = [n for n in names if any(x in n for x in ("div_floor", "div_euclid", "::floor", "::ceil", "::round", "rem_euclid", "mod_floor", "div_mod_floor", "div_rem"))]
    chk.decide(not bad, "div_rem-shape", fk, "no-flooring", fn.where(), "no flooring/euclidean/rounding helper in the rational arm", "div_rem uses %s: negative values would not share the value's sign" % bad)
    # remainder = left - right * quotient
    subs = [(bb, t) for bb, p, t in calls if p.endswith("<&'a types::bigrat::BigRat as core::ops::arith::Sub>::sub")]
    okr = False
    if len(subs) == 1:
        minuend = fn.apath(subs[0][1]["args"][0])
        sub = fn.apath(subs[0][1]["args"][1])
        r = sub[0]
        if r[0] == "call" and r[1].endswith("<&'a types::bigrat::BigRat as core::ops::arith::Mul>::mul"):
            a, b = r[2]
            sa, sb = ap_str(a), ap_str(b)
            # right * ratio(quotient, 1), quotient = BigInt div of numer/denom of (left / right)
            quot = sb if "BigRat::ratio" in sb else sa
            other = a if quot is sb else b
            okr = "BigRat::ratio(<&'a types::bigint::BigInt as core::ops::arith::Div>::div(types::bigrat::BigRat::numer(" in quot and \
                "as Rational.1" in ap_str(other) and "as Rational.0" in ap_str(minuend)
    chk.decide(okr, "div_rem-shape", fk, "remainder-is-left-minus-right-times-quotient", fn.where(subs[0][0]) if subs else fn.where(),
               "remainder = left - right * quotient", "the remainder is not computed as left - right * quotient")
    # float arm (a list unit can be a float, e.g. `semitone`): the quotient is truncated and the remainder is left - right * quotient
    fl = [(bb, t) for bb, t in fn.calls() if "callee" in t and any(d[0] == "variant" and d[3] == "Float" for d in (fn.guard_desc(g) for g in fn.guards_of(bb)))]
    truncs = [t for bb, t in fl if t["callee"]["path"].endswith(("f64>::trunc", "::trunc"))]
    trunc_ok = False
    for t in truncs:
        a = fn.apath(t["args"][0])
        trunc_ok = trunc_ok or (a[0][0] == "binop" and a[0][1] == "Div" and "as Float.0" in ap_str(a[0][2]) and "as Float.1" in ap_str(a[0][3]))
    rem_ok = False
    for i, j, st in fn.stmts():
        rv = st.get("rv", {})
        if st["k"] == "assign" and rv.get("k") == "binop" and rv.get("op") == "Sub" and rv.get("aty") == "f64":
            a, b = fn.apath(rv["a"]), fn.apath(rv["b"])
            rem_ok = rem_ok or ("as Float.0" in ap_str(a) and b[0][0] == "binop" and b[0][1] == "Mul" and "trunc(" in ap_str(b) and "as Float.1" in ap_str(b))
    chk.decide(trunc_ok and rem_ok, "div_rem-shape", fk, "float-arm-truncates", fn.where(),
               "on floats the quotient is trunc(left / right) and the remainder left - right * quotient",
               "div_rem's float arm does not return a truncated quotient with the matching remainder (a float-valued list unit such as `semitone` "
               "then gets a fractional part and the parts sum to more than the value)")
    # the tuple returned in the rational arm is (quotient as rational, remainder)
    # float arm exists only behind Parity::Float
    import k4 as _k4
    prims = _k4.primitives(fn)
    chk.decide(all(_k4.float_guarded(fn, bb) for bb, _, _ in prims), "div_rem-shape", fk, "float-arm-guarded", fn.where(),
               "float arithmetic in div_rem only when an operand already is a float", "div_rem introduces floats for rational operands")


def exact(chk, F):
    roots = [F.find(CORE, "runtime::eval::to_list"), F.find(CORE, "types::numeric::Numeric::div_rem")]
    # to_list also renders the parts (to_parts -> prettify ...): rendering is C05/C06 territory; restrict to arithmetic callees
    def stop(fn, bb):
        t = fn.blocks[bb]["term"]
        if t["k"] == "call" and "callee" in t:
            p = t["callee"]["path"]
            return p.endswith(("Number::to_parts", "Number::to_parts_simple", "Number::prettify", "Context::canonicalize", "Show>::show", "Context::lookup", "Context::unknown_unit_err", "conformance_err")) or "fmt::" in p
        return False
    nreach, nprim, bad = k4.check_exact(chk, F, "exactness", roots, "unit-list parts must be exact", extra_stop=stop)
    chk.extra["exact_reach"] = {"functions": nreach, "float_primitives_seen": nprim}


def duration(chk, F):
    fn = F.find(CORE, "runtime::eval::eval_query", inline=True, keep=("::to_list",))
    fk = "rink_core::runtime::eval::eval_query"
    aggs = [(i, j, st) for i, j, st in fn.stmts() if st.get("rv", {}).get("k") == "agg" and st["rv"].get("adt", "").endswith("reply::DurationReply")]
    if len(aggs) != 1:
        raise AnchorLost("eval_query: expected one DurationReply construction, found %d" % len(aggs))
    i, j, st = aggs[0]
    fields = st["rv"]["fields"]
    ops = st["rv"]["ops"]
    src = {}
    for name, op in zip(fields, ops):
        src[name] = ap_str(fn.apath(op))
    from_list = [n for n in ("years", "weeks", "days", "hours", "minutes", "seconds") if "runtime::eval::to_list" in src.get(n, "") and "::next(" in src.get(n, "")]
    chk.decide(len(from_list) == 6, "duration-breakdown", fk, "parts-from-to_list", fn.where(i, j),
               "years..seconds are consecutive items of to_list's result", "duration parts not taken from to_list: %s" % {n: src.get(n, "")[:50] for n in fields})
    gs = [fn.guard_desc(g) for g in fn.guards_of(i)]
    sec = any(d[0] == "bool" and d[2] is True and c02.unit_test(k2.peel_not(d[1])[0]) for d in gs)
    chk.decide(sec, "duration-breakdown", fk, "only-for-seconds", fn.where(i, j), "the breakdown is produced only behind `n.unit == s`", "the duration breakdown is not guarded by the unit being seconds")
    # the unit names handed to to_list
    tl = [(bb, t) for bb, t in fn.calls() if "callee" in t and t["callee"]["path"].endswith("runtime::eval::to_list") and fn.dominates(bb, i)]
    from facts import hir_walk
    arrs = [a for h in F.hirs_of(fn) for a in hir_walk(h["body"]) if a.get("k") == "Array" and len(a["elems"]) == 6 and all(e.get("k") == "Lit" for e in a["elems"])]
    names = [e["lit"]["v"] for e in arrs[0]["elems"]] if arrs else []
    chk.decide(names == ["year", "week", "day", "hour", "minute", "second"], "duration-breakdown", fk, "unit-order", fn.where(),
               "breakdown units are year, week, day, hour, minute, second in that order (matching the reply fields)", "breakdown unit list is %s" % names)
    import datafiles
    f = datafiles.folder()
    vals = []
    for n in names:
        try:
            v = f.lookup(n)
            vals.append(v)
        except Exception as ex:  # noqa
            vals.append(None)
    ok = all(v is not None and v[1] == {"s": 1} for v in vals) and all(vals[k][0] > vals[k + 1][0] for k in range(len(vals) - 1)) if vals and all(vals) else False
    chk.decide(ok, "duration-breakdown", "core/definitions.units", "units-are-times-descending", "",
               "the six units are defined, all of dimensionality time, strictly descending: %s" % [str(v[0]) for v in vals if v],
               "breakdown units are not all defined times in descending order: %s" % vals)
