"""Normalised MIR of a function: the code a maintainer can move without changing behaviour is put back where it runs.

  * calls of *private helpers* of the same crate are replaced by the helper's body (`extract function`);
  * calls of the std combinators that only choose between running a closure or not - Option::{map, and_then, or_else,
    unwrap_or_else, ok_or_else, filter}, bool::then, Iterator::{any, all, find, find_map} - are replaced by the match / loop
    they stand for, with the closure's body in place (`match` <-> combinator, loop <-> iterator method).

Rules that look for something *in* a function (a call site behind a test, the order of two lookups, what is returned on which
edge) ask for this form with `F.find(.., inline=True)`; inventories (panic sites, casts, writers) keep using the functions as
they are compiled, so every site is still seen exactly once.  `keep` names callees that stay calls because the rule asking
talks about them by name.
"""
import facts

OPT = {"variants": [[0, "None"], [1, "Some"]], "enum": "core::option::Option"}


def _remap(x, loff):
    if isinstance(x, dict):
        if "l" in x and "p" in x and isinstance(x["l"], int):
            y = dict(x)
            y["l"] = x["l"] + loff
            y["p"] = [_remap(q, loff) for q in x["p"]]
            return y
        return {k: _remap(v, loff) for k, v in x.items()}
    if isinstance(x, list):
        return [_remap(v, loff) for v in x]
    return x


class Builder:
    def __init__(self, raw):
        self.raw = dict(raw)
        self.raw["locals"] = list(raw["locals"])
        self.raw["vars"] = list(raw.get("vars", []))
        self.raw["blocks"] = [dict(b) for b in raw["blocks"]]
        self.ids = []

    def local(self, ty):
        self.raw["locals"].append(ty)
        return len(self.raw["locals"]) - 1

    def block(self, stmts=None, term=None, cleanup=False):
        self.raw["blocks"].append({"cleanup": cleanup, "stmts": stmts or [], "term": term})
        return len(self.raw["blocks"]) - 1

    def splice(self, g_raw, arg_ops, dest, target, unwind, loc):
        """Body of g with its parameters set to arg_ops; returns the entry block. The result lands in `dest`, then `target`."""
        loff, boff = len(self.raw["locals"]), len(self.raw["blocks"])
        n = len(g_raw["blocks"])
        cont = boff + n
        self.raw["locals"] += list(g_raw["locals"])
        for v in g_raw.get("vars", []):
            self.raw["vars"].append(_remap(v, loff))
        for b in g_raw["blocks"]:
            nb = {"cleanup": b["cleanup"], "stmts": [_remap(st, loff) for st in b["stmts"]]}
            t = _remap(b["term"], loff)
            for key in ("target", "unwind", "otherwise"):
                if isinstance(t.get(key), int):
                    t[key] = t[key] + boff
            if "targets" in t:
                t["targets"] = [[v, tb + boff] for v, tb in t["targets"]]
            if t["k"] == "return":
                t = {"k": "goto", "target": cont, "loc": t["loc"]}
            elif t["k"] == "resume" and isinstance(unwind, int):
                t = {"k": "goto", "target": unwind, "loc": t["loc"]}
            nb["term"] = t
            self.raw["blocks"].append(nb)
        ret = {"l": loff, "p": [], "ty": g_raw["locals"][0]}
        kt = {"k": "goto", "target": target, "loc": loc} if isinstance(target, int) else {"k": "unreachable", "loc": loc}
        k = self.block([assign(dest, use_move(ret), loc)], kt)
        assert k == cont
        pre = [assign({"l": loff + i + 1, "p": [], "ty": g_raw["locals"][i + 1]}, {"k": "use", "a": a}, loc) for i, a in enumerate(arg_ops)]
        entry = self.block(pre, {"k": "goto", "target": boff, "loc": loc})
        return entry


def assign(place, rv, loc):
    return {"k": "assign", "place": place, "rv": rv, "loc": loc}


def use_move(pl):
    return {"k": "use", "a": {"move": pl}}


def use_copy(pl):
    return {"k": "use", "a": {"copy": pl}}


def agg(adt, variant, ops):
    return {"k": "agg", "agg": "adt", "adt": adt, "adt_local": False, "variant": variant, "fields": [str(i) for i in range(len(ops))], "ops": ops}


def const_bool(v):
    return {"const": {"ty": "bool", "dbg": "Val(Scalar(0x0%d), bool)" % (1 if v else 0), "int": 1 if v else 0}}


def payload(pl, variant="Some", vi=1, ty="?"):
    return {"l": pl["l"], "p": list(pl["p"]) + [{"variant": variant, "vi": vi}, {"f": "0", "i": 0, "ty": ty}], "ty": ty}


def place_of(op):
    return op.get("move") or op.get("copy")


STD = {
    # suffix of the callee path -> template name
    "option::Option::<T>::or_else": "or_else", "option::Option::<T>::unwrap_or_else": "unwrap_or_else", "option::Option::<T>::ok_or_else": "ok_or_else",
    "option::Option::<T>::map": "map", "option::Option::<T>::and_then": "and_then", "option::Option::<T>::filter": "filter",
    "bool::then": "then", "<impl bool>::then": "then",
    "result::Result::<T, E>::or_else": "r_or_else", "result::Result::<T, E>::unwrap_or_else": "r_unwrap_or_else", "result::Result::<T, E>::map": "r_map",
    "result::Result::<T, E>::map_err": "r_map_err", "result::Result::<T, E>::and_then": "r_and_then",
    "iterator::Iterator::any": "any", "iterator::Iterator::all": "all", "iterator::Iterator::find": "find", "iterator::Iterator::find_map": "find_map",
    "iterator::Iterator>::any": "any", "iterator::Iterator>::all": "all", "iterator::Iterator>::find": "find", "iterator::Iterator>::find_map": "find_map",
}


def function_value(F, fn_raw, crate, op):
    """What a function argument is: ('closure', Fn) | ('fn', callee json) | None."""
    c = facts.const_of(op)
    if c is not None and "fndef" in c:
        return ("fn", c["fndef"])
    pl = place_of(op)
    if pl is None or pl["p"]:
        return None
    defs = [st for b in fn_raw["blocks"] for st in b["stmts"] if st["place"]["l"] == pl["l"] and not st["place"]["p"]]
    calls = [b for b in fn_raw["blocks"] if b["term"]["k"] == "call" and b["term"]["dest"]["l"] == pl["l"] and not b["term"]["dest"]["p"]]
    if len(defs) != 1 or calls:
        return None
    rv = defs[0]["rv"]
    if rv["k"] == "agg" and rv.get("agg") == "closure":
        g = F.fns.get(rv["closure"]["id"])
        if g is not None and g.crate == crate:
            return ("closure", g)
    if rv["k"] == "use":
        return function_value(F, fn_raw, crate, rv["a"])
    if rv["k"] == "ref" and not rv["place"]["p"]:
        # `op(&a, &b)` on an `impl Fn` parameter is `Fn::call(&op, (..))`
        return function_value(F, fn_raw, crate, {"copy": rv["place"]})
    if rv["k"] == "cast" and str(rv.get("ck", "")).startswith("PointerCoercion(ReifyFnPointer"):
        # `f64::sin` handed over as a `fn(f64) -> f64`
        return function_value(F, fn_raw, crate, rv["a"])
    return None


def resolve_fn_pointers(F, B, crate):
    """`func(x)` on a `fn(..) -> ..` parameter of a helper that has been put into its caller: the pointer is a known function
    item now; the call is made a direct call of it (the analyses see `f64::sin`, as they did before the helper existed)."""
    n = 0
    for b in B.raw["blocks"]:
        t = b["term"]
        if t and t["k"] == "call" and "callee" not in t and t.get("indirect") is not None and not b["cleanup"]:
            fv = function_value(F, B.raw, crate, t["indirect"])
            if fv is not None and fv[0] == "fn":
                t2 = dict(t)
                t2["callee"] = fv[1]
                t2["was_indirect"] = True
                b["term"] = t2
                n += 1
    return n


def recursive(F, g):
    """Is g part of a cycle of the call graph (it can reach itself)?  Such a helper is not put back into its caller."""
    import cg
    cache = F.__dict__.setdefault("_recursive", {})
    if g.id not in cache:
        G = cg.get(F)
        seen, stack = set(), list(G.edges.get(g.id, ()))
        while stack:
            a = stack.pop()
            if a in seen:
                continue
            seen.add(a)
            stack.extend(G.edges.get(a, ()))
        cache[g.id] = g.id in seen
    return cache[g.id]


BUDGET = 2500      # blocks of one normalised function


def owned_by(F, g, fn, _stack):
    """Is g a private helper that belongs to fn (or to a function fn is being put into): all its callers lead to it?"""
    import cg
    import re
    chain = cg.get(F).owner_chain(g)
    names = {re.sub(r"(::\{closure#\d+\})+$", "", x.path) for x in [fn] + [F.fns[i] for i in _stack if i in F.fns]}
    return bool(set(chain) & names)


def normalise(F, fn, keep=(), depth=3, _stack=()):
    """See the module text.  Returns a facts.Fn (the same object when there is nothing to do)."""
    if "{closure" in fn.path and not _stack:
        return fn
    raw = fn.raw
    B = None
    rounds = 0
    changed_any = False
    cur = raw
    while rounds < 4:
        rounds += 1
        sites = []
        for bb, b in enumerate(cur["blocks"]):
            t = b["term"]
            if t is None or t["k"] != "call" or "callee" not in t or b["cleanup"]:
                continue
            c = t["callee"]
            p = c["path"]
            if any((p.endswith(k[:-1]) if k.endswith("$") else k in p) for k in keep):
                continue    # "name$": exactly this function; "text": every callee whose path contains it
            g = F.fns.get(c["id"])
            if c.get("local") and g is not None and g.crate == fn.crate and g.id != fn.id and g.id not in _stack and depth > 0 \
                    and not g.raw.get("public") and not g.raw.get("impl_trait") and "{closure" not in g.path \
                    and len(g.raw["blocks"]) <= 400 and len(t["args"]) == g.raw["arg_count"] and (not _stack or not recursive(F, g)) \
                    and ("owned-helpers-only" not in keep or owned_by(F, g, fn, _stack)):
                sites.append((bb, "helper", g))
                continue
            # `defined(x)` on a local closure: the call is resolved to the closure's own body (callee = the closure), with the
            # argument shape of Fn::call (closure, (args,))
            if c.get("local") and g is not None and "{closure" in g.path and g.crate == fn.crate and g.id != fn.id and g.id not in _stack \
                    and depth > 0 and len(t["args"]) == 2 and len(g.raw["blocks"]) <= 400:
                sites.append((bb, "closure-call", g))
                continue
            cs = c.get("closure_self")
            if cs and F.fns.get(cs["id"]) is not None and depth > 0 and cs["id"] not in _stack and p.endswith(("::call_once", "::call_mut", "::call")):
                sites.append((bb, "closure-call", F.fns[cs["id"]]))
                continue
            # `f(args)` on a function parameter of a helper that has been put into its caller: the closure is known now
            if p.endswith(("FnOnce::call_once", "FnMut::call_mut", "Fn::call")) and t["args"] and depth > 0:
                fv = function_value(F, cur, fn.crate, t["args"][0])
                if fv is not None and fv[0] == "closure" and fv[1].id not in _stack:
                    sites.append((bb, "closure-call", fv[1]))
                    continue
            for suf, name in STD.items():
                if p.endswith(suf):
                    sites.append((bb, name, None))
                    break
        if not sites:
            break
        if B is None:
            B = Builder(cur)
        done = 0
        for bb, kind, g in sites:
            if len(B.raw["blocks"]) > BUDGET:
                break
            blk = B.raw["blocks"][bb]
            t = blk["term"]
            loc = t["loc"]
            dest, target, unwind = t["dest"], t.get("target"), t.get("unwind")

            def body_of(g):
                gi = normalise(F, g, keep, depth - 1, _stack + (fn.id,))
                B.ids.append(g.id)
                B.ids += list(getattr(gi, "inlined_ids", ()))
                return gi.raw

            def call_fv(fv, args, dst, tgt):
                """Entry block of `dst = fv(args); goto tgt`."""
                if fv[0] == "closure":
                    return B.splice(body_of(fv[1]), [fv[2]] + args, dst, tgt, unwind, loc)
                return B.block([], {"k": "call", "callee": fv[1], "args": args, "dest": dst, "target": tgt, "unwind": unwind, "loc": loc, "fn_loc": loc})

            if kind == "helper":
                entry = B.splice(body_of(g), list(t["args"]), dest, target, unwind, loc)
            elif kind == "closure-call":
                # <closure as Fn*>::call*(closure, (args,)): the tuple is spread over the closure's parameters
                tup = place_of(t["args"][1]) if len(t["args"]) > 1 else None
                n = g.raw["arg_count"] - 1
                if n and tup is None:
                    continue
                params = [{"move": {"l": tup["l"], "p": list(tup["p"]) + [{"f": str(i), "i": i, "ty": g.raw["locals"][i + 2]}], "ty": g.raw["locals"][i + 2]}} for i in range(n)]
                entry = B.splice(body_of(g), [t["args"][0]] + params, dest, target, unwind, loc)
            else:
                args = t["args"]
                fi = {"or_else": 1, "unwrap_or_else": 1, "ok_or_else": 1, "map": 1, "and_then": 1, "filter": 1, "then": 1,
                      "any": 1, "all": 1, "find": 1, "find_map": 1,
                      "r_or_else": 1, "r_unwrap_or_else": 1, "r_map": 1, "r_map_err": 1, "r_and_then": 1}[kind]
                fv = function_value(F, B.raw, fn.crate, args[fi]) if len(args) > fi else None
                if fv is None or (fv[0] == "closure" and (depth <= 0 or fv[1].id in _stack)):
                    continue
                fv = fv + (args[fi],)
                x = place_of(args[0])
                if x is None:
                    continue
                go_t = {"k": "goto", "target": target, "loc": loc} if isinstance(target, int) else {"k": "unreachable", "loc": loc}
                none_b = lambda: B.block([assign(dest, agg("core::option::Option", "None", []), loc)], dict(go_t))
                if kind in ("or_else", "unwrap_or_else", "ok_or_else", "map", "and_then", "filter"):
                    d = B.local("isize")
                    if kind == "or_else":
                        some = B.block([assign(dest, use_move(x), loc)], dict(go_t))
                        none = call_fv(fv, [], dest, target)
                    elif kind == "unwrap_or_else":
                        some = B.block([assign(dest, use_move(payload(x)), loc)], dict(go_t))
                        none = call_fv(fv, [], dest, target)
                    elif kind == "ok_or_else":
                        some = B.block([assign(dest, agg("core::result::Result", "Ok", [{"move": payload(x)}]), loc)], dict(go_t))
                        e = B.local("?")
                        k2_ = B.block([assign(dest, agg("core::result::Result", "Err", [{"move": {"l": e, "p": [], "ty": "?"}}]), loc)], dict(go_t))
                        none = call_fv(fv, [], {"l": e, "p": [], "ty": "?"}, k2_)
                    elif kind == "map":
                        v = B.local("?")
                        k2_ = B.block([assign(dest, agg("core::option::Option", "Some", [{"move": {"l": v, "p": [], "ty": "?"}}]), loc)], dict(go_t))
                        some = call_fv(fv, [{"move": payload(x)}], {"l": v, "p": [], "ty": "?"}, k2_)
                        none = none_b()
                    elif kind == "and_then":
                        some = call_fv(fv, [{"move": payload(x)}], dest, target)
                        none = none_b()
                    else:   # filter
                        tb = B.local("bool")
                        r = B.local("?")
                        keep_b = B.block([assign(dest, use_move(x), loc)], dict(go_t))
                        drop_b = none_b()
                        sw = B.block([], {"k": "switch", "discr": {"move": {"l": tb, "p": [], "ty": "bool"}}, "dty": "bool", "targets": [[0, drop_b]], "otherwise": keep_b, "loc": loc})
                        pre = B.block([assign({"l": r, "p": [], "ty": "?"}, {"k": "ref", "mut": False, "bk": "Shared", "place": payload(x)}, loc)], None)
                        ent = call_fv(fv, [{"move": {"l": r, "p": [], "ty": "?"}}], {"l": tb, "p": [], "ty": "bool"}, sw)
                        B.raw["blocks"][pre]["term"] = {"k": "goto", "target": ent, "loc": loc}
                        some = pre
                        none = none_b()
                    unreach = B.block([], {"k": "unreachable", "loc": loc})
                    entry = B.block([assign({"l": d, "p": [], "ty": "isize"}, dict(OPT, k="discr", place=x), loc)],
                                    {"k": "switch", "discr": {"move": {"l": d, "p": [], "ty": "isize"}}, "dty": "isize", "targets": [[0, none], [1, some]], "otherwise": unreach, "loc": loc})
                elif kind.startswith("r_"):
                    # Result combinators: Ok is variant 0, Err is variant 1
                    RES = {"variants": [[0, "Ok"], [1, "Err"]], "enum": "core::result::Result"}
                    d = B.local("isize")
                    okp = payload(x, "Ok", 0)
                    erp = payload(x, "Err", 1)
                    ok_pass = lambda: B.block([assign(dest, agg("core::result::Result", "Ok", [{"move": okp}]), loc)], dict(go_t))
                    err_pass = lambda: B.block([assign(dest, agg("core::result::Result", "Err", [{"move": erp}]), loc)], dict(go_t))
                    if kind == "r_or_else":
                        okb = ok_pass()
                        erb = call_fv(fv, [{"move": erp}], dest, target)
                    elif kind == "r_unwrap_or_else":
                        okb = B.block([assign(dest, use_move(okp), loc)], dict(go_t))
                        erb = call_fv(fv, [{"move": erp}], dest, target)
                    elif kind == "r_and_then":
                        okb = call_fv(fv, [{"move": okp}], dest, target)
                        erb = err_pass()
                    elif kind == "r_map":
                        v = B.local("?")
                        k2_ = B.block([assign(dest, agg("core::result::Result", "Ok", [{"move": {"l": v, "p": [], "ty": "?"}}]), loc)], dict(go_t))
                        okb = call_fv(fv, [{"move": okp}], {"l": v, "p": [], "ty": "?"}, k2_)
                        erb = err_pass()
                    else:   # r_map_err
                        v = B.local("?")
                        k2_ = B.block([assign(dest, agg("core::result::Result", "Err", [{"move": {"l": v, "p": [], "ty": "?"}}]), loc)], dict(go_t))
                        erb = call_fv(fv, [{"move": erp}], {"l": v, "p": [], "ty": "?"}, k2_)
                        okb = ok_pass()
                    unreach = B.block([], {"k": "unreachable", "loc": loc})
                    entry = B.block([assign({"l": d, "p": [], "ty": "isize"}, dict(RES, k="discr", place=x), loc)],
                                    {"k": "switch", "discr": {"move": {"l": d, "p": [], "ty": "isize"}}, "dty": "isize", "targets": [[0, okb], [1, erb]], "otherwise": unreach, "loc": loc})
                elif kind == "then":
                    v = B.local("?")
                    k2_ = B.block([assign(dest, agg("core::option::Option", "Some", [{"move": {"l": v, "p": [], "ty": "?"}}]), loc)], dict(go_t))
                    yes = call_fv(fv, [], {"l": v, "p": [], "ty": "?"}, k2_)
                    no = none_b()
                    entry = B.block([], {"k": "switch", "discr": args[0], "dty": "bool", "targets": [[0, no]], "otherwise": yes, "loc": loc})
                else:
                    # a loop over the iterator: next(); None ends it, Some(item) runs the closure
                    nx = B.local("core::option::Option<?>")
                    d = B.local("isize")
                    nxp = {"l": nx, "p": [], "ty": "core::option::Option<?>"}
                    head = B.block([], None)
                    item = payload(nxp)
                    if kind in ("any", "all"):
                        tb = B.local("bool")
                        hit = B.block([assign(dest, {"k": "use", "a": const_bool(kind == "any")}, loc)], dict(go_t))
                        end = B.block([assign(dest, {"k": "use", "a": const_bool(kind != "any")}, loc)], dict(go_t))
                        sw = B.block([], {"k": "switch", "discr": {"move": {"l": tb, "p": [], "ty": "bool"}}, "dty": "bool",
                                          "targets": [[0, head if kind == "any" else hit]], "otherwise": hit if kind == "any" else head, "loc": loc})
                        body = call_fv(fv, [{"move": item}], {"l": tb, "p": [], "ty": "bool"}, sw)
                    elif kind == "find":
                        tb = B.local("bool")
                        r = B.local("?")
                        hit = B.block([assign(dest, agg("core::option::Option", "Some", [{"move": item}]), loc)], dict(go_t))
                        end = none_b()
                        sw = B.block([], {"k": "switch", "discr": {"move": {"l": tb, "p": [], "ty": "bool"}}, "dty": "bool", "targets": [[0, head]], "otherwise": hit, "loc": loc})
                        pre = B.block([assign({"l": r, "p": [], "ty": "?"}, {"k": "ref", "mut": False, "bk": "Shared", "place": item}, loc)], None)
                        ent = call_fv(fv, [{"move": {"l": r, "p": [], "ty": "?"}}], {"l": tb, "p": [], "ty": "bool"}, sw)
                        B.raw["blocks"][pre]["term"] = {"k": "goto", "target": ent, "loc": loc}
                        body = pre
                    else:   # find_map
                        c_ = B.local("core::option::Option<?>")
                        cp = {"l": c_, "p": [], "ty": "core::option::Option<?>"}
                        d2 = B.local("isize")
                        hit = B.block([assign(dest, use_move(cp), loc)], dict(go_t))
                        end = none_b()
                        unreach2 = B.block([], {"k": "unreachable", "loc": loc})
                        sw = B.block([assign({"l": d2, "p": [], "ty": "isize"}, dict(OPT, k="discr", place=cp), loc)],
                                     {"k": "switch", "discr": {"move": {"l": d2, "p": [], "ty": "isize"}}, "dty": "isize", "targets": [[0, head], [1, hit]], "otherwise": unreach2, "loc": loc})
                        body = call_fv(fv, [{"move": item}], cp, sw)
                    unreach = B.block([], {"k": "unreachable", "loc": loc})
                    test = B.block([assign({"l": d, "p": [], "ty": "isize"}, dict(OPT, k="discr", place=nxp), loc)],
                                   {"k": "switch", "discr": {"move": {"l": d, "p": [], "ty": "isize"}}, "dty": "isize", "targets": [[0, end], [1, body]], "otherwise": unreach, "loc": loc})
                    B.raw["blocks"][head]["term"] = {"k": "call", "callee": {"path": "<I as core::iter::traits::iterator::Iterator>::next", "id": "", "crate": "core", "local": False, "resolved": False,
                                                                                  "trait": "core::iter::traits::iterator::Iterator", "gargs": []},
                                                     "args": [args[0]], "dest": nxp, "target": test, "unwind": unwind, "loc": loc, "fn_loc": loc}
                    entry = head
            blk["term"] = {"k": "goto", "target": entry, "loc": loc}
            done += 1
        if not done:
            break
        changed_any = True
        cur = B.raw
    if not changed_any:
        return fn
    if not _stack:
        resolve_fn_pointers(F, B, fn.crate)
        fold_const_switch(B)
        thread_try(B)
        thread_bool(B)
        thread_variant(B)
    out = facts.Fn(B.raw, fn.crate)
    out.inlined_ids = tuple(B.ids)
    return out


CONTINUES = {"Ok": True, "Some": True, "Err": False, "None": False}


def thread_try(B):
    """`helper(..)?` with the helper's body in place: every place where the helper returned writes `R = Ok(..)` / `R = Err(..)` and
    jumps to the one block that calls `Try::branch(R)` and then switches on Continue / Break.  On the control-flow graph the Err
    write reaches the Continue side; it cannot, and the rules that ask "is this call only reachable when the helper's test
    passed" need to know.  Each known-variant write gets its own copy of the (value-preserving) blocks between the write and the
    switch, and the copy's switch is the jump the variant takes.  Nothing is removed: the call of `Try::branch` stays (access
    paths go through it), unknown-variant writers keep using the original blocks."""
    blocks = B.raw["blocks"]
    n0 = len(blocks)
    preds = {}
    for i, b in enumerate(blocks):
        t = b["term"]
        if t and t["k"] == "goto" and isinstance(t.get("target"), int):
            preds.setdefault(t["target"], []).append(i)

    def transparent(b, r):
        """only moves r on (`x = move r`), storage statements or nothing; returns the local the value is in afterwards, or None"""
        cur = r
        for st in b["stmts"]:
            if st.get("k") != "assign":
                continue
            rv = st["rv"]
            if rv.get("k") == "use" and place_of(rv["a"]) is not None and not place_of(rv["a"])["p"] and not st["place"]["p"]:
                if place_of(rv["a"])["l"] == cur:
                    cur = st["place"]["l"]
                    continue
            return None
        return cur
    done = 0
    for j in range(n0):
        bj = blocks[j]
        t = bj["term"]
        if not t or t["k"] != "call" or "callee" not in t or not t["callee"]["path"].endswith("Try>::branch") or bj["cleanup"]:
            continue
        a = place_of(t["args"][0]) if t["args"] else None
        tgt = t.get("target")
        if a is None or a["p"] or not isinstance(tgt, int) or tgt >= n0:
            continue
        bt = blocks[tgt]
        sw = bt["term"]
        if not sw or sw["k"] != "switch":
            continue
        d = place_of(sw["discr"])
        dstm = [st for st in bt["stmts"] if st.get("k") == "assign" and d is not None and st["place"]["l"] == d["l"] and st["rv"].get("k") == "discr"]
        if len(dstm) != 1 or dstm[0]["rv"]["place"]["l"] != t["dest"]["l"] or dstm[0]["rv"]["place"]["p"]:
            continue
        tmap = dict((v, tb) for v, tb in sw["targets"])
        if 0 not in tmap or 1 not in tmap:
            continue
        # statements of J before the call must not redefine the operand
        if any(st.get("k") == "assign" and st["place"]["l"] == a["l"] for st in bj["stmts"]):
            continue
        # walk back from J through transparent blocks to writers `R = Ok/Err/Some/None(..)`
        work = [(j, a["l"], [])]
        seen = set()
        while work:
            blk, r, chain = work.pop()
            for pidx in preds.get(blk, []):
                if (pidx, r) in seen or len(chain) > 3 or pidx >= n0:
                    continue
                seen.add((pidx, r))
                pb = blocks[pidx]
                # last write of r in the predecessor
                w = None
                cur = r
                ok = True
                for st in reversed(pb["stmts"]):
                    if st.get("k") != "assign" or st["place"]["l"] != cur:
                        continue
                    if st["place"]["p"]:
                        ok = False
                        break
                    rv = st["rv"]
                    if rv.get("k") == "agg" and rv.get("variant") in CONTINUES and str(rv.get("adt", "")).endswith(("result::Result", "option::Option")):
                        w = rv["variant"]
                        break
                    if rv.get("k") == "use" and place_of(rv["a"]) is not None and not place_of(rv["a"])["p"]:
                        cur = place_of(rv["a"])["l"]
                        continue
                    ok = False
                    break
                if not ok:
                    continue
                if w is None:
                    # nothing decisive here: the value comes from further back, if this block only passes it on
                    if cur is not None and all(st.get("k") != "assign" or (st["rv"].get("k") == "use" and not st["place"]["p"]) for st in pb["stmts"]):
                        work.append((pidx, cur, [pidx] + chain))
                    continue
                # specialise: copies of chain + J + T for this variant
                side = tmap[0] if CONTINUES[w] else tmap[1]
                t_new = B.block(list(bt["stmts"]), {"k": "goto", "target": side, "loc": sw["loc"]})
                jt = dict(t)
                jt["target"] = t_new
                nxt = B.block(list(bj["stmts"]), jt)
                for cidx in reversed(chain):
                    cb = blocks[cidx]
                    nxt = B.block(list(cb["stmts"]), {"k": "goto", "target": nxt, "loc": cb["term"]["loc"]})
                pt = dict(pb["term"])
                pt["target"] = nxt
                pb["term"] = pt
                done += 1
    return done


def thread_bool(B):
    """A bool helper that has been put in place (`fn is_zero(x) -> bool { a == 0 || a == 0.0 }`) materialises its answer: one
    return point writes the constant `true`, another the result of the second comparison, and the caller's `if` switches on the
    copy.  The write of a *constant* decides the switch: it gets its own copy of the (value-preserving) blocks in between, ending
    in the jump that constant takes, so that "reachable only when the first comparison failed" is visible again.  Nothing is
    removed; writers of unknown values keep using the original blocks."""
    blocks = B.raw["blocks"]
    n0 = len(blocks)
    preds = {}
    for i, b in enumerate(blocks):
        t = b["term"]
        if t and t["k"] == "goto" and isinstance(t.get("target"), int):
            preds.setdefault(t["target"], []).append(i)
    done = 0
    for sidx in range(n0):
        sb = blocks[sidx]
        sw = sb["term"]
        if not sw or sw["k"] != "switch" or sb["cleanup"] or sw.get("dty") != "bool":
            continue
        d = place_of(sw["discr"])
        if d is None or d["p"]:
            continue
        # the switched local inside S: follow copies within S back to the local live at entry
        cur = d["l"]
        ok = True
        for st in reversed(sb["stmts"]):
            if st.get("k") == "assign" and st["place"]["l"] == cur:
                rv = st["rv"]
                if not st["place"]["p"] and rv.get("k") == "use" and place_of(rv["a"]) is not None and not place_of(rv["a"])["p"]:
                    cur = place_of(rv["a"])["l"]
                else:
                    ok = False
                    break
        if not ok:
            continue
        tmap = dict((v, tb) for v, tb in sw["targets"])
        work = [(sidx, cur, [])]
        seen = set()
        while work:
            blk, r, chain = work.pop()
            for pidx in preds.get(blk, []):
                if (pidx, r) in seen or len(chain) > 3 or pidx >= n0:
                    continue
                seen.add((pidx, r))
                pb = blocks[pidx]
                cur2 = r
                val = None
                ok2 = True
                for st in reversed(pb["stmts"]):
                    if st.get("k") != "assign" or st["place"]["l"] != cur2:
                        continue
                    if st["place"]["p"]:
                        ok2 = False
                        break
                    rv = st["rv"]
                    c = rv["a"].get("const") if rv.get("k") == "use" and isinstance(rv.get("a"), dict) else None
                    if c is not None and c.get("ty") == "bool" and "int" in c:
                        val = 1 if c["int"] else 0
                        break
                    if rv.get("k") == "use" and place_of(rv["a"]) is not None and not place_of(rv["a"])["p"]:
                        cur2 = place_of(rv["a"])["l"]
                        continue
                    ok2 = False
                    break
                if not ok2:
                    continue
                if val is None:
                    if all(st.get("k") != "assign" or (st["rv"].get("k") == "use" and not st["place"]["p"]) for st in pb["stmts"]):
                        work.append((pidx, cur2, [pidx] + chain))
                    continue
                side = tmap.get(val, sw.get("otherwise"))
                if not isinstance(side, int):
                    continue
                nxt = B.block(list(sb["stmts"]), {"k": "goto", "target": side, "loc": sw["loc"]})
                for cidx in reversed(chain):
                    cb = blocks[cidx]
                    nxt = B.block(list(cb["stmts"]), {"k": "goto", "target": nxt, "loc": cb["term"]["loc"]})
                pt = dict(pb["term"])
                pt["target"] = nxt
                pb["term"] = pt
                done += 1
    return done


def thread_variant(B):
    """The same for a plain `match` / `if let` on a value a combinator put in place has just built: `xs.iter().find(p)` as a loop
    writes `R = Some(x)` where the predicate held and `R = None` when the items ran out, and the caller's `if let Some(other) = R`
    switches on R's discriminant.  Each write of a known variant gets its own copy of the (value-preserving) blocks up to that
    switch, ending in the jump the variant takes."""
    blocks = B.raw["blocks"]
    n0 = len(blocks)
    preds = {}
    for i, b in enumerate(blocks):
        t = b["term"]
        if t and t["k"] == "goto" and isinstance(t.get("target"), int):
            preds.setdefault(t["target"], []).append(i)
    done = 0
    for sidx in range(n0):
        sb = blocks[sidx]
        sw = sb["term"]
        if not sw or sw["k"] != "switch" or sb["cleanup"]:
            continue
        d = place_of(sw["discr"])
        if d is None or d["p"]:
            continue
        dst = [st for st in sb["stmts"] if st.get("k") == "assign" and st["place"]["l"] == d["l"] and st["rv"].get("k") == "discr"]
        if len(dst) != 1 or dst[0]["rv"]["place"]["p"] or not dst[0]["rv"].get("variants"):
            continue
        r0 = dst[0]["rv"]["place"]["l"]
        if any(st.get("k") == "assign" and st["place"]["l"] == r0 for st in sb["stmts"]):
            continue
        val_of = {name: v for v, name in dst[0]["rv"]["variants"]}
        tmap = dict((v, tb) for v, tb in sw["targets"])
        work = [(sidx, r0, [])]
        seen = set()
        while work:
            blk, r, chain = work.pop()
            for pidx in preds.get(blk, []):
                if (pidx, r) in seen or len(chain) > 3 or pidx >= n0:
                    continue
                seen.add((pidx, r))
                pb = blocks[pidx]
                cur = r
                var = None
                ok = True
                for st in reversed(pb["stmts"]):
                    if st.get("k") != "assign" or st["place"]["l"] != cur:
                        continue
                    if st["place"]["p"]:
                        ok = False
                        break
                    rv = st["rv"]
                    if rv.get("k") == "agg" and rv.get("agg") == "adt" and rv.get("variant") in val_of:
                        var = rv["variant"]
                        break
                    cst = rv["a"].get("const") if rv.get("k") == "use" and isinstance(rv.get("a"), dict) else None
                    if cst is not None and "int" in cst and cst["int"] in val_of.values():
                        # a field-less enum value written as a constant (`Direction::Later` handed to a helper)
                        var = next(n_ for n_, v_ in val_of.items() if v_ == cst["int"])
                        break
                    if rv.get("k") == "use" and place_of(rv["a"]) is not None and not place_of(rv["a"])["p"]:
                        cur = place_of(rv["a"])["l"]
                        continue
                    ok = False
                    break
                if not ok:
                    continue
                if var is None:
                    if all(st.get("k") != "assign" or (st["rv"].get("k") == "use" and not st["place"]["p"]) for st in pb["stmts"]):
                        work.append((pidx, cur, [pidx] + chain))
                    continue
                side = tmap.get(val_of[var], sw.get("otherwise"))
                if not isinstance(side, int):
                    continue
                nxt = B.block(list(sb["stmts"]), {"k": "goto", "target": side, "loc": sw["loc"]})
                for cidx in reversed(chain):
                    cb = blocks[cidx]
                    nxt = B.block(list(cb["stmts"]), {"k": "goto", "target": nxt, "loc": cb["term"]["loc"]})
                pt = dict(pb["term"])
                pt["target"] = nxt
                pb["term"] = pt
                done += 1
    return done


def fold_const_switch(B):
    """A helper that is told what to do by a field-less enum (or bool) argument - `shift(date, amount, Direction::Later)` - and has
    been put in place: the parameter is a local with one definition, a constant.  The `match direction` on it has one live arm;
    the switch becomes the jump to it (the other arm stays in the body, unreachable)."""
    blocks = B.raw["blocks"]
    defs = {}
    for b in blocks:
        for st in b["stmts"]:
            if st.get("k") == "assign":
                defs.setdefault(st["place"]["l"], []).append(st if not st["place"]["p"] else None)
        t = b["term"]
        if t and t["k"] == "call" and t.get("dest"):
            defs.setdefault(t["dest"]["l"], []).append(None)
    nargs = B.raw.get("arg_count", 0)
    # a local that is ever borrowed mutably (or whose address is taken) can change without an assignment to it
    shared = set()
    for b in blocks:
        for st in b["stmts"]:
            rv = st.get("rv") or {}
            if st.get("k") == "assign" and rv.get("k") in ("ref", "rawptr") and (rv.get("mut") or rv.get("k") == "rawptr"):
                shared.add(rv["place"]["l"])

    def const_of_local(l, depth=0, variants=None):
        ds = defs.get(l, [])
        if len(ds) != 1 or ds[0] is None or depth > 6 or 1 <= l <= nargs or l in shared:
            return None
        rv = ds[0]["rv"]
        if rv.get("k") == "agg" and rv.get("agg") == "adt" and not rv.get("ops") and variants and rv.get("variant") in variants:
            return variants[rv["variant"]]          # a field-less variant written out (`Direction::Later`)
        if rv.get("k") != "use":
            return None
        c = rv["a"].get("const") if isinstance(rv["a"], dict) else None
        if c is not None:
            return c.get("int") if "int" in c else None
        pl = place_of(rv["a"])
        if pl is None or pl["p"]:
            return None
        return const_of_local(pl["l"], depth + 1, variants)
    n = 0
    for b in blocks:
        sw = b["term"]
        if not sw or sw["k"] != "switch" or b["cleanup"]:
            continue
        d = place_of(sw["discr"])
        if d is None or d["p"]:
            continue
        val = None
        dst = [st for st in b["stmts"] if st.get("k") == "assign" and st["place"]["l"] == d["l"]]
        if len(dst) == 1 and dst[0]["rv"].get("k") == "discr" and not dst[0]["rv"]["place"]["p"]:
            val = const_of_local(dst[0]["rv"]["place"]["l"], 0, {name: v for v, name in (dst[0]["rv"].get("variants") or [])})
        elif not dst and sw.get("dty") == "bool":
            val = const_of_local(d["l"])
        if val is None:
            continue
        tmap = dict((v, tb) for v, tb in sw["targets"])
        side = tmap.get(val, sw.get("otherwise"))
        if isinstance(side, int):
            b["term"] = {"k": "goto", "target": side, "loc": sw["loc"], "was_switch": True}
            n += 1
    return n
