"""No silent wrap or truncation (C01 clause d; the date-field part belongs to C14).

Inventory, from the MIR of every hand-written function of the listed source files:
  * `as` casts between integer types that can change the value (narrowing, or signed<->unsigned of the same or larger
    width), and float->int casts, whose operand is not a constant;
  * machine-integer shifts whose shift amount is not a constant (a shift silently drops bits / reaches the sign bit);
  * calls of wrapping_*/overflowing_*/unchecked_* integer methods.
Every site must be discharged by a value-range argument the checker can re-evaluate, or by a line of
tables/cast_justified.json (function, what, count, reason, optional backing predicate re-verified on every run).
A site that is neither is a finding: "unjustified narrowing cast / machine shift".
"""
import json
import os
import re

import facts
import k1
from facts import ap_str, const_of

CORE = "rink_core"
BITS = {"i8": 8, "u8": 8, "i16": 16, "u16": 16, "i32": 32, "u32": 32, "i64": 64, "u64": 64, "isize": 64, "usize": 64, "i128": 128, "u128": 128}

SCOPES = {
    "C01": ("core/src/types/", "core/src/parsing/text_query.rs", "core/src/parsing/formula.rs", "core/src/loader/load.rs",
            "core/src/runtime/eval.rs", "core/src/runtime/value.rs", "core/src/runtime/substance.rs", "core/src/output/number_parts.rs",
            "core/src/algorithms/"),
    "C14": ("core/src/parsing/datetime.rs", "core/src/output/reply.rs", "core/src/ast/"),
}


def rng(t):
    b = BITS[t]
    return (-(1 << (b - 1)), (1 << (b - 1)) - 1) if t[0] == "i" else (0, (1 << b) - 1)


def lossy(a, b):
    if a not in BITS or b not in BITS:
        return False
    la, ha = rng(a)
    lb, hb = rng(b)
    return la < lb or ha > hb


# value ranges of library calls (reviewed: chrono's documented ranges; Rust's guarantees)
CALL_RANGES = [
    (r"Datelike>::month$", (1, 12)), (r"Datelike>::day$", (1, 31)), (r"Timelike>::hour$", (0, 23)),
    (r"Timelike>::minute$", (0, 59)), (r"Timelike>::second$", (0, 59)), (r"Timelike>::nanosecond$", (0, 1999999999)),
    (r"::unsigned_abs$", None),     # type-level: result type is unsigned of the same width (handled by the cast types)
]


def value_range(fn, ap, depth=0):
    """Conservative [lo, hi] of an access path, or None."""
    root, projs = ap
    k = root[0]
    if k == "const" and isinstance(root[1], int) and not projs:
        return (root[1], root[1])
    if k == "discr" and not projs:
        # the discriminant of an enum: its declared values (from the MIR statement that reads it)
        for i, j, st in fn.stmts():
            rv = st.get("rv", {})
            if rv.get("k") == "discr" and rv.get("variants") and fn.apath_place(rv["place"]) == root[1]:
                vals = [v[0] for v in rv["variants"] if isinstance(v[0], int)]
                if vals and len(vals) == len(rv["variants"]):
                    return (min(vals), max(vals))
        return None
    if k == "cast" and not projs:
        inner = value_range(fn, root[2], depth + 1)
        frm = None
        # a widening cast keeps the range of its operand's type
        return inner
    if k == "binop" and not projs:
        op = root[1]
        a = value_range(fn, root[2], depth + 1)
        b = value_range(fn, root[3], depth + 1)
        if op == "Rem" and b and b[0] == b[1] and b[0] > 0:
            m = b[0]
            if a and a[0] >= 0:
                return (0, m - 1)
            return (-(m - 1), m - 1)
        if op == "Div" and a and b and b[0] == b[1] and b[0] > 0:
            return (a[0] // b[0] if a[0] >= 0 else -((-a[0]) // b[0]), a[1] // b[0])
        if op == "BitAnd" and b and b[0] == b[1] and b[0] >= 0:
            return (0, b[0])
        if op in ("Add", "AddWithOverflow", "AddUnchecked") and a and b:
            return (a[0] + b[0], a[1] + b[1])
        if op in ("Sub", "SubWithOverflow", "SubUnchecked") and a and b:
            return (a[0] - b[1], a[1] - b[0])
        return None
    if k == "binop" and projs == ("0",) and root[1].endswith("WithOverflow"):
        # the value half of a checked operation (the overflow half is asserted false)
        return value_range(fn, (root, ()), depth + 1)
    if k == "call":
        name = root[1]
        if projs in ((), ("as Some", "0"), ("as Ok", "0")):
            for pat, r in CALL_RANGES:
                if r and re.search(pat, name) and not projs:
                    return r
            if re.search(r"Ord>::min$|::min$", name) and len(root[2]) == 2 and not projs:
                rs = [value_range(fn, x, depth + 1) for x in root[2]]
                his = [r[1] for r in rs if r]
                los = [r[0] for r in rs if r]
                if his:
                    return (min(los) if len(los) == 2 else -(1 << 127), min(his))
            if re.search(r"Ord>::max$|::max$", name) and len(root[2]) == 2 and not projs:
                return None
            # parse_range(s, digits, lo..=hi) -> Some(v) with lo <= v <= hi
            if name.endswith("parsing::datetime::parse_range") and projs == ("as Some", "0"):
                s = ap_str(root[2][2]) if len(root[2]) >= 3 else ""
                m = re.search(r"RangeInclusive::<Idx>::new\((-?\d+), (-?\d+)\)", s)
                if m:
                    return (int(m.group(1)), int(m.group(2)))
                if "promoted" in s and facts.CURRENT is not None and isinstance(root[3], int):
                    r2 = k1.hir_range_arg(facts.CURRENT, fn, root[3])      # `&(lo..=hi)`: a promoted constant, read from the HIR
                    if r2:
                        return r2
    return None


def load_table():
    p = os.path.join(facts.VERIF, "tables", "cast_justified.json")
    return json.load(open(p))["entries"]


class Site:
    def __init__(self, fn, bb, j, what, ap, detail):
        self.fn, self.bb, self.j, self.what, self.ap, self.detail = fn, bb, j, what, ap, detail


def inventory(F, prefixes):
    out = []
    for fn in F.by_crate[CORE]:
        if not fn.file.startswith(prefixes):
            continue
        if k1.is_generated(fn, fn.loc) or fn.raw.get("from_expansion"):
            continue
        for i, j, st in fn.stmts():
            if fn.blocks[i]["cleanup"] or st["k"] != "assign":
                continue
            loc = st.get("loc", {})
            if "Derive" in str(loc.get("exp", "")) or "Derive" in " ".join(loc.get("expchain", [])):
                continue
            rv = st["rv"]
            if rv.get("k") == "cast" and rv.get("ck") in ("IntToInt", "FloatToInt"):
                if rv["ck"] == "IntToInt" and not lossy(rv.get("from"), rv.get("to")):
                    continue
                if const_of(rv["a"]):
                    continue
                out.append(Site(fn, i, j, "cast:%s->%s" % (rv.get("from"), rv.get("to")), fn.apath(rv["a"]), rv))
            elif rv.get("k") in ("binop", "checked_binop") and rv.get("op") in ("Shl", "Shr", "ShlUnchecked", "ShrUnchecked") and not const_of(rv["b"]):
                out.append(Site(fn, i, j, "shift:%s" % rv.get("aty", "?"), fn.apath(rv["b"]), rv))
        for bb, t in fn.calls():
            if fn.blocks[bb]["cleanup"] or "callee" not in t:
                continue
            last = t["callee"]["path"].split("::")[-1]
            if t["callee"]["path"].startswith("core::num::") and last.startswith(("wrapping_", "overflowing_", "unchecked_")):
                out.append(Site(fn, bb, None, "call:" + last, None, t))
    return out


def discharge(s):
    """Range argument: the operand's value range fits the target type."""
    if not s.what.startswith("cast:") or s.detail.get("ck") != "IntToInt":
        return None
    to = s.detail["to"]
    frm = s.detail["from"]
    r = value_range(s.fn, s.ap)
    lo, hi = rng(to)
    if r:
        flo0, fhi0 = rng(frm)
        r = (max(r[0], flo0), min(r[1], fhi0))
    if r and lo <= r[0] and r[1] <= hi:
        return "operand range [%d, %d] fits %s" % (r[0], r[1], to)
    # same-block guard idiom: dominated by comparisons of the same value against constants
    los, his = [], []
    txt = ap_str(s.ap)
    for g in s.fn.guards_of(s.bb):
        d = s.fn.guard_desc(g)
        if d[0] != "bool":
            continue
        rt = d[1][0]
        if rt[0] == "binop" and not d[1][1] and rt[1] in ("Lt", "Le", "Gt", "Ge") and ap_str(rt[2]) == txt and rt[3][0][0] == "const":
            c = rt[3][0][1]
            op, truth = rt[1], d[2]
            if not isinstance(c, int):
                continue
            if (op, truth) in (("Lt", True), ("Ge", False)):
                his.append(c - 1)
            elif (op, truth) in (("Le", True), ("Gt", False)):
                his.append(c)
            elif (op, truth) in (("Ge", True), ("Lt", False)):
                los.append(c)
            elif (op, truth) in (("Gt", True), ("Le", False)):
                los.append(c + 1)
    flo, fhi = rng(frm)
    glo = max(los) if los else flo
    ghi = min(his) if his else fhi
    if lo <= glo and ghi <= hi:
        return "dominating comparisons bound the operand to [%d, %d]" % (glo, ghi)
    return None


# ---- backing predicates --------------------------------------------------------------------------------------

def _b_magnitude(F, s, e):
    """The strict magnitude gate |x| < 2^31 dominates the cast, and what is cast is |x| itself: the gate says nothing about
    the sign, `x as u32` of a negative shift count is 2^32 - |x| (`1 << -1` tried to compute 2^4294967295)."""
    r = s.ap[0]
    is_abs = r[0] == "call" and r[1].endswith(("::abs", "::unsigned_abs")) and not s.ap[1]
    if not is_abs and s.detail.get("from", "").startswith("i") and s.detail.get("to", "").startswith("u"):
        return False, "the operand of the signed-to-unsigned cast is %s, not an absolute value" % ap_str(s.ap)[:80]
    return k1._magnitude_gate(F, k1.Site(s.fn, s.bb, "call", "cast", s.fn.blocks[s.bb]["term"], False), e)


def _b_pattern_range(F, s, e):
    """The cast operand is bound by a range pattern `v @ lo..=hi` that fits: its block is reached only through
    comparisons of the scrutinee with constants inside the target range."""
    lo, hi = rng(s.detail["to"])
    txt = ap_str(s.ap)
    los, his = [], []
    for g in s.fn.guards_of(s.bb):
        d = s.fn.guard_desc(g)
        if d[0] != "bool":
            continue
        rt = d[1][0]
        if rt[0] == "binop" and rt[1] in ("Le", "Ge", "Lt", "Gt") and not d[1][1]:
            a, b = rt[2], rt[3]
            # `lo <= v` is Le(const, v); `v <= hi` is Le(v, const)
            if a[0][0] == "const" and ap_str(b) == txt and d[2] is True and rt[1] == "Le":
                los.append(a[0][1])
            if b[0][0] == "const" and ap_str(a) == txt and d[2] is True and rt[1] == "Le":
                his.append(b[0][1])
    ok = bool(los) and bool(his) and lo <= max(los) and min(his) <= hi
    return ok, ("behind the range pattern %s..=%s" % (max(los), min(his)) if ok else "no dominating range pattern on the cast operand")


def _b_closure_of_numeric_match(F, s, e):
    """parse_date closures `|v| .. v as u32`: the closure is handed to `.and_then` of `numeric_match(.., lo..=hi)` whose
    range is a non-negative constant range."""
    fn = s.fn
    parent = [f for f in F.by_crate[CORE] if f.path == fn.path.rsplit("::{closure", 1)[0]]
    if len(parent) != 1:
        return False, "parent function not found"
    p = parent[0]
    for bb, t in p.calls():
        if "callee" not in t:
            continue
        args = [ap_str(p.apath(a)) for a in t["args"]]
        if any(("closure:" + fn.path) in a for a in args):
            recv = args[0]
            m = re.search(r"numeric_match\(.*RangeInclusive::<Idx>::new\((-?\d+), (-?\d+)\)", recv)
            if t["callee"]["path"].endswith("and_then") and m and int(m.group(1)) >= 0:
                return True, "closure of numeric_match(.., %s..=%s).and_then" % (m.group(1), m.group(2))
            if t["callee"]["path"].endswith("and_then") and "numeric_match(" in recv and "promoted" in recv:
                # the range is handed over by reference (`&(lo..=hi)`, a promoted constant): read it from the HIR
                rap = p.apath(t["args"][0])
                cur = rap
                for _ in range(6):
                    if cur[0][0] == "call" and cur[0][1].endswith("numeric_match"):
                        r2 = k1.hir_range_arg(F, p, cur[0][3])
                        if r2 and r2[0] >= 0:
                            return True, "closure of numeric_match(.., &(%s..=%s)).and_then" % r2
                        break
                    if cur[0][0] == "call" and cur[0][2]:
                        cur = cur[0][2][0]
                    else:
                        break
            return False, "closure is used as %s on %s" % (t["callee"]["path"].split("::")[-1], recv[:80])
    return False, "closure use not found"


BACKING = {"magnitude_gate": _b_magnitude, "pattern_range": _b_pattern_range, "closure_of_numeric_match": _b_closure_of_numeric_match}


def run(chk, F, scope, rule="no-silent-wrap"):
    table = load_table()
    sites = inventory(F, SCOPES[scope])
    used = {}
    per = {}
    TI = k1.TableIndex(F, table)
    ents = {}
    for s in sites:
        # the table line of this site: written for this function, the same function modulo closures, or a function this one
        # is a private single-caller helper of; sites that share a line are counted against its quota together
        ls = TI.lines(s.fn, s.what)
        key = (k1.normfn(ls[0]["fn"]) if ls else k1.normfn(s.fn.path), s.what)
        ents[key] = ls[:1]
        per.setdefault(key, []).append(s)
    for (fnp, what), ss in sorted(per.items(), key=lambda kv: kv[0]):
        ent = ents[(fnp, what)]
        for n, s in enumerate(ss):
            fk = "rink_core::" + fnp
            where = s.fn.where(s.bb, s.j) if s.j is not None else s.fn.where(s.bb)
            d = discharge(s)
            if d:
                chk.ok(rule, fk, what, where, d)
                continue
            if ent and n < ent[0]["n"] + sum(1 for x in ss[:n] if discharge(x)):
                e = ent[0]
                b = e.get("backing")
                if b:
                    try:
                        ok, why = BACKING[b](F, s, e)
                    except (KeyError, IndexError, TypeError, facts.AnchorLost) as ex:
                        ok, why = False, "backing %s could not be evaluated: %r" % (b, ex)
                    chk.decide(ok, rule, fk, what, where, "%s [%s]" % (e["reason"], why),
                               "the justification `%s` no longer holds: %s" % (e["reason"][:100], why))
                else:
                    chk.ok(rule, fk, what, where, "justified: " + e["reason"])
                used[(fnp, what)] = True
                continue
            opnd = ap_str(s.ap)[:100] if s.ap is not None else ""
            chk.finding(rule, fk, what, where,
                        "unjustified %s of `%s`: the value can silently wrap, truncate or lose its sign here (no range argument, no table line)" % (
                            {"cast": "narrowing cast", "shift": "machine-integer shift by a variable amount", "call": "wrapping integer operation"}[what.split(":")[0]], opnd))
    chk.extra.setdefault("cast_audit", {})[scope] = {"sites": len(sites), "functions": len(set(s.fn.path for s in sites))}
