"""Whole-workspace call graph over the MIR facts (DESIGN K1 'Call graph')."""
from facts import const_of


def norm(path):
    """Type/def paths are printed without the crate name inside their own crate."""
    return path.replace("rink_core::", "").replace("rink_sandbox::", "")


# workspace dependency relation (who can name whose impls)
DEPS = {"rink_core": (), "rink_sandbox": (), "rink": ("rink_core", "rink_sandbox"), "rink_irc": ("rink_core", "rink_sandbox"),
        "rink_js": ("rink_core",)}


class CallGraph:
    def __init__(self, F):
        self.F = F
        self.edges = {}      # fn id -> set of fn ids
        self.why = {}        # (from, to) -> (kind, bb)
        self.ext = {}        # fn id -> list of (bb, callee json) external call sites
        self.impls = {}      # (trait path normalised, method name) -> [fn]
        for fn in F.fns.values():
            tr = fn.raw.get("impl_trait")
            if tr and fn.raw.get("name"):
                self.impls.setdefault((norm(tr), fn.raw["name"]), []).append(fn)
        # with what types is a private generic function used?  {fn id: set of type strings} when every call of it names concrete
        # types (no type parameter of the caller, no `impl Trait`); absent = unknown
        self.inst = {}
        calls_of = {}
        for fn in F.fns.values():
            for b in fn.blocks:
                t = b["term"]
                if t and t["k"] == "call" and "callee" in t and t["callee"].get("local") and t["callee"].get("gargs"):
                    calls_of.setdefault(t["callee"]["id"], []).append(t["callee"]["gargs"])
        import re as _re

        def concrete(g):
            return not _re.fullmatch(r"[A-Z][A-Za-z0-9]{0,2}", g.strip()) and "impl " not in g and "{closure" not in g and "dyn " not in g
        for gid, lists in calls_of.items():
            g = F.fns.get(gid)
            if g is None or g.raw.get("public") or g.raw.get("impl_trait") or "{closure" in g.path:
                continue
            if all(concrete(x) for l in lists for x in l):
                self.inst[gid] = {self._bare(x) for l in lists for x in l}
        for fn in F.fns.values():
            self._scan(fn)

    @staticmethod
    def _bare(ty):
        """a type without references, lifetimes and generic arguments: `&'a runtime::substance::Substance` -> `runtime::substance::Substance`"""
        import re as _re
        ty = _re.sub(r"&('[a-z_]+ )?(mut )?", "", ty.strip())
        return _re.sub(r"<.*$", "", ty)

    def _add(self, a, b, kind, bb):
        if b in self.F.fns:
            self.edges.setdefault(a, set()).add(b)
            self.why.setdefault((a, b), (kind, bb))

    def _callee(self, fn, bb, c, kind="call"):
        F = self.F
        cid = c["id"]
        if cid in F.fns:
            self._add(fn.id, cid, kind, bb)
        else:
            virtual = c.get("shim", "").startswith("Virtual")
            if (not c.get("resolved") or virtual) and c.get("trait"):
                # class-hierarchy analysis over the workspace impls of that trait method
                name = c["path"].split("::")[-1]
                # inside a private generic function (or a closure of one) a call on a type parameter can only reach the impls for
                # the types that function is used with, when all its uses are known and concrete
                root = (fn.raw.get("root") or {}).get("id", fn.id)
                only = self.inst.get(root)
                on_param = bool(c.get("gargs")) and all(len(x.strip()) <= 3 and x.strip()[:1].isupper() for x in c["gargs"][:1])
                for g in self.impls.get((norm(c["trait"]), name), []):
                    if g.crate == fn.crate or g.crate in DEPS.get(fn.crate, ()):
                        if only is not None and on_param and self._bare(str(g.raw.get("impl_self", "?"))) not in only:
                            continue
                        self._add(fn.id, g.id, "cha", bb)
            if c.get("decl_id") in F.fns:
                # default method body of a local trait
                self._add(fn.id, c["decl_id"], kind, bb)
            if not c.get("local"):
                self.ext.setdefault(fn.id, []).append((bb, c))
        cs = c.get("closure_self")
        if cs:
            self._add(fn.id, cs["id"], "closure-call", bb)
        for l in c.get("links", []):
            t = l["target"]
            self._add(fn.id, t["id"], "link:" + l["via"], bb)
            # a linked fn item may itself be external with further links
            if t["id"] not in F.fns and t.get("links"):
                self._callee(fn, bb, t, "link")
            elif t["id"] not in F.fns and "resolved" in t and not t.get("local"):
                self.ext.setdefault(fn.id, []).append((bb, t))

    def _operands(self, fn, bb, ops):
        for o in ops:
            c = const_of(o)
            if c and "fndef" in c:
                self._callee(fn, bb, c["fndef"], "fn-value")

    def _scan(self, fn):
        for bb, b in enumerate(fn.blocks):
            for st in b["stmts"]:
                if st["k"] != "assign":
                    continue
                rv = st["rv"]
                if rv["k"] == "agg":
                    if rv["agg"] == "closure":
                        self._add(fn.id, rv["closure"]["id"], "closure-created", bb)
                    self._operands(fn, bb, rv["ops"])
                elif "a" in rv:
                    self._operands(fn, bb, [rv["a"]] + ([rv["b"]] if "b" in rv else []))
            t = b["term"]
            if t["k"] == "call":
                if "callee" in t:
                    self._callee(fn, bb, t["callee"])
                self._operands(fn, bb, t["args"])

    def reachable(self, roots, stop=()):
        """ids reachable from root fns; returns {id: parent id} (roots map to None)."""
        stop = set(stop)
        parent = {}
        stack = []
        for r in roots:
            if r.id not in parent:
                parent[r.id] = None
                stack.append(r.id)
        while stack:
            a = stack.pop()
            if a in stop:
                continue
            for b in sorted(self.edges.get(a, ())):
                if b not in parent:
                    parent[b] = a
                    stack.append(b)
        return parent

    def callers(self, fid):
        if not hasattr(self, "_rev"):
            self._rev = {}
            for a, bs in self.edges.items():
                for b in bs:
                    self._rev.setdefault(b, set()).add(a)
        return self._rev.get(fid, set())

    def owner_chain(self, fn, depth=4):
        """The functions whose code `fn` is, nearest first: a closure is its parent's code, and a private helper all of whose
        callers belong to one function is that function's code ("extract function" moves code down this chain).  Paths are
        printed without closure ordinals."""
        import re
        strip = lambda p: re.sub(r"(::\{closure#\d+\})+$", "", p)
        base = strip(fn.path)
        out = [base]
        while depth > 0:
            depth -= 1
            top = [g for g in self.F.by_crate[fn.crate] if g.path == out[-1]]
            if len(top) != 1:
                break
            g = top[0]
            if g.raw.get("public") or g.raw.get("impl_trait"):
                break
            owners = set()
            for c in self.callers(g.id):
                cf = self.F.fns[c]
                cb = strip(cf.path)
                if cb == g.path:
                    continue    # recursion / its own closures
                owners.add(cb if cf.crate == fn.crate else cf.crate + "::" + cb)
            if len(owners) != 1:
                break
            nxt = owners.pop()
            if nxt in out:
                break
            out.append(nxt)
        return out

    def path_to(self, parent, fid):
        out = []
        while fid is not None:
            fn = self.F.fns[fid]
            out.append("%s::%s" % (fn.crate, fn.path))
            fid = parent.get(fid)
        return list(reversed(out))


_cache = {}


def get(F):
    if id(F) not in _cache:
        _cache[id(F)] = CallGraph(F)
    return _cache[id(F)]


# --- K3 who-may-write ---------------------------------------------------------------------

def field_writes(F, owner_suffix, fields=None):
    """All writes (assignments and &mut borrows, incl. two-phase) through a field of the ADT
    whose path ends with `owner_suffix`.  Yields (fn, bb, stmt_index_or_None, field, how)."""
    def hit(pl):
        for p in pl["p"]:
            if isinstance(p, dict) and "f" in p and p.get("of"):
                o = norm(p["of"])
                if (o == owner_suffix or o.endswith("::" + owner_suffix)) and (fields is None or p["f"] in fields):
                    return p["f"]
        return None

    for fn in F.fns.values():
        for i, b in enumerate(fn.blocks):
            if b["cleanup"]:
                continue
            for j, st in enumerate(b["stmts"]):
                if st["k"] != "assign":
                    continue
                f = hit(st["place"])
                if f:
                    yield fn, i, j, f, "assign"
                rv = st["rv"]
                if rv["k"] in ("ref", "rawptr") and (rv.get("mut") or "Mut" in rv.get("bk", "")):
                    f = hit(rv["place"])
                    if f:
                        yield fn, i, j, f, "&mut"
            t = b["term"]
            if t["k"] == "call":
                f = hit(t["dest"])
                if f:
                    yield fn, i, None, f, "call-result"
            if t["k"] == "drop" and t.get("place"):
                pass
