"""C08 The loaded database is a fixed point of its own definitions.  DESIGN.md section 4, C08."""
import loader_rules as L
import datafiles


def run(chk, F):
    chk.explanation = (
        "(a) Loading is a function of the text: from the loader roots no clock, environment, file system, thread, "
        "randomness or hash-container iteration is reachable in the call graph and the loader's types hold no hash "
        "containers; (b) dependencies first: Resolver::visit emits in post-order behind the unmarked/temp-mark tests, "
        "the driver takes work from the ordered set, every registry write follows the completed sort, the walk covers "
        "every expression position; (c) data lints with the independent reader over definitions.units, currency.units "
        "and the currency snapshot: unique names per namespace, every identifier resolves exact->prefix->plural, "
        "alias chains end at real definitions, quantities map injectively to dimensionalities of declared base units, "
        "every category used is declared, hard-wired decomposition units exist. Not decided: that each stored value "
        "equals what its definition evaluates to (that is evaluation of ~2900 entries).")
    chk.guard("load-is-a-function-of-text", "loader", lambda: L.determinism(chk, F))
    chk.guard("ordered-containers", "Resolver", lambda: L.containers(chk, F))
    chk.guard("worklist-ordered", "load_defs", lambda: L.driver_loop(chk, F))
    chk.guard("visit-postorder", "Resolver::visit", lambda: L.visit_structure(chk, F))
    chk.guard("writes-after-sort", "load_defs", lambda: L.registry_writes_after_sort(chk, F))
    chk.guard("walk-coverage", "Resolver", lambda: L.walk_coverage(chk, F))
    chk.guard("walk-coverage", "load_defs ids", lambda: L.defined_names_are_emitted(chk, F))
    chk.guard("walk-coverage", "name readings", lambda: L.readings_agree(chk, F))
    chk.guard("walk-coverage", "readings per context", lambda: L.context_readings(chk, F))
    chk.guard("walk-coverage", "local names", lambda: L.local_names(chk, F))
    chk.guard("errors-reported", "load_defs", lambda: L.errors_reported(chk, F))
    chk.guard("errors-reported", "load_defs inserts", lambda: L.input_inserts_checked(chk, F))
    import c07
    chk.guard("fallback-order", "Resolver::lookup", lambda: c07.family(chk, F, "Resolver::lookup", "loader::load::Resolver::lookup_exact", "loader::load::Resolver::lookup_with_prefix", "loader::load::Resolver::lookup", {}))
    chk.guard("definitions-not-overwritten", "load_defs", lambda: L.definitions_precedence(chk, F))
    chk.guard("long-prefix-yields-to-a-unit", "load_defs", lambda: L.units_precedence(chk, F))
    chk.guard("exponent-is-exact", "loader evaluators", lambda: L.exact_exponents(chk, F))
    chk.guard("definition-grammar", "gnu_units parser", lambda: L.definition_grammar(chk, F))
    chk.guard("unique-names", "data", lambda: datafiles.unique_names(chk))
    chk.guard("categories-declared-consistently", "data", lambda: datafiles.categories_declared_once(chk))
    chk.guard("references-resolve", "data", lambda: datafiles.reference_lint(chk))
    chk.guard("overlay-does-not-rebind", "data", lambda: datafiles.overlay_rebinding(chk))
    chk.guard("declared-base-units", "data", lambda: datafiles.declared_base_units(chk))
    chk.guard("unit-lines-are-units", "data", lambda: datafiles.substances_in_unit_lines(chk))
    chk.guard("compat-symbols", "data", lambda: datafiles.compat_symbols(chk))
    chk.guard("quantities-injective", "data", lambda: datafiles.quantity_injective(chk))
    chk.guard("docs-and-categories-belong", "data", lambda: datafiles.docs_belong(chk))
    chk.guard("hardwired-names-exist", "data", lambda: datafiles.hardwired_names(chk, F))
