"""Rule instances used by more than one property."""
import cg
from facts import AnchorLost, ap_str

CORE = "rink_core"


def temporaries_cleared(chk, F, rule="temporaries-cleared"):
    """Every definition that may insert load-time temporaries clears them before the next definition is
    processed and before load_defs returns, on all (non-panicking) paths.  Context::lookup consults
    `temporaries` before the registry, so a leaked temporary shadows real names in every later query."""
    fn = F.find(CORE, "loader::load::load_defs")
    writers = {}
    for g, bb, j, f, how in cg.field_writes(F, "loader::context::Context", {"temporaries"}):
        writers.setdefault(g.id, g)
    # blocks of load_defs where a writer closure is created, or where temporaries is borrowed mutably for
    # something other than `clear`
    W = set()
    C = set()
    for i, b in enumerate(fn.blocks):
        if b["cleanup"]:
            continue
        for st in b["stmts"]:
            if st["k"] == "assign" and st["rv"]["k"] == "agg" and st["rv"]["agg"] == "closure" and st["rv"]["closure"]["id"] in writers:
                W.add(i)
        t = b["term"]
        if t["k"] == "call" and "callee" in t and t["args"]:
            ap = fn.apath(t["args"][0])
            if ap[1][-1:] == ("temporaries",):
                if t["callee"]["path"].endswith("BTreeMap::<K, V, A>::clear"):
                    C.add(i)
                else:
                    W.add(i)
    if not W:
        raise AnchorLost("no site in load_defs inserts into Context.temporaries (closure or direct)")
    rets = {i for i, b in enumerate(fn.blocks) if b["term"]["k"] == "return"}
    for w in sorted(W):
        reach = set()
        for lab, s in fn.succs(w):
            reach |= fn.reachable(s, cut_blocks=C)
        leak_ret = reach & rets
        leak_loop = w in reach
        where = fn.where(w)
        chk.decide(not leak_ret and not leak_loop, rule, "rink_core::loader::load::load_defs", "after-insert-site", where,
                   "every path from this temporaries-writing site passes temporaries.clear() before the next definition / return (%d clear site(s))" % len(C),
                   "a path from the temporaries-writing site at %s reaches %s without temporaries.clear(): load-time temporaries "
                   "leak into the loaded context and shadow real names in Context::lookup" % (
                       where, "the next loop iteration" if leak_loop else "the function return"))
    # no other function writes temporaries
    for gid, g in writers.items():
        ok = g.id == fn.id or (g.raw.get("root") or {}).get("id") == fn.id
        chk.decide(ok, rule, "%s::%s" % (g.crate, g.path), "writer", g.where(),
                   "temporaries written only inside load_defs", "Context.temporaries is written outside load_defs")


def _strip(e):
    while isinstance(e, dict) and e.get("k") in ("DropTemps", "AddrOf", "Paren") and e.get("e"):
        e = e["e"]
    while isinstance(e, dict) and e.get("k") == "Unary" and e.get("op") == "Deref" and (e.get("a") or e.get("e")):
        e = e.get("a") or e.get("e")
    return e


def accepted_literals(F, crate, cond, subject=None):
    """Which string literals does the boolean HIR expression `cond` accept for the local it tests?  Understood: `x == "lit"`
    (either side), `a || b`, `[..].contains(&x)`, `TABLE.contains(&x)` with a const / static table, `matches!(x, "a" | "b")`.
    Returns (set of literals, name of the tested local) or None when the condition is anything else."""
    from facts import hir_walk
    cond = _strip(cond)
    k = cond.get("k")

    def local(e):
        e = _strip(e)
        if e.get("k") == "Path" and e.get("r", {}).get("res") == "local":
            return e["r"]["name"]
        return None

    def strs(e):
        return [x["lit"]["v"] for x in hir_walk(e) if x.get("k") == "Lit" and x["lit"].get("lit") == "str"]
    if k == "Binary" and cond["op"] == "Or":
        a = accepted_literals(F, crate, cond["a"], subject)
        b = accepted_literals(F, crate, cond["b"], subject)
        if a is None or b is None or a[1] != b[1]:
            return None
        return (a[0] | b[0], a[1])
    if k == "Binary" and cond["op"] == "Eq":
        for x, y in ((cond["a"], cond["b"]), (cond["b"], cond["a"])):
            y_ = _strip(y)
            if local(x) and y_.get("k") == "Lit" and y_["lit"].get("lit") == "str":
                return ({y_["lit"]["v"]}, local(x))
        return None
    if k == "MethodCall" and cond.get("name") == "contains" and len(cond.get("args", [])) == 1 and local(cond["args"][0]):
        r = _strip(cond["recv"])
        if r.get("k") == "Array":
            vals = strs(r)
            n = len(r.get("elems", r.get("es", vals)))
        elif r.get("k") == "Path" and r.get("r", {}).get("res") == "def" and str(r["r"].get("dk", "")).startswith(("Const", "Static", "AssocConst")):
            c = F.consts.get(crate, {}).get(r["r"]["path"])
            if c is None or not c["ty"].startswith("[&") and not c["ty"].startswith("&["):
                return None
            vals = strs(c["body"])
            n = len(vals)
        else:
            return None
        if not vals or n != len(vals) or "slice" not in str(cond.get("path", "")):
            return None
        return (set(vals), local(cond["args"][0]))
    if k == "Match" and local(cond.get("scrut", {})):
        yes = set()
        for a in cond["arms"]:
            body = _strip(a["body"])
            val = body["lit"].get("v") if body.get("k") == "Lit" and body["lit"].get("lit") == "bool" else None
            pats = a["pat"]["alts"] if a["pat"]["pk"] == "or" else [a["pat"]]
            lits = [p_["e"]["v"] for p_ in pats if p_["pk"] == "expr" and p_["e"].get("lit") == "str"]
            if val in (True, "true"):
                if a.get("guard") or len(lits) != len(pats):
                    return None
                yes |= set(lits)
            elif val in (False, "false"):
                continue
            else:
                return None
        return (yes, local(cond["scrut"])) if yes else None
    return None
