"""Rule instances used by more than one property."""
import cg
from facts import AnchorLost, ap_str

CORE = "rink_core"


def temporaries_cleared(chk, F, rule="temporaries-cleared"):
    """Every definition that may insert load-time temporaries clears them before the next definition is
    processed and before load_defs returns, on all (non-panicking) paths.  Context::lookup consults
    `temporaries` before the registry, so a leaked temporary shadows real names in every later query."""
    fn = F.find(CORE, "loader::load::load_defs")
    writers = {}
    for g, bb, j, f, how in cg.field_writes(F, "loader::context::Context", {"temporaries"}):
        writers.setdefault(g.id, g)
    # blocks of load_defs where a writer closure is created, or where temporaries is borrowed mutably for
    # something other than `clear`
    W = set()
    C = set()
    for i, b in enumerate(fn.blocks):
        if b["cleanup"]:
            continue
        for st in b["stmts"]:
            if st["k"] == "assign" and st["rv"]["k"] == "agg" and st["rv"]["agg"] == "closure" and st["rv"]["closure"]["id"] in writers:
                W.add(i)
        t = b["term"]
        if t["k"] == "call" and "callee" in t and t["args"]:
            ap = fn.apath(t["args"][0])
            if ap[1][-1:] == ("temporaries",):
                if t["callee"]["path"].endswith("BTreeMap::<K, V, A>::clear"):
                    C.add(i)
                else:
                    W.add(i)
    if not W:
        raise AnchorLost("no site in load_defs inserts into Context.temporaries (closure or direct)")
    rets = {i for i, b in enumerate(fn.blocks) if b["term"]["k"] == "return"}
    for w in sorted(W):
        reach = set()
        for lab, s in fn.succs(w):
            reach |= fn.reachable(s, cut_blocks=C)
        leak_ret = reach & rets
        leak_loop = w in reach
        where = fn.where(w)
        chk.decide(not leak_ret and not leak_loop, rule, "rink_core::loader::load::load_defs", "after-insert-site", where,
                   "every path from this temporaries-writing site passes temporaries.clear() before the next definition / return (%d clear site(s))" % len(C),
                   "a path from the temporaries-writing site at %s reaches %s without temporaries.clear(): load-time temporaries "
                   "leak into the loaded context and shadow real names in Context::lookup" % (
                       where, "the next loop iteration" if leak_loop else "the function return"))
    # no other function writes temporaries
    for gid, g in writers.items():
        ok = g.id == fn.id or (g.raw.get("root") or {}).get("id") == fn.id
        chk.decide(ok, rule, "%s::%s" % (g.crate, g.path), "writer", g.where(),
                   "temporaries written only inside load_defs", "Context.temporaries is written outside load_defs")
