"""C20 Currency cache is replaced atomically or not at all.  DESIGN.md section 4, C20."""
import cg
import facts
from facts import AnchorLost, ap_str, ap_calls

CLI = "rink"

# calls that create, truncate, rename or delete files (resolved callee path fragments)
FILE_MUTATORS = (
    "std::fs::File::create", "std::fs::File::create_new", "std::fs::OpenOptions::open", "std::fs::write", "std::fs::rename",
    "std::fs::copy", "std::fs::remove_file", "std::fs::remove_dir_all", "std::fs::remove_dir", "std::fs::create_dir_all",
    "std::fs::create_dir", "std::fs::File::set_len", "std::fs::hard_link", "std::os::unix::fs::symlink",
    "tempfile::Builder::<'a, 'b>::tempfile_in", "tempfile::file::NamedTempFile::<F>::persist",
    "tempfile::file::NamedTempFile::<F>::persist_noclobber", "tempfile::file::NamedTempFile::<F>::keep",
    "tempfile::file::NamedTempFile::new_in", "tempfile::tempfile_in", "tempfile::Builder::<'a, 'b>::tempfile",
    "tempfile::file::NamedTempFile::new", "tempfile::tempfile",
)


def G_owner(F, h):
    return cg.get(F).owner_chain(h)


def try_guard(fn, guards, callee_suffix, F=None, depth=2):
    """Is there a necessary `?`-Continue (or Ok) edge on the result of a call to callee_suffix?  With F: also through a private
    helper of the crate - `helper(..)?` succeeded, and inside the helper every way of returning Ok lies behind that edge."""
    import facts as _f
    for g in guards:
        d = fn.guard_desc(g)
        if d[0] == "variant" and d[3] in ("Continue", "Ok") and not d[1][1]:
            calls = ap_calls(d[1])
            # outermost is Try::branch; the next call must be the waypoint (possibly through wrap_err/map_err)
            inner = [c for c in calls if not c.endswith("Try>::branch")]
            skip = ("wrap_err", "map_err", "wrap_err_with", "WrapErr")
            inner = [c for c in inner if not any(s in c for s in skip)]
            if inner and inner[0].endswith(callee_suffix):
                return d
            if F is not None and inner and depth > 0:
                h = _f.private_helper(F, fn.crate, inner[0])
                if h is not None:
                    oks = [i for i, j, st in h.stmts() if st["k"] == "assign" and st["place"]["l"] == 0 and not st["place"]["p"]
                           and st["rv"].get("k") == "agg" and st["rv"].get("variant") in ("Ok", "Some")]
                    if oks and all(try_guard(h, h.guards_of(b), callee_suffix, F, depth - 1) is not None for b in oks):
                        return d
    return None


def run(chk, F):
    chk.explanation = (
        "Write-discipline analysis of the cli crate's MIR (nothing is run): in download_to_file the persist (rename "
        "over the cache path) is reachable only through the success edges of Easy::perform, response_code with "
        "status == 200, and File::sync_all, each consumed by `?` (single-edge cut-set); the temp file is created by "
        "tempfile_in(parent of the same path that is persisted); the download body is written only to a clone of "
        "that temp file's handle; no other call in the cli crate that creates/truncates/renames/removes files "
        "receives a path derived from dirs::cache_dir() (inter-procedural taint over path arguments); cached() "
        "falls back to opening the stale file on a failed download, load() prints a currency failure and still "
        "returns the context, force_refresh_currency propagates the error.")
    chk.assume("rename(2) is atomic on the same filesystem; curl reports truncated bodies/timeouts as errors of perform(); "
               "tempfile::NamedTempFile removes the temp file on drop")
    chk.guard("persist-gates", "download_to_file", lambda: download(chk, F))
    chk.guard("cache-writers", "cli", lambda: writers(chk, F))
    chk.guard("fallback", "cached/load", lambda: fallback(chk, F))
    import c18
    chk.guard("child-stdout", "RinkService", lambda: c18.child_stdout(chk, F))


# normalised form for these rules: only private helpers all of whose callers are the function itself are put back (`extract
# function`); combinators and everything else stay as written
OWNED = ("owned-helpers-only", "Option::<T>", "Iterator", "bool>::then", "Result::<T, E>", "FnOnce", "FnMut")


def download(chk, F):
    # two views of the same function: as compiled, for "persist only after X succeeded" (a `helper(..)?` is followed into the
    # helper, see try_guard), and with its own private helpers put back in place, for "which file / which path is this"
    raw = F.find(CLI, "config::download_to_file")
    fn = F.find(CLI, "config::download_to_file", inline=True, keep=OWNED)
    FK = "rink::config::download_to_file"
    persists = fn.call_sites(lambda c: "NamedTempFile" in c["path"] and c["path"].endswith("::persist"))
    rp = raw.call_sites(lambda c: "NamedTempFile" in c["path"] and c["path"].endswith("::persist"))
    if len(persists) != 1 or len(rp) != 1:
        raise AnchorLost("expected one NamedTempFile::persist call in download_to_file, found %d" % len(persists))
    pb, pt = persists[0]
    guards = fn.guards_of(pb)
    rguards = raw.guards_of(rp[0][0])
    where = fn.where(pb)
    for suffix, what in (("Easy::perform", "the transfer finished without a curl error"),
                         ("Easy::response_code", "the status code could be read"),
                         ("File::sync_all", "the temp file's data reached the disk")):
        d = try_guard(raw, rguards, suffix, F)
        chk.decide(d is not None, "persist-gates", FK, "after:" + suffix, where,
                   "persist only after %s succeeded (`?` consumed): %s" % (suffix, what),
                   "NamedTempFile::persist can be reached without the success edge of %s: the cache file could be replaced "
                   "by an incomplete or unsynced download" % suffix)
    # the body is validated as complete JSON read back from the temp file (a close-delimited 200 that is cut short, or an
    # HTML page served with status 200, passes every transport-level test above)
    dv = None
    for sfx in ("serde_json::de::from_reader", "serde_json::from_reader", "serde_json::de::from_slice", "serde_json::de::from_str"):
        dv = dv or try_guard(raw, rguards, sfx, F)
    # what is parsed is the temp file (seen where the parse is, with helpers put back in place)
    parsed = [ap_str(fn.apath(t["args"][0])) for bb, t in fn.calls() if "callee" in t and t["callee"]["path"].endswith(
        ("serde_json::de::from_reader", "serde_json::from_reader", "serde_json::de::from_slice", "serde_json::de::from_str"))]
    okv = dv is not None and bool(parsed) and all("tempfile_in" in x for x in parsed)
    chk.decide(okv, "persist-gates", FK, "body-is-complete-json", where,
               "persist only after the downloaded temp file parsed as JSON to its end",
               "the downloaded body is not validated before it replaces the cache: a 200 response without Content-Length that is cut after k bytes "
               "(or a captive-portal page) is renamed over the previous file")
    # ... and it is validated as *what the loader will read*: Context::load_currency deserialises the file as a list of
    # definitions.  Complete JSON of another shape (`{"error":"rate limited"}`, `[]`, `null` with status 200) would otherwise
    # replace a good cache, and the next start has no currencies for a whole cache period.
    def target_type(f, suffixes):
        out = []
        for bb, t in f.calls():
            if "callee" in t and t["callee"]["path"].endswith(suffixes):
                ga = t["callee"].get("gargs") or []
                if ga:
                    out.append(ga[-1].replace("rink_core::", ""))
        return out
    lc = F.find("rink_core", "loader::context::Context::load_currency")
    want = target_type(lc, ("serde_json::de::from_str", "serde_json::de::from_slice", "serde_json::de::from_reader"))
    got = target_type(fn, ("serde_json::de::from_reader", "serde_json::de::from_slice", "serde_json::de::from_str"))
    if len(want) != 1:
        raise AnchorLost("load_currency: expected one serde_json parse of the live data, found %s" % want)
    chk.decide(okv and want[0] in got, "persist-gates", FK, "body-is-what-the-loader-reads", where,
               "the body is validated as %s, the type load_currency reads" % want[0],
               "the body is validated as %s but load_currency reads %s: a 200 reply with other JSON (`{\"error\":\"rate limited\"}`, `[]`, `null`) "
               "replaces a good cache and `1 BTC to USD` is \"No such unit BTC\" until the cache expires" % (got or "nothing", want[0]))
    # status == 200
    ok200 = False
    for g in guards:
        d = fn.guard_desc(g)
        if d[0] == "bool" and d[1][0][0] == "binop":
            op, a, b = d[1][0][1], d[1][0][2], d[1][0][3]
            consts = [x[0][1] for x in (a, b) if x[0][0] == "const"]
            others = [x for x in (a, b) if x[0][0] != "const"]
            if consts == [200] and others and any(c.endswith("Easy::response_code") for c in ap_calls(others[0])):
                if (op == "Ne" and d[2] is False) or (op == "Eq" and d[2] is True):
                    ok200 = True
    chk.decide(ok200, "persist-gates", FK, "status-200", where, "persist only on the `status == 200` edge",
               "persist is not guarded by the HTTP status being exactly 200")
    # sync_all is on the temp file that is persisted
    tmp_ap = fn.apath(pt["args"][0])
    d = try_guard(raw, rguards, "File::sync_all", F)
    same = False
    if d is not None:
        synced = [ap_str(fn.apath(t["args"][0])) for bb, t in fn.calls() if "callee" in t and t["callee"]["path"].endswith("File::sync_all")]
        same = bool(synced) and all("tempfile_in" in x and "as_file_mut" in x for x in synced)
    chk.decide(same and "tempfile_in" in ap_str(tmp_ap), "persist-gates", FK, "sync-same-file", where,
               "the synced file is the temp file being persisted", "sync_all is not applied to the temp file that is persisted (%s)" % (ap_str(d[1])[:160] if d else "-"))
    # same directory + same path
    path_ap = fn.apath(pt["args"][1])
    tf = fn.call_sites(lambda c: c["path"].endswith("::tempfile_in"))
    ok_dir = False
    if len(tf) == 1:
        dir_ap = fn.apath(tf[0][1]["args"][1])
        s = ap_str(dir_ap)
        ok_dir = s.startswith("core::option::Option::<T>::unwrap(std::path::Path::parent(arg1))")
    chk.decide(ok_dir and path_ap == (("arg", 1), ()), "persist-gates", FK, "same-directory", where,
               "temp file is created in parent(path) and persisted to the same `path` argument",
               "temp file directory / persist target are not parent(path) / path: tempfile_in(%s), persist(%s)" % (
                   ap_str(fn.apath(tf[0][1]["args"][1]))[:120] if tf else "-", ap_str(path_ap)[:120]))
    # body sink: closure passed to write_function writes only to a clone of the temp file
    wf = fn.call_sites(lambda c: c["path"].endswith("Easy::write_function"))
    if len(wf) != 1:
        raise AnchorLost("expected one Easy::write_function call")
    cl_ap = fn.apath(wf[0][1]["args"][1])
    ok_sink = cl_ap[0][0] == "agg" and cl_ap[0][1].startswith("closure:") and len(cl_ap[0][2]) == 1 and \
        "File::try_clone(tempfile::file::NamedTempFile::<F>::as_file_mut(" in ap_str(cl_ap[0][2][0]) and "tempfile_in" in ap_str(cl_ap[0][2][0])
    chk.decide(ok_sink, "persist-gates", FK, "body-sink", fn.where(wf[0][0]),
               "the download body is written through a clone of the temp file's handle",
               "the write callback does not capture (only) a clone of the temp file handle: %s" % ap_str(cl_ap)[:200])
    cls = F.closures_of(fn)
    for c in cls:
        muts = [t["callee"]["path"] for _, t in c.calls() if "callee" in t and (any(m in t["callee"]["path"] for m in FILE_MUTATORS) or ("std::fs::" in t["callee"]["path"] and not t["callee"]["path"].endswith(("Write>::write", "Write>::write_all"))))]
        chk.decide(not muts, "persist-gates", "rink::" + c.path, "no-file-ops", c.where(),
                   "write callback performs no file-system operation besides writing to its captured handle",
                   "write callback calls %s" % muts)
    # perform happens after write_function is installed, and before response_code
    # on the function as compiled; a step done inside a private helper of it stands where that helper is called, provided every
    # Ok return of the helper lies behind the step (the helper cannot succeed without having done it)
    STEPS = ("Easy::write_function", "Easy::perform", "Easy::response_code", "File::sync_all", "::persist", "::tempfile_in")
    order = [(i, t["callee"]["path"].split("::")[-1]) for i, t in raw.calls() if "callee" in t and t["callee"]["path"].endswith(STEPS)]
    import facts as _f
    for i, t in raw.calls():
        h = _f.private_helper(F, CLI, t["callee"]["path"]) if "callee" in t else None
        if h is None or raw.path not in G_owner(F, h):
            continue
        oks = [b for b, j, st in h.stmts() if st["k"] == "assign" and st["place"]["l"] == 0 and not st["place"]["p"] and st["rv"].get("k") == "agg" and st["rv"].get("variant") in ("Ok", "Some")]
        for hb, ht in h.calls():
            if "callee" in ht and ht["callee"]["path"].endswith(STEPS) and oks and all(h.dominates(hb, b) for b in oks):
                order.append((i, ht["callee"]["path"].split("::")[-1]))
    fn_ = fn
    fn = raw
    snapshot = list(order)
    order = sorted(snapshot, key=lambda x: sum(1 for y in snapshot if y[0] != x[0] and fn.dominates(y[0], x[0])))
    names = [n for _, n in order]
    doms = all(fn.dominates(order[k][0], order[k + 1][0]) for k in range(len(order) - 1))
    chk.decide(names == ["tempfile_in", "write_function", "perform", "response_code", "sync_all", "persist"] and doms,
               "persist-gates", FK, "step-order", where, "steps dominate each other in the order tempfile_in, write_function, perform, response_code, sync_all, persist",
               "download steps are %s (dominance chain %s)" % (names, doms))
    fn = fn_


def writers(chk, F):
    G = cg.get(F)
    fns = F.by_crate[CLI]
    # taint: values derived from dirs::cache_dir(); propagate to callee arguments (fixed point)
    tainted_args = {}   # fn id -> set of arg indices

    def tainted(fn, ap):
        if any("dirs::cache_dir" in c for c in ap_calls(ap)):
            return True
        root = ap[0]
        if root[0] == "arg" and root[1] in tainted_args.get(fn.id, ()):
            return True
        if root[0] == "call":
            return any(tainted(fn, a) for a in root[2])
        if root[0] == "agg":
            return any(tainted(fn, a) for a in root[2])
        return False

    # locals mutated through &mut (PathBuf::push) keep their taint through apath of the base local; a multi-def
    # local loses the chain, so also treat any local of type PathBuf in a function that calls cache_dir as tainted.
    def local_tainted(fn, op):
        pl = facts.place_of(op)
        if pl is None:
            return False
        calls_cache = any("dirs::cache_dir" in t["callee"]["path"] for _, t in fn.calls() if "callee" in t)
        return calls_cache and "PathBuf" in fn.locals[pl["l"]]

    changed = True
    while changed:
        changed = False
        for fn in fns:
            for bb, t in fn.calls():
                if "callee" not in t or t["callee"]["id"] not in F.fns:
                    continue
                callee = F.fns[t["callee"]["id"]]
                for i, a in enumerate(t["args"]):
                    if tainted(fn, fn.apath(a)) or local_tainted(fn, a):
                        s = tainted_args.setdefault(callee.id, set())
                        if i + 1 not in s:
                            s.add(i + 1)
                            changed = True
    allowed = {("config::download_to_file", "create_dir_all"), ("config::download_to_file", "tempfile_in"),
               ("config::download_to_file", "persist")}
    n_sites = 0
    unreviewed = []
    for fn in fns:
        if "::tests::" in fn.path:
            continue
        for bb, t in fn.calls():
            if "callee" not in t:
                continue
            p = t["callee"]["path"]
            if not any(p.endswith(m) or m in p for m in FILE_MUTATORS):
                continue
            n_sites += 1
            name = p.split("::")[-1]
            is_t = any(tainted(fn, fn.apath(a)) or local_tainted(fn, a) for a in t["args"])
            FK = "rink::" + fn.path
            if is_t:
                # (a private helper all of whose callers are the download routine is the download routine's code)
                owners = G.owner_chain(fn)
                chk.decide(any((o, name) in allowed for o in owners), "cache-writers", FK, name, fn.where(bb),
                           "%s on the cache path inside the download routine" % name,
                           "%s is applied to a path derived from the cache directory outside the temp-file + rename "
                           "discipline of download_to_file" % p)
            else:
                unreviewed.append("%s in %s at %s" % (name, fn.path, fn.where(bb)))
                chk.ok("cache-writers", FK, name + ":not-cache-path", fn.where(bb), "file operation on a path not derived from the cache directory", trivial=True)
    chk.extra["file_mutating_sites_not_on_cache_path"] = unreviewed
    chk.floor("cache-writers", 3, "(create_dir_all, tempfile_in, persist in download_to_file)")
    # who calls download_to_file
    dl = F.find(CLI, "config::download_to_file")
    callers = sorted(f.path for f in fns if dl.id in G.edges.get(f.id, ()))
    chk.decide(callers == ["config::cached", "config::force_refresh_currency"], "cache-writers", "rink::config::download_to_file", "callers", dl.where(),
               "download_to_file is called by cached and force_refresh_currency only", "download_to_file callers are %s" % callers)


def fallback(chk, F):
    # cached(): Err of download -> File::open(&path) -> Ok(file)
    # `download(..).or_else(|err| match File::open(..) { .. })` is the match it stands for (combinators and their closures put back
    # in place; download_to_file and the other functions of config stay calls)
    fn = F.find(CLI, "config::cached", inline=True, keep=("config::", "Option::<T>", "Iterator", "wrap_err"))
    FK = "rink::config::cached"
    dls = fn.call_sites(lambda c: c["path"].endswith("config::download_to_file"))
    if len(dls) != 1:
        raise AnchorLost("cached() does not call download_to_file exactly once")
    ok_ret = []
    # the return slot and what is moved into it
    flows = {0}
    grew = True
    while grew:
        grew = False
        for i, j, st in fn.stmts():
            rv = st.get("rv", {})
            if st["k"] == "assign" and st["place"]["l"] in flows and not st["place"]["p"] and rv.get("k") == "use":
                pl_ = facts.place_of(rv["a"])
                if pl_ and not pl_["p"] and pl_["l"] not in flows:
                    flows.add(pl_["l"])
                    grew = True
    for i, j, st in fn.stmts():
        rv = st.get("rv", {})
        if st["k"] == "assign" and st["place"]["l"] in flows and not st["place"]["p"] and rv.get("k") == "agg" and rv.get("adt", "").endswith("result::Result") and rv["variant"] == "Ok":
            ap = fn.apath(rv["ops"][0])
            gs = [fn.guard_desc(g) for g in fn.guards_of(i)]
            ok_ret.append((i, j, ap, gs))
    stale = [r for r in ok_ret if any(c.endswith("File::open") for c in ap_calls(r[2])) and
             any(d[0] == "variant" and d[3] == "Err" and any(c.endswith("download_to_file") for c in ap_calls(d[1])) for d in r[3])]
    chk.decide(len(stale) == 1, "fallback", FK, "stale-on-failure", fn.where(stale[0][0]) if stale else fn.where(),
               "after a failed download cached() re-opens the cache path and returns the stale file",
               "cached() has no `download failed -> File::open(path) -> Ok(file)` path")
    fresh = [r for r in ok_ret if r[2][0][0] == "call" and r[2][0][1].endswith("download_to_file")]
    chk.decide(len(fresh) == 1, "fallback", FK, "fresh-on-success", fn.where(fresh[0][0]) if fresh else fn.where(),
               "a successful download returns the newly persisted file", "cached() does not return the downloaded file on success")
    # the same path is used for open and download
    opens = fn.call_sites(lambda c: c["path"].endswith("File::open"))
    paths = {ap_str(fn.apath(t["args"][0])) for _, t in opens} | {ap_str(fn.apath(dls[0][1]["args"][0]))}
    chk.decide(len(paths) == 1, "fallback", FK, "same-path", fn.where(), "download target and fallback file are the same path",
               "download target and the re-opened path differ: %s" % sorted(paths))
    # load(): currency failure is not fatal
    ld = F.find(CLI, "config::load")
    FK = "rink::config::load"
    tl = ld.call_sites(lambda c: c["path"].endswith("config::try_load_currency"))
    if len(tl) != 1:
        raise AnchorLost("load() does not call try_load_currency exactly once")
    oks = []
    for i, j, st in ld.stmts():
        rv = st.get("rv", {})
        if st["k"] == "assign" and st["place"]["l"] == 0 and not st["place"]["p"] and rv.get("k") == "agg" and rv.get("adt", "").endswith("result::Result") and rv["variant"] == "Ok":
            oks.append((i, j))
    good = False
    for i, j in oks:
        gs = [ld.guard_desc(g) for g in ld.guards_of(i)]
        dep = [d for d in gs if any(c.endswith("try_load_currency") for c in ap_calls(d[1]))]
        if not dep and i in ld.reachable(tl[0][0]):
            good = True
    chk.decide(good, "fallback", FK, "currency-failure-not-fatal", ld.where(tl[0][0]),
               "load() returns Ok(ctx) on both outcomes of try_load_currency", "a currency failure prevents load() from returning the context")
    # the error is reported (println) on the Err edge
    # force_refresh_currency propagates
    fr = F.find(CLI, "config::force_refresh_currency")
    FK = "rink::config::force_refresh_currency"
    good = False
    for i, j, st in fr.stmts():
        rv = st.get("rv", {})
        if st["k"] == "assign" and st["place"]["l"] == 0 and not st["place"]["p"] and rv.get("k") == "agg" and rv.get("adt", "").endswith("result::Result") and rv["variant"] == "Ok":
            if try_guard(fr, fr.guards_of(i), "config::download_to_file"):
                good = True
    chk.decide(good, "fallback", FK, "propagates-error", fr.where(), "--fetch-currency reports success only when the download succeeded",
               "force_refresh_currency can return Ok without download_to_file having succeeded")
