import re
"""C17 `units for` and `factorize` are dimensionally sound and complete.  DESIGN.md section 4, C17."""
import hirutil as H
import hirpp
import facts
import k2
from facts import AnchorLost, hir_walk, ap_str, ap_calls

CORE = "rink_core"
FK = "rink_core::runtime::eval::eval_query"


def query_arm(F, variant):
    fn = F.find(CORE, "runtime::eval::eval_query")
    h = F.hir_of(fn)
    top = [m for m in hir_walk(h["body"]) if m.get("k") == "Match" and m.get("src") == "Normal"]
    if not top:
        raise AnchorLost("eval_query has no top-level match")
    for a in top[0]["arms"]:
        if H.pat_str(a["pat"]).startswith("Query::" + variant):
            return fn, a
    raise AnchorLost("eval_query has no arm for Query::%s" % variant)


def for_loops(e):
    """[(iterated expression, item pattern, body block, line)] for every `for` loop in e."""
    out = []
    for m in hir_walk(e):
        if m.get("k") == "Match" and m.get("src") == "ForLoopDesugar" and m["scrut"].get("k") == "Call":
            it = m["scrut"]["args"][0]
            loops = [l for l in hir_walk(m["arms"][0]["body"]) if l.get("k") == "Loop" and l.get("src") == "ForLoop"]
            if not loops:
                continue
            inner = [x for x in hir_walk(loops[0]["body"]) if x.get("k") == "Match" and x.get("src") == "ForLoopDesugar"]
            if not inner:
                continue
            some = [a for a in inner[0]["arms"] if "Some" in H.pat_str(a["pat"])]
            if some:
                out.append((it, some[0]["pat"], some[0]["body"], m["line"], loops[0]))
    return out


def helper_of(F, fn, arm):
    """The rink_core function an arm hands its operand expression (the arm's pattern binding) to, if there is exactly one."""
    binds = [b for b in hir_walk(arm["pat"]) if b.get("pk") == "bind"]
    if not binds:
        return None
    lid = binds[0]["lid"]
    cands = []
    for c in hir_walk(arm["body"]):
        if c.get("k") == "Call" and c["f"].get("k") == "Path" and any((H.local_name(a) or (None, None))[1] == lid for a in c["args"]):
            g = F.fns.get(c["f"]["r"].get("id"))
            if g is not None and g.crate == "rink_core" and not g.path.endswith("eval::eval_expr"):
                cands.append(g)
    return cands[0] if len(cands) == 1 else None


def helper_reads_quantity_first(F, h):
    from facts import ap_str
    fq = [(bb, t) for bb, t in h.calls() if "callee" in t and t["callee"]["path"].endswith("eval::find_quantity")]
    if len(fq) != 1:
        return False, "it does not call find_quantity exactly once"
    bb, t = fq[0]
    for g in h.guards_of(bb):
        d = h.guard_desc(g)
        txt = ap_str(d[1])
        if ".units" in txt or "Context::lookup(" in txt or "Registry::lookup" in txt:
            return False, "the quantity reading is tried only after a test of the unit table (%s)" % txt[:80]
    if "Expr::Unit" not in " ".join(ap_str(h.apath(a)) for a in t["args"]) and "as Unit" not in " ".join(ap_str(h.apath(a)) for a in t["args"]):
        return False, "find_quantity is not given the bare unit name of the operand"
    if not any("callee" in t2 and t2["callee"]["path"].endswith("eval::eval_expr") for _, t2 in h.calls()):
        return False, "no fall-back to eval_expr"
    return True, "find_quantity on the bare name, ungated, then eval_expr"


def shortcut_desc(arm):
    """Normal form of the quantity-name shortcut of an arm: (iterated, condition, assigned) texts."""
    body = arm["body"]
    for kind, node in H.stmts_of(body):
        e = node if kind != "let" else node.get("init")
        if e and e.get("k") == "If" and e["cond"].get("k") == "Let" and "Expr::Unit" in H.pat_str(e["cond"]["pat"]):
            fl = for_loops(e["then"])
            if len(fl) != 1:
                return None
            it, pat, lbody, line, loop = fl[0]
            conds = [c for c in hir_walk(lbody) if c.get("k") == "If"]
            assigns = [a for a in hir_walk(lbody) if a.get("k") == "Assign"]
            brk = [b for b in hir_walk(lbody) if b.get("k") == "Break"]
            if len(conds) != 1 or len(assigns) != 1:
                return None
            return {"iterates": H.expr_str(it), "item": H.pat_str(pat), "cond": H.expr_str(conds[0]["cond"]),
                    "assign": H.expr_str(assigns[0], 300), "breaks": len(brk), "line": line}
    return None


def run(chk, F):
    chk.explanation = (
        "Filter, base-case and dedup structure decided on the HIR/MIR of eval_query's UnitsFor/Factorize arms and "
        "commands::factorize: the quantity-name shortcut is the same loop over registry.quantities in both arms and yields the "
        "dimensionality paired with the matching name; `units for` pushes a unit only behind `val.unit == unit.unit`, skips only "
        "pure aliases (definition is a bare unit name), appends the base unit itself only when its exponent is 1, sorts, and "
        "flushes a group on every category change and after the loop; `factorize` returns the empty product only for a "
        "dimensionless value, pairs each pushed quantity name with the dimensionality it divided by, recurses on that quotient, "
        "and removes duplicates with dedup() over a vector sorted by a total order consistent with equality. Completeness and "
        "soundness over the ~4000 units of the database are data and not decided.")
    chk.guard("shortcut", "eval_query", lambda: shortcut(chk, F))
    chk.guard("units-for-filter", "eval_query", lambda: units_for(chk, F))
    # the alias filter of `units for` reads Registry::definitions[name]: it must be the unit's own definition
    import loader_rules
    chk.guard("definitions-not-overwritten", "load_defs", lambda: loader_rules.definitions_precedence(chk, F))
    chk.guard("factorize-structure", "factorize", lambda: factorize(chk, F))
    chk.guard("dedup-total-order", "Factors", lambda: dedup_order(chk, F))


def shortcut_mir(F):
    """The quantity-name shortcut decided on the MIR, whatever the locals are called and wherever the search lives (inline loop,
    the existing find_quantity, a new helper): per command, {"ok": bool, "kind": .., "why": ..}.  A *reading* is a use of the
    dimensionality `item.0` of an entry `item` of registry.quantities (the `u.clone()` / `dims.clone()`); it must lie behind the
    true edge of a comparison of that entry's name `item.1` with something, and the command's arm must reach it."""
    import prov
    fn = F.find(CORE, "runtime::eval::eval_query")

    def readings(g):
        out = []
        for bb, t in g.calls():
            if "callee" in t and t["callee"]["path"].endswith("Clone>::clone") and t["args"]:
                a = g.apath(t["args"][0])
                if a[1][-3:] == ("as Some", "0", "0") and "registry.quantities" in ap_str(a) and "::next(" in ap_str(a):
                    item = (a[0], a[1][:-1])
                    named = False
                    for gd in g.guards_of(bb):
                        d = g.guard_desc(gd)
                        if d[0] == "bool" and d[1][0][0] == "call" and ("PartialEq" in d[1][0][1]) and not d[1][1]:
                            is_eq = d[1][0][1].endswith("::eq")
                            if (d[2] is True) == is_eq and any(facts.ap_match(x, (item[0], item[1] + ("1",))) for x in d[1][0][2]):
                                named = True
                    out.append((bb, named))
        return out

    def helper_readings(h, depth=2):
        r = readings(h)
        if r or depth == 0:
            return r
        for bb, t in h.calls():
            g = facts.private_helper(F, CORE, t["callee"]["path"]) if "callee" in t else None
            if g is not None and g.id != h.id:
                r += helper_readings(g, depth - 1)
        return r

    res = {}
    for arm in ("UnitsFor", "Factorize"):
        def in_arm(bb):
            return any(d[0] == "variant" and d[3] == arm and "query::Query" in d[2] for d in (fn.guard_desc(g) for g in fn.guards_of(bb)))
        sites, kind = [], None
        # the quantity reading comes first: it is not tried only after the name failed to be a unit (`force` and `jerk` are both)
        def after_unit_lookup(g, bb):
            return [ap_str(d[1])[-70:] for d in (g.guard_desc(x) for x in g.guards_of(bb))
                    if any(w in ap_str(d[1]) for w in ("Context::lookup(", "Registry::lookup", "registry.units", "::canonicalize("))]
        late = []
        for bb, named in readings(fn):
            if in_arm(bb):
                sites.append(named)
                kind = "inline"
                late += after_unit_lookup(fn, bb)
        for bb, t in fn.calls():
            g = facts.private_helper(F, CORE, t["callee"]["path"]) if "callee" in t else None
            if g is not None and in_arm(bb):
                hr = helper_readings(g)
                if hr:
                    sites += [n for _, n in hr]
                    kind = "helper"
                    late += after_unit_lookup(fn, bb)
                    for hb, _ in hr:
                        late += [x for h2 in [g] + [facts.private_helper(F, CORE, t2["callee"]["path"]) for _, t2 in g.calls() if "callee" in t2 and facts.private_helper(F, CORE, t2["callee"]["path"])]
                                 for x in (after_unit_lookup(h2, hb) if any(b_ == hb for b_, _ in readings(h2)) else [])]
        evals = [bb for bb, t in fn.calls() if "callee" in t and t["callee"]["path"].endswith("eval::eval_expr") and in_arm(bb)]
        # helpers of the arm may evaluate the expression instead
        hevals = [1 for bb, t in fn.calls() if "callee" in t and in_arm(bb) and facts.private_helper(F, CORE, t["callee"]["path"]) is not None
                  and helper_readings(facts.private_helper(F, CORE, t["callee"]["path"]))
                  and any("callee" in t2 and t2["callee"]["path"].endswith("eval::eval_expr") for _, t2 in facts.private_helper(F, CORE, t["callee"]["path"]).calls())]
        ok = bool(sites) and all(sites) and (len(evals) + len(hevals)) == 1 and not late
        res[arm] = {"ok": ok, "kind": kind, "why": "%d reading(s) of registry.quantities, %d behind the name test, %d evaluation(s) of the expression%s" % (
            len(sites), sum(1 for x in sites if x), len(evals) + len(hevals), ("; the quantity is read only after a unit lookup (%s)" % late[0]) if late else "")}
    # Factorize: what is handed to factorize() is 1 x that dimensionality, or the evaluated expression
    for bb, t in fn.calls():
        if "callee" in t and t["callee"]["path"].endswith("commands::factorize::factorize"):
            bad = []
            for k_, v_ in prov.sources(F, fn, t["args"][0]):
                if k_ == "value" and "registry.quantities" in ap_str(v_):
                    continue
                if k_.endswith("Numeric::one") or k_.endswith("eval::eval_expr"):
                    continue
                if k_ == "value" and any(c.endswith("eval::eval_expr") for c in ap_calls(v_)):
                    continue
                if k_ == "?" or k_.startswith("runtime::value::Value::") or k_ == "value" or k_ == "param":
                    continue      # not followed further / a payload of the evaluated value: no other producer of numbers
                bad.append(k_)
            if bad:
                res["Factorize"]["ok"] = False
                res["Factorize"]["why"] += "; the value factorized can also come from %s" % bad[:3]
    return res


def shortcut(chk, F):
    fn, ua = query_arm(F, "UnitsFor")
    _, fa = query_arm(F, "Factorize")
    du, df = shortcut_desc(ua), shortcut_desc(fa)
    where = "%s:%d" % (fn.file, ua["line"])
    # helper form: both arms hand their operand to one function that tries the quantity reading first
    if du is None and df is None:
        hu, hf = helper_of(F, fn, ua), helper_of(F, fn, fa)
        if hu is not None and hf is not None:
            for name, hfn, arm in (("UnitsFor", hu, ua), ("Factorize", hf, fa)):
                okh, why = helper_reads_quantity_first(F, hfn)
                chk.decide(okh, "shortcut", FK, name + ":quantity-name-to-dimensionality", hfn.where(),
                           "a bare quantity name resolves to the dimensionality registered under that name (helper %s: %s)" % (hfn.path, why),
                           "the helper %s does not read a bare name as the quantity of that name first: %s - `units for force` and `factorize force` answer "
                           "for the unit `force` (an alias of gravity, an acceleration) instead of the quantity" % (hfn.path, why))
                evals = H.path_calls(arm["body"], "eval::eval_expr")
                chk.decide(not evals, "shortcut", FK, name + ":single-source", "%s:%d" % (fn.file, arm["line"]),
                           "X comes from the helper alone", "%s also evaluates the expression itself besides calling the helper" % name)
            chk.decide(hu.id == hf.id, "shortcut", FK, "siblings-agree", where, "both commands resolve their operand with the same helper",
                       "units-for and factorize use different helpers (%s, %s)" % (hu.path, hf.path))
            return
    mir = shortcut_mir(F)
    if du is None or df is None:
        # neither the inline loop nor one helper for the whole operand: decided on the MIR alone
        for name, arm in (("UnitsFor", ua), ("Factorize", fa)):
            chk.decide(mir[name]["ok"], "shortcut", FK, name + ":quantity-name-to-dimensionality", "%s:%d" % (fn.file, arm["line"]),
                       "a bare quantity name resolves to the dimensionality registered under exactly that name (%s: %s)" % (mir[name]["kind"], mir[name]["why"]),
                       "the quantity-name shortcut of %s does not read the dimensionality registered under that name: %s" % (name, mir[name]["why"]))
            chk.decide(mir[name]["ok"], "shortcut", FK, name + ":single-source", "%s:%d" % (fn.file, arm["line"]),
                       "X is either the named quantity's dimensionality or the evaluated expression", "%s: %s" % (name, mir[name]["why"]))
        chk.decide(mir["UnitsFor"]["kind"] == mir["Factorize"]["kind"], "shortcut", FK, "siblings-agree", where, "both commands resolve a quantity name the same way",
                   "units-for and factorize resolve a quantity name differently: %s vs %s" % (mir["UnitsFor"]["kind"], mir["Factorize"]["kind"]))
        return
    for name, d, arm in (("UnitsFor", du, ua), ("Factorize", df, fa)):
        ok = d is not None and d["iterates"] == "&ctx.registry.quantities" and d["cond"] in ("(name Eq k)", "(k Eq name)") and \
            d["item"].replace(" ", "") in ("Option::Some{0:(u,k)}",) and "unit: u.clone()" in d["assign"] and "value: Numeric::one()" in d["assign"] and d["breaks"] >= 1
        # (the same loop with other names for its locals: the MIR reading decides)
        ok = ok or (d is not None and d["breaks"] >= 1 and mir[name]["ok"])
        chk.decide(ok, "shortcut", FK, name + ":quantity-name-to-dimensionality", "%s:%d" % (fn.file, d["line"] if d else arm["line"]),
                   "a bare quantity name resolves to the dimensionality registered under exactly that name (loop over registry.quantities, name == k, unit: u)",
                   "the quantity-name shortcut of %s is not `for (u, k) in &registry.quantities { if name == k { val = 1 * u } }` (found %s)" % (name, d))
        # val is only set by the shortcut; the fallback evaluates the expression
        assigns = [a for a in hir_walk(arm["body"]) if a.get("k") == "Assign" and (H.local_name(a["lhs"]) or ("",))[0] == "val"]
        evals = H.path_calls(arm["body"], "eval::eval_expr")
        chk.decide(len(assigns) == 1 and len(evals) == 1, "shortcut", FK, name + ":single-source", "%s:%d" % (fn.file, arm["line"]),
                   "X is either the named quantity's dimensionality or the evaluated expression", "%s sets X from %d places besides evaluating the expression" % (name, len(assigns)))
    if du and df:
        a, b = dict(du), dict(df)
        a.pop("line"); b.pop("line")
        chk.decide(a == b, "shortcut", FK, "siblings-agree", where, "both commands resolve a quantity name identically", "units-for and factorize resolve a quantity name differently: %s vs %s" % (a, b))


def units_for(chk, F):
    fn, arm = query_arm(F, "UnitsFor")
    fl = for_loops(arm["body"])
    regs = [x for x in fl if H.expr_str(x[0]).startswith("ctx.registry.units")]
    if len(regs) == 0:
        line, pushes, OUT = units_for_pipeline(chk, fn, arm)
    elif len(regs) != 1:
        raise AnchorLost("UnitsFor arm: expected one loop over ctx.registry.units, found %d" % len(regs))
    else:
        line, pushes, OUT = units_for_loop(chk, fn, arm, regs[0])
    where = "%s:%d" % (fn.file, line)
    category_keys(chk, fn, arm)
    # base unit push
    outside = [c for c in H.method_calls(arm["body"], "push") if (H.local_name(c["recv"]) or ("",))[0] == OUT and c not in pushes]
    ok_base = False
    if len(outside) == 1:
        for kind, node in H.stmts_of(arm["body"]):
            e = node if kind != "let" else None
            if e and e.get("k") == "If" and e["cond"].get("k") == "Let" and "as_single" in H.expr_str(e["cond"]["init"]):
                ptxt = H.pat_str(e["cond"]["pat"]).replace(" ", "")
                ok_base = ptxt == "Option::Some((dim,1))" and H.expr_str(e["cond"]["init"]) == "val.unit.as_single()" and \
                    any(c is outside[0] for c in H.method_calls(e["then"], "push"))
    # ... and only a *registered* base unit is the base unit itself: `'inch'` (a quoted name) is a dimension of its own
    registered = False
    if len(outside) == 1:
        for n in hir_walk(arm["body"]):
            if n.get("k") == "If" and n["cond"].get("k") == "MethodCall" and n["cond"]["name"] == "contains" and \
                    H.expr_str(n["cond"]["recv"]).endswith("registry.base_units") and any(c is outside[0] for c in H.method_calls(n["then"], "push")):
                registered = True
    if outside and not (registered and ok_base):
        # the same two conditions read from the MIR (a match with a guard, other names): the push of the dimension's own name lies
        # behind `as_single()` being Some, its exponent being 1 and `base_units.contains(name)`
        raw = F.find(CORE, "runtime::eval::eval_query")
        for bb, t in raw.calls():
            if "callee" in t and t["callee"]["path"].endswith("Vec::<T, A>::push") and "as_single" in ap_str(raw.apath(t["args"][1])):
                gs = [raw.guard_desc(g) for g in raw.guards_of(bb)]
                if not any(d[0] == "variant" and d[3] == "UnitsFor" for d in gs):
                    continue
                one = any(d[0] == "int" and d[2] == 1 and "as_single" in ap_str(d[1]) and d[1][1][-1:] == ("1",) for d in gs) and \
                    any(d[0] == "variant" and d[3] == "Some" and "as_single" in ap_str(d[1]) for d in gs)
                reg = any(d[0] == "bool" and d[2] is True and "::contains(" in ap_str(d[1]) and "registry.base_units" in ap_str(d[1]) and "as_single" in ap_str(d[1]) for d in gs)
                ok_base = ok_base or one
                registered = registered or reg
    chk.decide(registered or not outside, "units-for-filter", FK, "base-unit-is-registered", where,
               "the dimension's own name is listed only when it is a registered base unit",
               "the name of a one-factor dimensionality is listed without asking whether it is a base unit at all: `units for 'inch'` lists the "
               "unit inch (a length) for the ad-hoc dimension 'inch', `units for 'core'` a unit that does not exist")
    chk.decide(ok_base or not outside, "units-for-filter", FK, "base-unit-push", where,
               "the base unit itself is appended only when X is that base unit to the power one",
               "a name is appended to the listing outside the dimensionality filter without requiring exponent 1 (%d extra push sites)" % len(outside))
    # grouping: flush on category change and after the loop
    groups = [x for x in fl if H.expr_str(x[0]) == OUT]
    srt = [c for c in H.method_calls(arm["body"]) if c["name"] in ("sort", "sort_by", "sort_by_key") and (H.local_name(c["recv"]) or ("",))[0] == OUT]
    chunked = [c for c in H.method_calls(arm["body"], "chunk_by") if (H.local_name(c["recv"]) or ("",))[0] == OUT]
    if len(groups) != 1 and len(chunked) == 1 and chunked[0]["args"] and chunked[0]["args"][0].get("k") == "Closure":
        # the same grouping with std's slice::chunk_by: maximal runs of neighbours for which the closure holds - every element is in
        # exactly one run, the last run included - when the closure is `a.<category> == b.<category>` of its two parameters and every
        # run is turned into a group (map + collect, nothing dropped in between)
        cb = chunked[0]
        cl = cb["args"][0]
        body = cl["body"]
        while body.get("k") in ("Block", "DropTemps", "Paren") and (body.get("expr") if body.get("k") == "Block" else body.get("e")) and not body.get("stmts"):
            body = body.get("expr") if body.get("k") == "Block" else body["e"]
        pnames = [p_.get("name") for p_ in cl.get("params", [])]

        def pat_binds(p_, sel=None, out=None):
            """{local name: component of the element it is bound to} for a pattern over one element (`&(c, _)`, `(ref c, ref n)`, `x`)"""
            out = {} if out is None else out
            pk = p_.get("pk")
            if pk in ("ref", "deref", "box") and p_.get("sub"):
                pat_binds(p_["sub"], sel, out)
            elif pk == "tuple":
                for i_, q in enumerate(p_.get("subs", [])):
                    pat_binds(q, str(i_) if sel is None else sel, out)
            elif pk == "bind" and p_.get("name"):
                out[p_["name"]] = sel if sel is not None else "*"
                if p_.get("sub"):
                    pat_binds(p_["sub"], sel, out)
            return out

        def comp(e, binds):
            """(element parameter or bound local, component) an expression reads: `a.category` -> ('a', 'category'); a local bound by
            the pattern `&(c1, _)` -> ('c1', '0')"""
            while e.get("k") in ("AddrOf", "DropTemps", "Paren") and e.get("e"):
                e = e["e"]
            while e.get("k") == "Unary" and e.get("op") == "Deref":
                e = e.get("a") or e.get("e")
            if e.get("k") == "Field" and (e.get("e") or {}).get("k") == "Path":
                return (H.local_name(e["e"]) or (None,))[0], e["name"]
            if e.get("k") == "Path" and H.local_name(e) and binds.get(H.local_name(e)[0]) not in (None, "*"):
                return H.local_name(e)[0], binds[H.local_name(e)[0]]
            return None, None
        same_key = False
        ppats = cl.get("params", [])
        pb = [pat_binds(p_) for p_ in ppats]
        if body.get("k") == "Binary" and body.get("op") == "Eq" and len(ppats) == 2:
            binds = dict(pb[0], **pb[1])
            (la, fa), (lb, fb) = comp(body["a"], binds), comp(body["b"], binds)
            two_sides = la is not None and lb is not None and ((la in pb[0]) != (lb in pb[0]) or {la, lb} == set(pnames))
            same_key = two_sides and fa == fb and fa is not None
            # ... and that component is the category: it is what the group's `category` is made from, and what the sort orders by first
            if same_key:
                mp0 = next((m_ for m_ in H.method_calls(arm["body"]) if m_["name"] == "map" and any(x is cb for x in hir_walk(m_["recv"]))), None)
                mbody = mp0["args"][0] if mp0 and mp0["args"] else {}
                lits = [n_ for n_ in hir_walk(mbody) if n_.get("k") == "Struct" and str(n_.get("ty", "")).endswith("UnitsInCategory")]
                cat_init = next((f_["e"] for n_ in lits for f_ in n_["fields"] if f_["name"] == "category"), None)
                # components read on the way to the category: directly (`group[0].category`), or through locals bound from an element
                # (`let (category, _) = group[0]`) and locals computed from those
                mb = {}
                lets = {}
                for n_ in hir_walk(mbody):
                    if n_.get("sk") == "let" and n_.get("pat") and n_.get("init") is not None:
                        if n_["pat"].get("pk") in ("tuple", "ref"):
                            pat_binds(n_["pat"], None, mb)
                        elif n_["pat"].get("pk") == "bind":
                            lets[n_["pat"]["name"]] = n_["init"]

                def comps_in(e, depth=0):
                    out_ = set()
                    for x in hir_walk(e):
                        if x.get("k") == "Field" and str(x.get("name")) == str(fa):
                            out_.add(str(fa))
                        elif x.get("k") == "Field" and str(x.get("of_ty", "")).startswith("(") or (x.get("k") == "Field" and "ListedUnit" in str(x.get("of_ty", ""))):
                            out_.add(str(x.get("name")))
                        elif x.get("k") == "Path" and H.local_name(x):
                            nm_ = H.local_name(x)[0]
                            if mb.get(nm_) not in (None, "*"):
                                out_.add(mb[nm_])
                            elif nm_ in lets and depth < 3:
                                out_ |= comps_in(lets[nm_], depth + 1)
                    return out_
                from_cat = cat_init is not None and comps_in(cat_init) == {str(fa)}
                sbinds = {}
                sort_first = False
                if srt and srt[0]["args"] and srt[0]["args"][0].get("k") == "Closure":
                    for p_ in srt[0]["args"][0].get("params", []):
                        pat_binds(p_, None, sbinds)
                    for m_ in hir_walk(srt[0]["args"][0]):
                        if m_.get("k") == "Match":
                            reads = [comp(x, sbinds)[1] for x in hir_walk(m_["scrut"]) if x.get("k") in ("Field", "Path")]
                            reads = [r_ for r_ in reads if r_ is not None]
                            if reads and len(reads) == 2 and set(reads) == {fa}:
                                sort_first = True
                same_key = from_cat and sort_first
        users = [m_ for m_ in H.method_calls(arm["body"]) if any(x is cb for x in hir_walk(m_["recv"]))]
        names = [m_["name"] for m_ in users]
        kept = "map" in names and "collect" in names and not [n_ for n_ in names if n_ in ("filter", "filter_map", "skip", "take", "step_by", "skip_while", "take_while", "rev")]
        mp = next((m_ for m_ in users if m_["name"] == "map"), None)
        inner_drop = [m_["name"] for m_ in H.method_calls(mp["args"][0]) if m_["name"] in ("filter", "filter_map", "skip", "take", "step_by", "skip_while", "take_while", "dedup")] if mp and mp["args"] else ["?"]
        gline = cb["line"]
        chk.decide(same_key and kept, "units-for-filter", FK, "flush-on-change-and-at-end", "%s:%d" % (fn.file, gline),
                   "the sorted list is cut into maximal runs of one category (slice::chunk_by on the category component) and every run becomes a group",
                   "chunk_by grouping: the closure is not `a.category == b.category` of its two parameters, or runs are dropped before they are collected (%s)" % names)
        chk.decide(not inner_drop, "units-for-filter", FK, "every-name-kept", "%s:%d" % (fn.file, gline), "every name of a run is put into its group",
                   "names of a run are filtered before they are put into the group (%s)" % inner_drop)
        chk.decide(len(srt) == 1 and line < srt[0]["line"] < gline, "units-for-filter", FK, "sorted-before-grouping", "%s:%d" % (fn.file, srt[0]["line"] if srt else 0),
                   "the list is sorted by category before grouping (each category forms one group)", "the listing is not sorted between filtering and grouping")
        return
    if len(groups) != 1:
        raise AnchorLost("UnitsFor arm: no grouping loop over `out` (and no `out.chunk_by(..)`)")
    git, gpat, gbody, gline, gloop = groups[0]
    # roles by use: CUR receives every name (a top-level push of the loop body), CAT receives the flushed groups
    tops = [n for k, n in H.stmts_of(gbody) if k in ("expr", "tail") and n.get("k") == "MethodCall" and n["name"] == "push" and H.local_name(n["recv"])]
    CUR = H.local_name(tops[0]["recv"])[0] if tops else None
    others = [H.local_name(c["recv"])[0] for c in H.method_calls(gbody, "push") if H.local_name(c["recv"]) and H.local_name(c["recv"])[0] != CUR]
    CAT = others[0] if others else None
    inloop = [c for c in H.method_calls(gbody, "push") if (H.local_name(c["recv"]) or ("",))[0] == CAT]
    allcat = [c for c in H.method_calls(arm["body"], "push") if (H.local_name(c["recv"]) or ("",))[0] == CAT]
    after = [c for c in allcat if c not in inloop]
    curpush = [n for k, n in H.stmts_of(gbody) if k in ("expr", "tail") and n.get("k") == "MethodCall" and n["name"] == "push" and (H.local_name(n["recv"]) or ("",))[0] == CUR]
    chk.decide(len(inloop) == 1 and len(after) == 1 and after[0]["line"] > gline, "units-for-filter", FK, "flush-on-change-and-at-end", "%s:%d" % (fn.file, gline),
               "a group is flushed on every category change and once more after the loop (the last group is not lost)",
               "grouping flush sites: %d inside the loop, %d after it (expected 1 and 1)" % (len(inloop), len(after)))
    chk.decide(len(curpush) == 1, "units-for-filter", FK, "every-name-kept", "%s:%d" % (fn.file, gline), "every listed name is added to the current group unconditionally", "names are not unconditionally added to the current group")
    srt = [c for c in H.method_calls(arm["body"]) if c["name"] in ("sort", "sort_by", "sort_by_key") and (H.local_name(c["recv"]) or ("",))[0] == OUT]
    chk.decide(len(srt) == 1 and line < srt[0]["line"] < gline, "units-for-filter", FK, "sorted-before-grouping", "%s:%d" % (fn.file, srt[0]["line"] if srt else 0),
               "the list is sorted by category before grouping (each category forms one group)", "the listing is not sorted between filtering and grouping")


def category_keys(chk, fn, arm):
    """`grouped under its own category`: registry.categories is keyed by definition names (the loader inserts id.name), so every
    lookup in the UnitsFor arm must use a definition name: the key of the registry.units entry, or a base unit's id. A key that came
    out of Context::canonicalize (the long name of a base unit, `kilogram` for `kg`) is in no category: the unit lands under
    Uncategorized although its definition names a category."""
    gets = [c for c in H.method_calls(arm["body"], "get") if H.expr_str(c["recv"]).endswith("registry.categories")]
    if not gets:
        raise AnchorLost("UnitsFor arm: no lookup in registry.categories")
    # bindings: lid -> ("loop", iterator expr) | ("let", init expr) | ("pat", scrutinee)
    bind = {}
    for it, pat, body, line, loop in for_loops(arm["body"]):
        for b in hir_walk(pat):
            if b.get("pk") == "bind":
                bind[b["lid"]] = ("loop", it)
    for n in hir_walk(arm["body"]):
        if n.get("k") == "Let" and n.get("pat") and n.get("init"):
            for b in hir_walk(n["pat"]):
                if b.get("pk") == "bind":
                    bind.setdefault(b["lid"], ("let", n["init"]))
        if n.get("sk") == "let" and n.get("pat") and n.get("init"):
            for b in hir_walk(n["pat"]):
                if b.get("pk") == "bind":
                    bind.setdefault(b["lid"], ("let", n["init"]))
        if n.get("k") == "Match" and n.get("src") == "Normal":
            # a name bound by a match arm's pattern comes from the scrutinee (`match val.unit.as_single() { Some((dim, 1)) => ..`)
            for a_ in n["arms"]:
                for b in hir_walk(a_["pat"]):
                    if b.get("pk") == "bind":
                        bind.setdefault(b["lid"], ("let", n["scrut"]))
        if n.get("k") == "Closure":
            src = None
        if n.get("k") == "Assign" and H.local_name(n["lhs"]):
            bind[H.local_name(n["lhs"])[1]] = ("let", n["rhs"])

    def origin(e, depth=0):
        """'defname' | 'canonical' | 'unknown' for a key expression."""
        txt = H.expr_str(e)
        if any(c.get("k") == "MethodCall" and c["name"] == "canonicalize" for c in hir_walk(e)):
            return "canonical"
        ln = H.local_name(e)
        if ln and depth < 6:
            b = bind.get(ln[1])
            if b is None:
                return "unknown"
            kind, src = b
            if kind == "loop":
                return "defname" if re.match(r"ctx\.registry\.(units|definitions)\b", H.expr_str(src)) else "unknown"
            if "as_single" in H.expr_str(src):
                return "defname"   # the BaseUnit of a one-factor dimensionality; its id is the definition name
            return origin(src, depth + 1)
        # a method chain on a local: as_str()/id/to_string()/clone()/borrow on a base unit or a definition name keeps the origin
        inner = [x for x in hir_walk(e) if x.get("k") == "Path" and (x.get("r") or {}).get("res") == "local"]
        if len(inner) == 1 and all(c["name"] in ("as_str", "to_string", "clone", "to_owned", "borrow", "as_ref", "deref", "unwrap_or_else", "unwrap_or") for c in H.method_calls(e)):
            return origin(inner[0], depth + 1)
        return "unknown"

    for g in gets:
        o = origin(g["args"][0])
        key = H.expr_str(g["args"][0])
        if o == "unknown":
            raise AnchorLost("UnitsFor arm: cannot tell where the category key `%s` comes from" % key)
        inloop = any(g is x for it, pat, body, line, loop in for_loops(arm["body"]) for x in hir_walk(body)) or \
            any(g is x for c in hir_walk(arm["body"]) if c.get("k") == "Closure" for x in hir_walk(c))
        chk.decide(o == "defname", "units-for-filter", FK, "category-key-is-definition-name:%s" % ("listed-unit" if inloop else "base-unit"), "%s:%d" % (fn.file, g["line"]),
                   "the category of a listed name is looked up under its definition name (`%s`)" % key,
                   "the category is looked up under `%s`, which comes out of canonicalize(): categories are keyed by definition names, so "
                   "`units for mass` lists kilogram under Uncategorized instead of SI Base Units" % key)


def units_for_mir(F):
    """The listing loop of `units for`, decided on the MIR: {"push": (ok, why), "skip": (ok, why)}.  The listing push is the push
    inside the loop over registry.units; it lies behind the true edge of the comparison of the value's dimensionality with that
    unit's, nothing else stands before it but the pure-alias test (`definitions.get(name)` is Some(Expr::Unit)), and without
    passing that test on its not-an-alias side the push cannot be reached."""
    import c02
    fn = F.find(CORE, "runtime::eval::eval_query")
    pushes = []
    for bb, t in fn.calls():
        if "callee" in t and t["callee"]["path"].endswith("Vec::<T, A>::push"):
            gs = [fn.guard_desc(g) for g in fn.guards_of(bb)]
            if any(d[0] == "variant" and d[3] == "UnitsFor" and "query::Query" in d[2] for d in gs) and \
                    any(d[0] == "variant" and d[3] == "Some" and "registry.units" in ap_str(d[1]) and "::next(" in ap_str(d[1]) for d in gs):
                pushes.append((bb, gs))
    if len(pushes) != 1:
        return {"push": (False, "%d pushes inside the loop over registry.units" % len(pushes)), "skip": (False, "-")}
    pb, gs = pushes[0]

    def alias_test(d):
        """guard over `registry.definitions.get(<unit name>)`: directly, or a flag set in the arms of a match on it"""
        txt = ap_str(d[1])
        if "registry.definitions" in txt and "::get(" in txt:
            return True
        ap, _ = k2.peel_not(d[1]) if d[0] == "bool" else (d[1], False)
        if d[0] == "bool" and ap[0][0] == "local" and not ap[1]:
            defs_ = fn.defs().get(ap[0][1], [])
            if defs_ and all(df[0] == "stmt" and df[3].get("k") == "use" and (facts.const_of(df[3]["a"]) or {}).get("ty") == "bool" for df in defs_):
                # (the `true` side is a match arm over the lookup; the `false` side is reached in two ways - no entry, another kind
                # of expression - so no single test stands before it)
                return any(any("registry.definitions" in ap_str(x[1]) and "::get(" in ap_str(x[1]) for x in (fn.guard_desc(g) for g in fn.guards_of(df[1]))) for df in defs_)
        return False

    eqs, other = [], []
    for d in gs:
        if d[0] == "variant" and ("query::Query" in d[2] or (d[3] == "Some" and "registry.units" in ap_str(d[1]))):
            continue
        if d[0] == "variant" and "ast::expr::Expr" in d[2] and "arg2" in ap_str(d[1]):
            continue
        t = c02.unit_test(k2.peel_not(d[1])[0]) if d[0] == "bool" else None
        if t and t[0] in ("eq", "ne") and "registry.units" in ap_str(d[1]):
            if (t[0] == "eq") == (d[2] is True) != k2.peel_not(d[1])[1] or (t[0] == "eq") == (d[2] is True):
                eqs.append(d)
            continue
        if alias_test(d):
            continue
        other.append("%s %s" % (d[0], ap_str(d[1])[-70:]))
    push_ok = len(eqs) >= 1
    # the alias gate as a cut-set: delete the not-an-alias edges of every test over definitions.get(..)
    def acc(kind, ap, info):
        txt = ap_str(ap)
        if "registry.definitions" in txt and "::get(" in txt:
            if kind == "variant" and info.get("enum", "").endswith("option::Option"):
                return {"None"}
            if kind == "variant" and "ast::expr::Expr" in info.get("enum", ""):
                return {n for n in info["variants"].values() if n != "Unit"}
            if kind == "bool":
                if "is_none(" in txt:
                    return {"true"}
                if "is_some(" in txt:
                    return {"false"}
        return None
    res, matched = k2.cut_gate(fn, [pb], acc)
    gate = bool(matched) and res[pb]
    if not gate:
        # a flag computed from the test (`let is_alias = matches!(..)`): the push lies on the flag's `false` side and the flag is
        # false exactly on the not-an-alias sides
        for d in gs:
            ap, flip = k2.peel_not(d[1]) if d[0] == "bool" else (d[1], False)
            if d[0] == "bool" and ap[0][0] == "local" and alias_test(d):
                want_false = (d[2] is False) != flip
                vals = []
                for df in fn.defs().get(ap[0][1], []):
                    c = facts.const_of(df[3]["a"])
                    side = [x for x in (fn.guard_desc(g) for g in fn.guards_of(df[1])) if "registry.definitions" in ap_str(x[1]) and x[0] == "variant"]
                    is_unit = any(x[3] == "Unit" for x in side) and any(x[3] == "Some" for x in side)
                    vals.append((bool(c.get("int")), is_unit))
                gate = want_false and bool(vals) and all(v == u for v, u in vals) and any(v for v, _ in vals)
    return {"push": (push_ok, "the push is behind %d dimension test(s) of the loop's unit" % len(eqs)),
            "skip": (gate and not other, "alias gate %s, other tests before the push: %s" % (gate, other or "none"))}


def units_for_loop(chk, fn, arm, reg):
    it, pat, body, line, loop = reg
    where = "%s:%d" % (fn.file, line)
    chk.decide(H.expr_str(it) == "ctx.registry.units.iter()", "units-for-filter", FK, "iterates-all-units", where,
               "every registered unit is considered", "the candidate loop iterates %s" % H.expr_str(it))
    stm = H.stmts_of(body)
    OUT = None
    for kind, node in stm:
        e = node if kind != "let" else None
        if e and e.get("k") == "If" and e["cond"].get("k") == "Binary" and e["cond"]["op"] == "Eq":
            cand = [c for c in H.method_calls(e["then"], "push") if H.local_name(c["recv"])]
            if cand:
                OUT = H.local_name(cand[0]["recv"])[0]
    if OUT is None:
        allp = [c for c in H.method_calls(body, "push") if H.local_name(c["recv"])]
        OUT = H.local_name(allp[0]["recv"])[0] if allp else "out"
    pushes = [c for c in H.method_calls(body, "push") if (H.local_name(c["recv"]) or ("",))[0] == OUT]
    conts = [c for c in hir_walk(body) if c.get("k") in ("Continue", "Break", "Ret")]
    # the push is directly inside `if val.unit == unit.unit`
    ok_push = False
    for kind, node in stm:
        e = node if kind != "let" else None
        if e and e.get("k") == "If" and e["cond"].get("k") == "Binary" and e["cond"]["op"] == "Eq":
            sides = {H.expr_str(e["cond"]["a"]), H.expr_str(e["cond"]["b"])}
            inner = [c for c in H.method_calls(e["then"], "push") if (H.local_name(c["recv"]) or ("",))[0] == OUT]
            if sides == {"val.unit", "unit.unit"} and len(inner) == 1 and e.get("else") is None:
                ok_push = True
    mir = units_for_mir(facts.CURRENT) if not (ok_push and len(pushes) == 1) or not (len(conts) == 1) else None
    if mir is not None and not (ok_push and len(pushes) == 1):
        # not the spelling the HIR reading knows (other names, `!is_alias && ..`): the MIR reading decides
        ok_push = mir["push"][0] and len(pushes) == 1
    chk.decide(ok_push and len(pushes) == 1, "units-for-filter", FK, "push-behind-equal-dimensionality", where,
               "a unit is listed only behind `val.unit == unit.unit`", "the listing push is not (only) behind `val.unit == unit.unit` (%d pushes in the loop)" % len(pushes))
    # the only skip: alias test
    ok_skip = False
    if len(conts) == 1 and conts[0]["k"] == "Continue":
        for kind, node in stm:
            e = node if kind != "let" else None
            if e and e.get("k") == "If" and e["cond"].get("k") == "Let":
                ptxt = H.pat_str(e["cond"]["pat"])
                init = H.expr_str(e["cond"]["init"])
                if "Option::Some(&Expr::Unit{" in ptxt and init == "ctx.registry.definitions.get(name)" and [c for c in hir_walk(e["then"]) if c.get("k") == "Continue"]:
                    ok_skip = True
    if not ok_skip and mir is not None:
        ok_skip = mir["skip"][0]
    chk.decide(ok_skip, "units-for-filter", FK, "skips-only-pure-aliases", where,
               "the only unit skipped is one whose own definition is a bare unit name (a pure alias); units without a definition are kept",
               "units are skipped for a reason other than `definitions.get(name) == Some(Expr::Unit)` (%d continue/break/return in the loop)" % len(conts))
    # no adaptor that could drop candidates
    mc = [m["name"] for m in H.method_calls(it)]
    chk.decide(mc == ["iter"], "units-for-filter", FK, "no-dropping-adaptor", where, "no filtering adaptor on the candidate iterator", "candidate iterator uses %s" % mc)
    return line, pushes, OUT


DROPPING = {"filter", "filter_map", "skip", "take", "step_by", "skip_while", "take_while", "map_while", "flat_map", "flatten", "nth", "rev",
            "find", "find_map", "last", "next", "zip", "dedup", "dedup_by_key", "retain", "truncate"}


def units_for_pipeline(chk, fn, arm):
    """`let out = ctx.registry.units.iter().<adaptors>.collect()`: every way an adaptor can drop a unit must be the
    dimensionality test or the pure-alias test."""
    body = H.simplify(arm["body"])
    init = None
    for kind, n in H.stmts_of(body):
        if kind == "let" and n.get("init") and n["pat"].get("name"):
            e0 = n["init"]
            while e0.get("k") == "MethodCall":
                e0 = e0["recv"]
            if H.expr_str(e0) == "ctx.registry.units":
                init = n
    if init is None:
        raise AnchorLost("UnitsFor arm: neither a loop over ctx.registry.units nor `let out = <iterator chain>`")
    line = init["line"]
    where = "%s:%d" % (fn.file, line)
    chain = []
    e = init["init"]
    while e.get("k") == "MethodCall":
        chain.append(e)
        e = e["recv"]
    chain.reverse()
    if H.expr_str(e) != "ctx.registry.units" or not chain or chain[0]["name"] != "iter" or chain[-1]["name"] != "collect":
        raise AnchorLost("UnitsFor arm: `out` is not built as ctx.registry.units.iter()...collect() (%s)" % H.expr_str(init["init"], 80))
    chk.ok("units-for-filter", FK, "iterates-all-units", where, "every registered unit enters the pipeline")
    reasons = []
    for m in chain[1:-1]:
        nm = m["name"]
        if nm == "map" or nm in ("copied", "cloned", "by_ref", "into_iter", "peekable", "enumerate", "inspect"):
            continue
        if nm not in ("filter", "filter_map") or len(m["args"]) != 1 or m["args"][0].get("k") != "Closure":
            if nm in DROPPING:
                chk.finding("units-for-filter", FK, "no-dropping-adaptor", where, "the candidate pipeline uses `.%s(..)`, which can drop units" % nm)
                continue
            raise AnchorLost("UnitsFor arm: unknown adaptor .%s() in the candidate pipeline" % nm)
        cb = m["args"][0]["body"]
        if cb.get("k") == "Block" and not cb["stmts"] and cb.get("expr"):
            cb = cb["expr"]
        if nm == "filter":
            if cb.get("k") == "Binary" and cb["op"] == "Eq" and {H.expr_str(cb["a"]), H.expr_str(cb["b"])} == {"val.unit", "unit.unit"}:
                reasons.append(("not", "val.unit==unit.unit", m["line"]))
            else:
                reasons.append(("not", H.expr_str(cb), m["line"]))
        else:
            for t in hir_walk(cb):
                if t.get("k") == "Try":
                    reasons.append(("none", H.expr_str(t["e"]), t["line"]))
            def nones(x, ctx):
                k = x.get("k")
                if k == "Path" and x["r"].get("ctor_of", "").endswith("Option::None"):
                    reasons.append(ctx + (x["line"],))
                elif k == "Block":
                    if x.get("expr"):
                        nones(x["expr"], ctx)
                elif k == "Match" and x.get("src") == "Normal":
                    sc = x["scrut"]
                    if sc.get("k") == "Unary" and sc.get("op") == "Deref" and sc["a"].get("k") == "Try":
                        stxt = "*" + H.expr_str(sc["a"]["e"]) + "?"
                    else:
                        stxt = H.expr_str(sc)
                    for a in x["arms"]:
                        nones(a["body"], ("match", stxt + " ~ " + H.pat_str(a["pat"])))
                elif k == "If":
                    c = x["cond"]
                    ctxt = ("match", H.expr_str(c["init"]) + " ~ " + H.pat_str(c["pat"])) if c.get("k") == "Let" else ("if", H.expr_str(c))
                    nones(x["then"], ctxt)
                    if x.get("else"):
                        nones(x["else"], ("else", ctxt[1]))
            nones(cb, ("always", ""))
    dim = alias = False
    for r in reasons:
        kind, txt, ln = r[0], r[1], r[-1]
        t = txt.replace(" ", "")
        if kind == "not" and t in ("val.unit==unit.unit", "unit.unit==val.unit"):
            dim = True
        elif kind == "match" and "ctx.registry.definitions.get(name)" in t and "~" in t and "Expr::Unit" in t.split("~")[1] \
                and not t.split("~")[0].endswith("?") and "Try" not in t:
            alias = True
        elif kind == "match" and t.startswith("*ctx.registry.definitions.get(name)?~") and "Expr::Unit" in t.split("~")[1]:
            alias = True      # the `?` itself is reported through its own 'none' reason
        else:
            what = {"not": "`%s` is false", "none": "`%s` is None", "match": "%s", "if": "`%s` holds", "else": "`%s` does not hold", "always": "always%s"}[kind] % txt
            chk.finding("units-for-filter", FK, "skips-only-pure-aliases", "%s:%d" % (fn.file, ln),
                        "the candidate pipeline drops a unit when %s; only units of another dimensionality and pure aliases "
                        "(definitions.get(name) == Some(Expr::Unit)) may be left out, units without a definition are kept" % what)
    chk.decide(dim, "units-for-filter", FK, "push-behind-equal-dimensionality", where,
               "a unit is listed only behind `val.unit == unit.unit`", "no `val.unit == unit.unit` filter in the candidate pipeline")
    if alias and not any(i["verdict"] == "finding" and i["rule"] == "units-for-filter" for i in chk.instances):
        chk.ok("units-for-filter", FK, "skips-only-pure-aliases", where, "the only other unit dropped is a pure alias")
    return line, [], init["pat"]["name"]


def factorize(chk, F):
    fn = F.find(CORE, "commands::factorize::factorize")
    fk = "rink_core::commands::factorize::factorize"
    h = F.hir_of(fn)
    body = h["body"]
    stm = H.stmts_of(body)
    first = stm[0][1] if stm else None
    ok = False
    if first and first.get("k") == "If":
        ok = H.expr_str(first["cond"]) == "value.dimless()" and bool([r for r in hir_walk(first["then"]) if r.get("k") == "Ret"]) and \
            "Factors(0, " in H.expr_str(first["then"], 400)
        empties = [c for c in hir_walk(body) if c.get("k") == "Call" and "Factors(0," in H.expr_str(c, 60)[:40] and H.expr_str(c["f"], 40).endswith("Factors")]
        ok = ok and len(empties) == 1
    chk.decide(ok, "factorize-structure", fk, "empty-product-only-for-dimensionless", fn.where(),
               "the empty product is returned only when the value is dimensionless", "the empty product (base case) is not exactly `if value.dimless() { return {[]} }`")
    fl = for_loops(body)
    if len(fl) < 1:
        raise AnchorLost("factorize: no candidate loop")
    it, pat, lbody, line, loop = fl[0]
    ptxt = H.pat_str(pat).replace(" ", "")
    chk.decide(H.expr_str(it).startswith("quantities.iter()") and ptxt == "Option::Some{0:(unit,name)}", "factorize-structure", fk, "candidates-are-quantities", "%s:%d" % (fn.file, line),
               "candidates are the (dimensionality, name) pairs of the quantity table", "candidate loop is `for %s in %s`" % (ptxt, H.expr_str(it)))
    # decided on the MIR (names of locals, a push loop or an `extend(map(..))`, `take(10)` or `truncate(10)` read the same):
    # item = the (dimensionality, name) pair the candidate loop is at
    code = [fn] + F.closures_of(fn)
    divs = [(bb, t) for bb, t in fn.calls() if "callee" in t and t["callee"]["path"].endswith("arith::Div<&'b types::number::Number>>::div")]
    recs = [(bb, t) for bb, t in fn.calls() if "callee" in t and t["callee"]["path"].endswith("factorize::factorize")]
    divisor_ok = quot_ok = rec_ok = False
    item = None
    if len(divs) == 1 and len(recs) == 1:
        dv = fn.apath(divs[0][1]["args"][1])
        # Number { value: Numeric::one(), unit: clone(item.0) }
        if dv[0][0] == "agg" and str(dv[0][1]).endswith("number::Number::Number") and len(dv[0][2]) == 2 and not dv[1]:
            one, unit = dv[0][2]
            if one[0][0] == "call" and one[0][1].endswith("Numeric::one") and unit[0][0] == "call" and unit[0][1].endswith("Clone>::clone") and unit[0][2]:
                u = unit[0][2][0]
                if u[1][-3:-1] == ("as Some", "0") and u[1][-1] == "0" and "::next(" in ap_str(u) and "arg2" in ap_str(u):
                    item = (u[0], u[1][:-1])
                    divisor_ok = True
        quot_ok = divisor_ok and ap_str(fn.apath(divs[0][1]["args"][0])) == "arg1"
        ra = fn.apath(recs[0][1]["args"][0])
        while ra[0][0] == "call" and ra[0][2] and not ra[1] and ra[0][1].endswith(("Option::<T>::unwrap", "Option::<T>::expect")):
            ra = ra[0][2][0]
        rec_ok = quot_ok and k2._root_call_bb(ra) == divs[0][0] and not ra[1] and ap_str(fn.apath(recs[0][1]["args"][1])) == "arg2"
    # the name pushed onto every product of the recursion is the name paired with that unit: clone(item.1), in factorize or in a
    # closure of it that captured it
    name_pushes = 0
    other_pushes = []
    for g in code:
        cap = None
        if g is not fn:
            for i, j, st in fn.stmts():
                rv = st.get("rv", {})
                if rv.get("k") == "agg" and rv.get("agg") == "closure" and rv["closure"]["id"] == g.id:
                    cap = [fn.apath(o) for o in rv["ops"]]
        for bb, t in g.calls():
            if "callee" not in t or not t["callee"]["path"].endswith("Vec::<T, A>::push") or "String" not in (t["args"][1].get("move") or t["args"][1].get("copy") or {}).get("ty", "String"):
                continue
            v = g.apath(t["args"][1])
            if v[0][0] == "call" and v[0][1].endswith("Clone>::clone") and v[0][2]:
                src = v[0][2][0]
                if g is not fn and cap is not None and src[0] == ("arg", 1) and src[1] and str(src[1][0]).isdigit() and int(src[1][0]) < len(cap):
                    c0 = cap[int(src[1][0])]
                    src = (c0[0], c0[1] + src[1][1:])
                if item is not None and facts.ap_match(src, (item[0], item[1] + ("1",))):
                    name_pushes += 1
                    continue
            if "Rc<alloc::string::String>" in str(t["args"][1]) or "String" in str(t["args"][1].get("move", t["args"][1].get("copy", {})).get("ty", "")):
                other_pushes.append(ap_str(v)[-60:])
    chk.decide(divisor_ok and quot_ok and rec_ok and name_pushes == 1 and not other_pushes, "factorize-structure", fk, "name-paired-with-divisor", "%s:%d" % (fn.file, line),
               "each product divides the value by `unit`, recurses on that quotient and appends the `name` paired with the same `unit`",
               "the pushed quantity name, the divisor and the recursive argument are not tied to one (unit, name) pair (divisor %s, quotient %s, recursion %s, name pushes %d%s)" % (
                   divisor_ok, quot_ok, rec_ok, name_pushes, (", other names pushed: %s" % other_pushes) if other_pushes else ""))
    names_ = [t["callee"]["path"].split("::")[-1] for g in code for _, t in g.calls() if "callee" in t]
    cut = [t for _, t in fn.calls() if "callee" in t and (t["callee"]["path"].endswith(("Iterator::take", "Iterator>::take")) or t["callee"]["path"].endswith("Vec::<T, A>::truncate"))
           and (facts.const_of(t["args"][1]) or {}).get("int") == 10]
    order_ok = "into_sorted_vec" in names_ and "dedup" in names_ and bool(cut)
    chk.decide(order_ok, "factorize-structure", fk, "sort-dedup-take", "%s:%d" % (fn.file, line), "candidates are sorted, deduplicated and truncated to the best ten", "sort/dedup/take chain missing in factorize (%s)" % [m for m in names_ if m in ("into_sorted_vec", "dedup", "take", "truncate", "sort")])
    # eval_query's Factorize arm: sorted then dedup before building the reply
    efn, arm = query_arm(F, "Factorize")
    calls = [(c["line"], c["name"]) for c in H.method_calls(arm["body"]) if c["name"] in ("into_sorted_vec", "dedup", "sort", "dedup_by_key", "dedup_by")]
    names = [n for _, n in sorted(calls)]
    chk.decide(names[:2] == ["into_sorted_vec", "dedup"] or names[:2] == ["sort", "dedup"], "factorize-structure", FK, "reply-deduplicated", "%s:%d" % (efn.file, arm["line"]),
               "the reply list is sorted and deduplicated", "eval_query does not sort+dedup the factorizations (%s)" % names)
    fc = H.path_calls(arm["body"], "factorize::factorize")
    src_ok = len(fc) == 1 and "ctx.registry.quantities" in H.expr_str([s for k, s in H.stmts_of(arm["body"]) if k == "let" and s["pat"].get("name") == "quantities"][0]["init"], 200)
    chk.decide(src_ok, "factorize-structure", FK, "uses-quantity-table", "%s:%d" % (efn.file, arm["line"]), "factorize searches the registry's quantity table", "factorize is not given the registry's quantities")


def dedup_order(chk, F):
    """Vec::dedup only removes *adjacent* equal elements: the order used for sorting must be total and consistent with
    equality (equal elements adjacent).  BinaryHeap orders through PartialOrd's operators."""
    cands = [f for f in F.by_crate[CORE] if f.path == "<commands::factorize::Factors as core::cmp::PartialOrd>::partial_cmp"]
    if len(cands) != 1:
        raise AnchorLost("PartialOrd for Factors not found")
    fn = cands[0]
    derived = fn.raw.get("from_expansion")
    calls = [t["callee"]["path"] for _, t in fn.calls() if "callee" in t]
    full = any(p == "<commands::factorize::Factors as core::cmp::Ord>::cmp" for p in calls)
    chk.decide(derived or full, "dedup-total-order", "rink_core::commands::factorize::Factors", "partial_cmp-consistent-with-eq", fn.where(),
               "Factors' partial_cmp is the total order (score, then names): equal products are adjacent after sorting, so dedup() removes every duplicate",
               "Factors' partial_cmp compares %s only: products with equal score are not ordered, so dedup() after into_sorted_vec() leaves duplicates" % [p.split("::")[-1] for p in calls])
    ords = [f for f in F.by_crate[CORE] if f.path == "<commands::factorize::Factors as core::cmp::Ord>::cmp"]
    chk.decide(len(ords) == 1 and ords[0].raw.get("from_expansion"), "dedup-total-order", "rink_core::commands::factorize::Factors", "ord-derived", ords[0].where() if ords else "",
               "Ord for Factors is derived (lexicographic over score and names, consistent with the derived Eq)", "Ord for Factors is not the derived order")
