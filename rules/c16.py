"""C16 Substance properties scale linearly and invert.  DESIGN.md section 4, C16."""
import cg
import facts
import hirutil as H
import k2
import numtree
from c02 import unit_test
from facts import AnchorLost, ap_str, ap_calls, hir_walk

CORE = "rink_core"
SUB = "runtime::substance::Substance::"

DIMLESS_AMOUNT = {"div(mul(A,O),I)", "mul(A,O)"}
# output*(a/input) as the property states it: the amount is a dividend, never a divisor (an amount of zero is 0, not an error)
DIMENSIONED_AMOUNT = {"div(A,I)", "div(A,O)", "mul(O,div(A,I))", "mul(I,div(A,O))"}
AMOUNT_AS_DIVISOR = {"div(I,A)", "div(O,A)", "div(O,div(I,A))", "div(I,div(O,A))"}


def role_trees(fn):
    _, allt = numtree.maximal_trees(fn)
    import re
    return {t for t in allt.values() if re.fullmatch(r"[a-z(),IOA]+", t)}


def run(chk, F):
    chk.explanation = (
        "Refusal and formula-shape clauses decided on MIR/HIR: Substance::get returns a number for a dimensioned amount only "
        "behind dimless() of the amount/property ratio and otherwise the Conformance error carrying the amount and the property's "
        "own side; the three near-copies of the property arithmetic (Substance::get, to_reply, get_in_unit) are compared as "
        "role-normalised operation trees over (amount, input, output) against the reference set {output*amount/input} and "
        "{amount/input, amount/output, output*(amount/input), input*(amount/output)} (the property's own formula: the amount is never "
        "a divisor) - a ratio inverted in one copy makes the siblings disagree; in the copies for a dimensionless amount every "
        "reported output carries the amount; Mul/Div of a substance by a number change only `amount` and share `properties`; Expr::Of maps the two "
        "error kinds; substance_from_formula rejects any token that is not a known symbol (optionally followed by a count), adds "
        "count x molar_mass of the same symbol for every symbol occurrence, and returns Some only after at least one symbol; "
        "every symbol registered in substance_symbols names a registered substance. Linearity over all ~200 database substances "
        "and that the shared ratio is the right one are data/values and not decided.")
    chk.guard("sibling-trees", "substance", lambda: siblings(chk, F))
    chk.guard("get-gates", "Substance::get", lambda: get_gates(chk, F))
    chk.guard("scaling", "Mul/Div", lambda: scaling(chk, F))
    chk.guard("of-errors", "eval_expr", lambda: of_errors(chk, F))
    chk.guard("formula-shape", "substance_from_formula", lambda: formula(chk, F))
    chk.guard("symbol-invariant", "load_defs", lambda: symbol_invariant(chk, F))
    chk.guard("mixture-weights", "Add for &Substance", lambda: mixture_weights(chk, F))
    import datafiles
    chk.guard("element-symbols", "data", lambda: datafiles.element_symbols(chk))


def siblings(chk, F):
    n = 0
    for name in ("get", "to_reply", "get_in_unit"):
        # (private helpers the arithmetic has been moved into are put back: one copy per call, with that call's operands)
        fn = F.find(CORE, SUB + name, inline=True, keep=("Option::<T>", "Result::<T, E>", "Iterator", "bool>::then", "conformance_err"))
        for g in [fn] + F.closures_of(fn):
            ts = role_trees(g)
            if not ts:
                continue
            n += 1
            fk = "rink_core::" + g.path
            if "mul(A,O)" in ts or any(t.startswith("div(mul") for t in ts):
                chk.decide(ts == DIMLESS_AMOUNT, "sibling-trees", fk, "dimensionless-amount-copy", g.where(),
                           "property value for a dimensionless amount is output * amount / input",
                           "this copy computes %s, the reference (and its siblings) compute %s" % (sorted(ts), sorted(DIMLESS_AMOUNT)))
            else:
                chk.decide(ts == DIMENSIONED_AMOUNT, "sibling-trees", fk, "dimensioned-amount-copy", g.where(),
                           "for a dimensioned amount: amount/input, amount/output, then output*(amount/input) or input*(amount/output)",
                           ("this copy divides by the amount (%s): `energy_LHV of (0 gallon gasoline)`, `0 kg egg` and `0 gallon gasoline -> btu` answer "
                            "\"Division by zero\" instead of 0; the property's formula is output*(a/input)" % sorted(ts)) if ts & AMOUNT_AS_DIVISOR else
                           "this copy computes %s, the reference (and its siblings) compute %s" % (sorted(ts), sorted(DIMENSIONED_AMOUNT)))
    if n != 6:
        chk.anchor_lost("sibling-trees", "rink_core::runtime::substance", "expected 6 copies of the property arithmetic (2 in each of get, to_reply, get_in_unit), found %d" % n)
    # which name goes with which tree (to_reply / get_in_unit dimensioned closures and get)
    for name in ("to_reply", "get_in_unit"):
        fn = F.find(CORE, SUB + name)
        for g in F.closures_of(fn):
            if role_trees(g) == DIMLESS_AMOUNT:
                scaled_ratio(chk, g)
            if role_trees(g) != DIMENSIONED_AMOUNT and not (role_trees(g) & AMOUNT_AS_DIVISOR):
                continue
            pairs = name_pairs(F, g)
            okp = pairs in ({"output_name": "mul(O,div(A,I))", "input_name": "mul(I,div(A,O))"}, {"output_name": "div(O,div(I,A))", "input_name": "div(I,div(O,A))"})
            chk.decide(okp, "sibling-trees", "rink_core::" + g.path, "name-goes-with-tree", g.where(),
                       "the value reported under output_name is output*(amount/input); under input_name it is input*(amount/output)",
                       "name/value pairing is %s" % pairs)


def scaled_ratio(chk, g):
    """`multiplying or dividing a substance by a number scales every reported property by the same factor`: in the copy for a
    dimensionless amount every (input, output) pair that becomes a reply carries the amount in its output - also the ratio
    properties, which are shown as output per input (`2 water` listed density 1000 kg/m^3 while `density of (2 water)` is 2000)."""
    n = 0
    for i, j, st in g.stmts():
        rv = st.get("rv", {})
        if rv.get("k") == "agg" and rv.get("agg") == "tuple" and len(rv["ops"]) == 2:
            tr = numtree.tree(g.apath(rv["ops"][1]))
            if tr.startswith("?") or not set(tr) & set("IOA"):
                continue
            n += 1
            chk.decide("A" in tr, "scaling", "rink_core::" + g.path, "reported-value-carries-the-amount#%d" % n, g.where(i, j),
                       "the reported output is %s" % tr,
                       "the reported output is %s, which does not depend on the amount: `2 water` and `water / 2` list the ratio properties of 1 water" % tr)
    if n < 2:
        raise AnchorLost("%s: expected the (input, output) pairs of both kinds of property, found %d" % (g.path, n))


def name_pairs(F, g):
    """In a closure building (name, _, div) tuples: which name clone is paired with which tree."""
    out = {}
    for i, j, st in g.stmts():
        rv = st.get("rv", {})
        if rv.get("k") == "agg" and rv.get("agg") == "tuple" and len(rv["ops"]) == 3:
            a = g.apath(rv["ops"][0])
            c = g.apath(rv["ops"][2])
            s = ap_str(a)
            nm = "output_name" if ".output_name" in s else "input_name" if ".input_name" in s else None
            if nm:
                out[nm] = numtree.tree(c)
    return out


def get_gates(chk, F):
    fn = F.find(CORE, SUB + "get", inline=True, keep=("Option::<T>", "Result::<T, E>", "Iterator", "bool>::then", "conformance_err"))
    fk = "rink_core::" + SUB + "get"
    # Ok(res) returns in the dimensioned branch
    oks = []
    errs = []
    # the return slot, and the return slots of the helpers put back in place (they are moved into it)
    flows = {0}
    grew = True
    while grew:
        grew = False
        for i, j, st in fn.stmts():
            rv = st.get("rv", {})
            if st["k"] == "assign" and st["place"]["l"] in flows and not st["place"]["p"] and rv.get("k") == "use":
                pl = facts.place_of(rv["a"])
                if pl and not pl["p"] and pl["l"] not in flows:
                    flows.add(pl["l"])
                    grew = True
    for i, j, st in fn.stmts():
        rv = st.get("rv", {})
        if st["k"] == "assign" and st["place"]["l"] in flows and not st["place"]["p"] and rv.get("k") == "agg" and rv.get("adt", "").endswith("result::Result"):
            if rv["variant"] == "Ok":
                oks.append((i, numtree.tree(fn.apath(rv["ops"][0]))))
            else:
                ap = fn.apath(rv["ops"][0])
                errs.append((i, ap))
    want = {"mul(O,div(A,I))": ("div(A,I)", "output_name"), "mul(I,div(A,O))": ("div(A,O)", "input_name")}
    if not any(tr in want for _, tr in oks):
        want = {"div(O,div(I,A))": ("div(I,A)", "output_name"), "div(I,div(O,A))": ("div(O,A)", "input_name")}   # reported by sibling-trees
    seen = set()
    for bb, tr in oks:
        if tr not in want:
            continue
        seen.add(tr)
        ratio, nm = want[tr]
        gs = [fn.guard_desc(g) for g in fn.guards_of(bb)]
        dl = [d for d in gs if d[0] == "bool" and d[2] is True and d[1][0][0] == "call" and d[1][0][1].endswith("Number::dimless") and numtree.tree(d[1][0][2][0]) == ratio]
        chk.decide(bool(dl), "get-gates", fk, "number-only-if-ratio-dimensionless:" + nm, fn.where(bb),
                   "%s is returned only behind dimless(%s)" % (tr, ratio), "a number is returned for `%s` without the amount being conformable with the property (no dimless(%s) gate)" % (nm, ratio))
        nt = [d for d in gs if d[0] == "bool" and d[2] is True and ("." + nm) in ap_str(d[1]) and "PartialEq" in ap_str(d[1])]
        if not nt:
            # the property was *found* by `name == output_name || name == input_name` (an iterator `find`), and this side is the one
            # where the name is not the other name
            other = "input_name" if nm == "output_name" else "output_name"
            not_other = [d for d in gs if d[0] == "bool" and d[2] is False and ("." + other) in ap_str(d[1]) and "PartialEq" in ap_str(d[1]) and "::find(" in ap_str(d[1])]
            both = False
            for c in F.closures_of(fn):
                tests = " ".join(ap_str(c.apath(a)) + " " + t_["callee"]["path"] for _, t_ in c.calls() if "callee" in t_ and "PartialEq" in t_["callee"]["path"] for a in t_["args"])
                both = both or (".output_name" in tests and ".input_name" in tests and "PartialEq" in tests)
            if not_other and both:
                nt = not_other
        chk.decide(bool(nt), "get-gates", fk, "name-test:" + nm, fn.where(bb), "this value is returned for `name == prop.%s`" % nm, "%s is not tied to the test name == prop.%s" % (tr, nm))
    if seen != set(want):
        chk.anchor_lost("get-gates", fk, "Substance::get does not return both output*(amount/input) and input*(amount/output): %s" % [t for _, t in oks])
    # Conformance errors carry (amount, property's own side)
    conf = []
    for i, j, st in fn.stmts():
        rv = st.get("rv", {})
        if rv.get("k") == "agg" and rv.get("adt", "").endswith("SubstanceGetError") and rv["variant"] == "Conformance":
            a, b = numtree.tree(fn.apath(rv["ops"][0])), numtree.tree(fn.apath(rv["ops"][1]))
            gs = [fn.guard_desc(g) for g in fn.guards_of(i)]
            ratio = [numtree.tree(d[1][0][2][0]) for d in gs if d[0] == "bool" and d[2] is False and d[1][0][0] == "call" and d[1][0][1].endswith("Number::dimless")]
            conf.append((i, a, b, ratio))
    okc = sorted((a, b, tuple(x for x in r if x.startswith("div"))) for _, a, b, r in conf) in (
        [("A", "I", ("div(A,I)",)), ("A", "O", ("div(A,O)",))], [("A", "I", ("div(I,A)",)), ("A", "O", ("div(O,A)",))])
    chk.decide(okc, "get-gates", fk, "conformance-error-operands", fn.where(conf[0][0]) if conf else fn.where(),
               "a non-conformable amount yields Conformance(amount, the property's input) resp. (amount, the property's output) on the failing edge of the same test",
               "Conformance errors of Substance::get are %s" % [(a, b, r) for _, a, b, r in conf])


def scaling(chk, F):
    for op, tr in (("Mul", "mul(A,arg2)"), ("Div", "div(A,arg2)")):
        fn = F.find(CORE, "<&'a runtime::substance::Substance as core::ops::arith::%s<&'b types::number::Number>>::%s" % (op, op.lower()), exact=True)
        fk = "rink_core::Substance::" + op.lower()
        ok = False
        detail = ""
        for i, j, st in fn.stmts():
            rv = st.get("rv", {})
            if rv.get("k") == "agg" and rv.get("adt") == "runtime::substance::Substance":
                fields = dict(zip(rv["fields"], rv["ops"]))
                a = numtree.tree(fn.apath(fields["amount"]))
                p = ap_str(fn.apath(fields["properties"]))
                detail = "amount=%s properties=%s" % (a, p[:80])
                ok = a == tr and p.startswith("<alloc::sync::Arc<T, A> as core::clone::Clone>::clone(arg1.properties)")
        chk.decide(ok, "scaling", fk, "only-amount-changes", fn.where(), "scaling a substance changes only `amount` (%s) and shares `properties`" % tr, "substance %s builds %s" % (op, detail))


def of_errors(chk, F):
    fn = F.find(CORE, "runtime::eval::eval_expr")
    h = F.hir_of(fn)
    found = False
    for m in hir_walk(h["body"]):
        if m.get("k") == "Match" and m.get("src") == "Normal":
            pats = [H.pat_str(a["pat"]) for a in m["arms"]]
            if any(p.startswith("SubstanceGetError::Generic") for p in pats):
                found = True
                table = {}
                for a in m["arms"]:
                    p = H.pat_str(a["pat"])
                    b = H.expr_str(a["body"], 200)
                    table[p.split("(")[0].split("::")[-1]] = b
                ok = table.get("Generic", "").startswith("QueryError::generic(") and table.get("Conformance", "").lstrip("{ ").startswith("QueryError::Conformance(") and "conformance_err(ctx, &l, &r)" in table.get("Conformance", "")
                chk.decide(ok, "of-errors", "rink_core::runtime::eval::eval_expr", "error-mapping", "%s:%d" % (fn.file, m["line"]),
                           "`x of y`: Generic -> generic error, Conformance(l, r) -> conformance error of the same operands", "Expr::Of maps substance errors as %s" % table)
    if not found:
        raise AnchorLost("eval_expr has no match over SubstanceGetError")


def formula(chk, F):
    fn = F.find(CORE, "parsing::formula::substance_from_formula")
    fk = "rink_core::parsing::formula::substance_from_formula"
    h = F.hir_of(fn)
    # decided on the MIR, so that a match guard `if symbols.contains_key(sym)`, a `symbols.get(&sym)?` and a `let .. else` read
    # the same: the molar mass is asked of  substances[ symbols[ <this token> as Symbol .0 ] ], and that lookup is reached only
    # for a Symbol token that the symbol table knows
    gets = [(bb, t) for bb, t in fn.calls() if "callee" in t and t["callee"]["path"].endswith("substance::Substance::get")]
    if len(gets) != 1:
        raise AnchorLost("substance_from_formula: expected one Substance::get (the molar mass of an element), found %d" % len(gets))
    gb, gt = gets[0]
    recv = fn.apath(gt["args"][0])
    def peel(ap):
        while ap[0][0] == "call" and ap[0][2] and not ap[1] and ap[0][1].endswith(("Option::<T>::unwrap", "Try>::branch", "Option::<T>::expect")):
            ap = ap[0][2][0]
        if ap[1][-2:] == ("as Continue", "0") or ap[1][-2:] == ("as Some", "0"):
            ap = (ap[0], ap[1][:-2])
            return peel(ap)
        return ap
    outer = peel(recv)
    same_sym = False
    known = False
    tok_txt = None
    if outer[0][0] == "call" and outer[0][1].endswith("BTreeMap::<K, V, A>::get") and ap_str(outer[0][2][0]) == "arg3":
        inner = peel(outer[0][2][1])
        if inner[0][0] == "call" and inner[0][1].endswith("BTreeMap::<K, V, A>::get") and ap_str(inner[0][2][0]) == "arg2":
            key = inner[0][2][1]
            same_sym = key[1][-2:] == ("as Symbol", "0")
            tok_txt = ap_str((key[0], key[1][:-2]))
            sym_txt = ap_str(key)
            for g in fn.guards_of(gb):
                d = fn.guard_desc(g)
                txt = ap_str(d[1])
                if d[0] == "bool" and d[2] is True and "contains_key(arg2, " in txt and facts.ap_contains(d[1], key):
                    known = True
                if d[0] == "variant" and d[3] in ("Some", "Continue") and "::get(arg2, " in txt and facts.ap_contains(d[1], key):
                    known = True
    tok = (key[0], key[1][:-2]) if tok_txt is not None else None
    sym_edge = any(fn.guard_desc(g)[0] == "variant" and fn.guard_desc(g)[3] == "Symbol" and (tok is None or facts.ap_match(fn.guard_desc(g)[1], tok)) for g in fn.guards_of(gb))
    chk.decide(sym_edge and known, "formula-shape", fk, "unknown-token-is-not-a-formula", fn.where(gb),
               "a molar mass is looked up only for a Symbol token that the symbol table knows; anything else ends with None",
               "substance_from_formula accepts something other than known symbols (Symbol edge: %s, symbol known: %s)" % (sym_edge, known))
    chk.decide(same_sym, "formula-shape", fk, "mass-of-the-matched-symbol", fn.where(gb),
               "the substance looked up is the one registered for the matched symbol", "the molar mass added is not that of the matched symbol (%s)" % ap_str(recv)[:160])
    # MIR: total = total + (molar_mass * count)
    ts = numtree.maximal_trees(fn)[1]
    vals = set(ts.values())
    has = any(t.startswith("add(") and "mul(" in t for t in vals)
    sums = [t for t in vals if t.startswith("add(")]
    chk.decide(has, "formula-shape", fk, "count-weighted-sum", fn.where(), "total += molar_mass x count for every symbol occurrence (%s)" % sums, "the running total is not total + molar_mass * count (%s)" % sorted(vals))
    # the running total is accumulated, not overwritten per symbol: the add's operand is the running total itself
    acc_ok = False
    for bb, t in numtree.arith_calls(fn):
        if t["callee"]["path"].endswith(numtree.ADD):
            import c03
            l = c03.underlying_local(fn, t["args"][0])
            # result assigned back to the same local
            for i, j, st in fn.stmts():
                if st["k"] == "assign" and st["place"]["l"] == l and not st["place"]["p"] and st["rv"]["k"] == "use":
                    ap = fn.apath(st["rv"]["a"])
                    if k2._root_call_bb(ap[0][2][0]) == bb if ap[0][0] == "call" and ap[0][2] else False:
                        acc_ok = True
    chk.decide(acc_ok, "formula-shape", fk, "accumulates", fn.where(), "the sum is accumulated into the running total", "the running total is not updated from `total + term`")
    # every occurrence contributes: no map keyed by symbol (overwrite) between tokens and the sum
    maps = [t["callee"]["path"] for _, t in fn.calls() if "callee" in t and "BTreeMap" in t["callee"]["path"] and t["callee"]["path"].endswith(("::insert", "::entry"))]
    props_only = all(True for _ in maps)
    ins_in_loop = []
    loops = [l for l in hir_walk(h["body"]) if l.get("k") == "Loop"]
    for l in loops:
        for c in H.method_calls(l["body"], "insert"):
            ins_in_loop.append(H.expr_str(c, 60))
    chk.decide(not ins_in_loop, "formula-shape", fk, "no-per-symbol-overwrite", fn.where(), "no keyed insert inside the token loop (a repeated symbol is added again, not overwritten)",
               "the token loop inserts into a keyed container (%s): a repeated element symbol would overwrite its earlier count" % ins_in_loop)
    # Some only after at least one symbol
    some_ret = []
    for i, j, st in fn.stmts():
        rv = st.get("rv", {})
        if st["k"] == "assign" and st["place"]["l"] == 0 and rv.get("k") == "agg" and rv.get("variant") == "Some":
            some_ret.append(i)
    ok = False
    if some_ret:
        for g in fn.guards_of(some_ret[0]):
            d = fn.guard_desc(g)
            if d[0] == "bool" and d[1][0][0] == "local" and not d[1][1]:
                flag = d[1][0][1]
                want = d[2]
                sets = []
                for i, j, st in fn.stmts():
                    if st["k"] == "assign" and st["place"]["l"] == flag and not st["place"]["p"] and st["rv"]["k"] == "use":
                        c = st["rv"]["a"].get("const")
                        if c is not None and "int" in c:
                            sets.append((i, bool(c["int"])))
                trues = [i for i, v in sets if v == want]
                inits = [i for i, v in sets if v != want]
                in_arm = all(any(dd[0] == "variant" and dd[3] == "Symbol" for dd in [fn.guard_desc(x) for x in fn.guards_of(i)]) for i in trues)
                ok = bool(trues) and bool(inits) and in_arm
    chk.decide(ok, "formula-shape", fk, "some-needs-a-symbol", fn.where(some_ret[0]) if some_ret else fn.where(),
               "Some(substance) is returned only behind a flag that is set exclusively in the known-symbol arm (the empty name is not a formula)",
               "substance_from_formula can return Some without having seen any element symbol (zero-iteration path): the empty name is treated as a formula of molar mass 0")


def hirpp_text(e):
    import hirpp
    return "\n".join(hirpp.tree(e))


def symbol_invariant(chk, F):
    fn = F.find(CORE, "loader::load::load_defs")
    fk = "rink_core::loader::load::load_defs"
    sym = [(bb, t) for bb, t in fn.calls() if "callee" in t and t["callee"]["path"].endswith("BTreeMap::<K, V, A>::insert") and fn.apath(t["args"][0])[1][-1:] == ("substance_symbols",)]
    sub = [(bb, t) for bb, t in fn.calls() if "callee" in t and t["callee"]["path"].endswith("BTreeMap::<K, V, A>::insert") and fn.apath(t["args"][0])[1][-1:] == ("substances",)]
    if len(sym) != 1 or not sub:
        raise AnchorLost("load_defs: expected one insert into substance_symbols and inserts into substances (found %d, %d)" % (len(sym), len(sub)))
    (sb, st) = sym[0]
    dom = [(ub, ut) for ub, ut in sub if fn.dominates(ub, sb)]
    if not dom:
        chk.finding("symbol-invariant", fk, "symbol-names-registered-substance", fn.where(sb), "no insert into `substances` dominates the insert into `substance_symbols`")
        return
    (ub, ut) = dom[-1]
    v = ap_str(fn.apath(st["args"][2]))
    k = ap_str(fn.apath(ut["args"][1]))
    chk.decide(fn.dominates(ub, sb) and v == k, "symbol-invariant", fk, "symbol-names-registered-substance", fn.where(sb),
               "a symbol is registered only after, and for the same name as, the substance insert (%s)" % k[:60],
               "substance_symbols can name a substance that was not inserted (value %s vs key %s, dominance %s)" % (v[:60], k[:60], fn.dominates(ub, sb)))
    # no other writer of those two maps
    for g, bb, j, f, how in cg.field_writes(F, "loader::registry::Registry", {"substance_symbols", "substances"}):
        chk.decide(g.id == fn.id, "symbol-invariant", "%s::%s" % (g.crate, g.path), "writer:" + f, g.where(bb, j), "written by load_defs", "Registry.%s is written outside load_defs" % f)


def mixture_weights(chk, F):
    """`a X + b Y` builds every shared property as a*X.p + b*Y.p: the amounts are weights, and a dimensioned weight would be
    multiplied into the dimension of every property (`molar_mass of (3 kg hydrogen + 2 kg oxygen)` came out in kg^2/mol).
    The properties may only be built behind `amount.dimless()` of both operands."""
    fns = [f for f in F.by_crate[CORE] if f.path.endswith("core::ops::arith::Add<&'b runtime::substance::Substance>>::add") and "{closure" not in f.path]
    if len(fns) != 1:
        raise AnchorLost("Add for &Substance not found")
    fn = fns[0]
    fk = "rink_core::<&Substance as Add<&Substance>>::add"
    # the construction of the result (the closure that builds the properties is created there)
    # where the summed properties are built: a `Property { .. }` in add itself (a loop over the shared properties), or the
    # creation of the closure that builds them (a filter_map over them)
    def builds_property(g):
        return any(st.get("rv", {}).get("k") == "agg" and str(st["rv"].get("adt", "")).endswith("substance::Property") for _, _, st in g.stmts())
    with_prop = {c.id for c in F.closures_of(fn) if builds_property(c)}
    sites = [i for i, j, st in fn.stmts() if st.get("rv", {}).get("k") == "agg" and st["rv"].get("agg") == "closure" and st["rv"]["closure"]["id"] in with_prop]
    sites += [i for i, j, st in fn.stmts() if st.get("rv", {}).get("k") == "agg" and str(st["rv"].get("adt", "")).endswith("substance::Property")]
    if not sites:
        raise AnchorLost("Add for &Substance: the construction of the summed properties was not found (in add or in a closure of it)")
    ok = True
    need = {}
    for bb in sorted(set(sites)):
        need = {"arg1.amount": False, "arg2.amount": False}
        for g in fn.guards_of(bb):
            d = fn.guard_desc(g)
            if d[0] == "bool" and d[1][0][0] == "call" and d[1][0][1].endswith("Number::dimless") and d[2] is True:
                a = ap_str(d[1][0][2][0])
                if a in need:
                    need[a] = True
        ok = ok and all(need.values())
        if not ok:
            break
    chk.decide(ok, "mixture-weights", fk, "amounts-dimensionless", fn.where(sites[0]),
               "the summed properties are built only when both amounts are dimensionless",
               "substances are added with their amounts as weights but the amounts are not required to be dimensionless (%s): a dimensioned amount "
               "ends up in the dimension of every property of the sum" % [k for k, v in need.items() if not v])
