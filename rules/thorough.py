"""Thorough tier: what is added on top of the quick rule sets.

(a) checker self-test: every confirmed seeded change of this property (seeded/<ID>-m*/) is applied to a scratch copy of
    /repo's *current* working tree (outside /repo and /verif), facts are re-extracted from that copy and the property's
    rule set must report it.  This is a test of the checker, not of the property: a miss is printed as SELFTEST-MISS and
    recorded in the evidence, it never produces a VIOLATION line.
(b) C15: the type-level witnesses in witness/ (compile_fail doc-tests with error codes + the compiling twin) are compiled
    against /repo's core crate with the nightly rustdoc.
(c) C04/C13: K1's panic-site inventory is cross-checked for completeness against clippy's opt-in restriction lints
    (unwrap_used, expect_used, panic, todo, unimplemented, unreachable, indexing_slicing, string_slice): every clippy
    site inside a function K1 analysed must be a K1 site.  clippy gives no verdict; it only audits the inventory.
"""
import json
import os
import re
import shutil
import subprocess

import facts

VERIF = facts.VERIF


def run(chk, F, pid):
    chk.extra["thorough"] = {}
    selftest(chk, pid)
    if pid == "C15":
        chk.guard("witness", "rink-witness", lambda: witness(chk))
    if pid in ("C04", "C13"):
        chk.guard("inventory-audit", "clippy", lambda: clippy_audit(chk, F, pid))


# --------------------------------------------------------------------------------------------------------------

def scratch_copy(name):
    dst = os.path.join(facts.WORK, "scratch", name)
    shutil.rmtree(dst, ignore_errors=True)
    os.makedirs(dst)
    for f in facts.repo_files(facts.REPO):
        src = os.path.join(facts.REPO, f)
        if not os.path.isfile(src):
            continue
        d = os.path.join(dst, f)
        os.makedirs(os.path.dirname(d), exist_ok=True)
        shutil.copy2(src, d)
    subprocess.run(["git", "init", "-q"], cwd=dst, check=True)
    return dst


def selftest(chk, pid):
    sdir = os.path.join(VERIF, "seeded")
    out = {}
    for sid in sorted(os.listdir(sdir) if os.path.isdir(sdir) else []):
        mp = os.path.join(sdir, sid, "meta.json")
        if not os.path.exists(mp):
            continue
        meta = json.load(open(mp))
        if meta.get("property") != pid:
            continue
        if meta.get("neutral_on_repaired_tree"):
            out[sid] = "skipped: behaviour-neutral on the repaired tree"
            continue
        patch = os.path.join(sdir, sid, "patch_current.diff")
        if not os.path.exists(patch):
            patch = os.path.join(sdir, sid, "patch.diff")
        dst = scratch_copy(sid)
        try:
            # the scratch copy holds the files the analysis reads; a change may also touch others (the manual), which are left out
            touched = re.findall(r"^diff --git a/(\S+) b/", open(patch).read(), re.M)
            skip = ["--exclude=" + f for f in touched if not os.path.exists(os.path.join(dst, f)) and not f.endswith((".rs", ".units", ".txt", ".toml"))]
            r = subprocess.run(["git", "apply"] + skip + [patch], cwd=dst, capture_output=True, text=True)
            if r.returncode != 0:
                r = subprocess.run(["patch", "-p1", "-s", "-i", patch], cwd=dst, capture_output=True, text=True)
            if r.returncode != 0:
                out[sid] = "skipped: the seeded patch no longer applies to the current tree"
                continue
            env = dict(os.environ, VERIF_REPO=dst, VERIF_NO_EVIDENCE="1", VERIF_TIER="quick")
            r = subprocess.run([os.path.join(VERIF, "bin", "check"), pid, "--tier", "quick"], env=env, capture_output=True, text=True)
            keys = re.findall(r"^    key=(.*)$", r.stdout, re.M)
            if r.returncode == 1 and keys:
                out[sid] = {"detected": True, "keys": keys[:4]}
                continue
            # a change that belongs to a sibling property's clause (recorded in meta.also_check) counts when that check reports it
            sib = None
            for other in meta.get("also_check", []):
                r2 = subprocess.run([os.path.join(VERIF, "bin", "check"), other, "--tier", "quick"], env=env, capture_output=True, text=True)
                k2_ = re.findall(r"^    key=(.*)$", r2.stdout, re.M)
                if r2.returncode == 1 and k2_:
                    sib = (other, k2_[:3])
                    break
            if sib:
                out[sid] = {"detected": True, "by_sibling_check": sib[0], "keys": sib[1]}
            else:
                out[sid] = {"detected": False, "exit": r.returncode}
                print("SELFTEST-MISS: property=%s the rule set no longer reports seeded change %s" % (pid, sid))
        finally:
            shutil.rmtree(dst, ignore_errors=True)
    chk.extra["thorough"]["selftest"] = out
    n = sum(1 for v in out.values() if isinstance(v, dict) and v.get("detected"))
    print("  selftest: %d of %d seeded changes of %s reported on a scratch copy of the current tree%s" % (
        n, len(out), pid, "".join("\n    %s: %s" % (k, v if isinstance(v, str) else ("reported " + v["keys"][0] if v["detected"] else "MISSED")) for k, v in out.items())))


# --------------------------------------------------------------------------------------------------------------

def witness(chk):
    src = os.path.join(VERIF, "witness")
    dst = os.path.join(facts.WORK, "witness")
    shutil.rmtree(dst, ignore_errors=True)
    shutil.copytree(src, dst)
    ct = os.path.join(dst, "Cargo.toml")
    s = open(ct).read().replace('"/repo/core"', '"%s"' % os.path.join(facts.REPO, "core"))
    open(ct, "w").write(s)
    shutil.copy2(os.path.join(facts.REPO, "Cargo.lock"), os.path.join(dst, "Cargo.lock"))
    env = dict(os.environ, CARGO_NET_OFFLINE="true", CARGO_TARGET_DIR=os.path.join(facts.WORK, "witness-target"))
    env.pop("RUSTFLAGS", None)
    r = subprocess.run(["cargo", "+nightly", "test", "--doc", "--offline"], cwd=dst, env=env, capture_output=True, text=True)
    tests = re.findall(r"^test (src/lib.rs - \(line \d+\)[^.]*?) \.\.\. (\w+)", r.stdout, re.M)
    if len(tests) < 3:
        raise facts.AnchorLost("witness crate did not build/run its 3 doc-tests: %s" % (r.stderr[-600:] or r.stdout[-600:]))
    shutil.rmtree(dst, ignore_errors=True)
    for name, res in tests:
        cf = "compile fail" in name
        chk.decide(res == "ok", "witness", "rink-witness", "compile-fail" if cf else "compiling-twin", "witness/src/lib.rs",
                   "mutating a Context through the shared reference evaluation gets is rejected by the compiler (E0594/E0596)" if cf else
                   "the twin without the offending line compiles, and Context: Send + Sync",
                   "a program that mutates Context through `&Context` now compiles" if cf else
                   "the compiling twin no longer builds (Context lost Send/Sync, or the API moved)")


# --------------------------------------------------------------------------------------------------------------

LINTS = ["unwrap_used", "expect_used", "panic", "todo", "unimplemented", "unreachable", "indexing_slicing", "string_slice"]


def clippy_audit(chk, F, pid):
    import k1
    env = dict(os.environ, CARGO_NET_OFFLINE="true", CARGO_TARGET_DIR=os.path.join(facts.WORK, "clippy-target"))
    env.pop("RUSTFLAGS", None)
    cmd = ["cargo", "+nightly", "clippy", "--offline", "-p", "rink-core", "--features", "bundle-files,serde_json", "--message-format=json", "--", "--cap-lints", "warn"]
    for l in LINTS:
        cmd += ["-W", "clippy::" + l]
    # make sure clippy really re-checks the crate
    for d in __import__("glob").glob(os.path.join(env["CARGO_TARGET_DIR"], "debug", ".fingerprint", "rink-core*")):
        shutil.rmtree(d, ignore_errors=True)
    r = subprocess.run(cmd, cwd=facts.REPO, env=env, capture_output=True, text=True)
    sites = []
    for line in r.stdout.split("\n"):
        if not line.startswith("{"):
            continue
        try:
            m = json.loads(line)
        except ValueError:
            continue
        msg = m.get("message") or {}
        code = (msg.get("code") or {}).get("code", "")
        if not code.startswith("clippy::") or code[8:] not in LINTS:
            continue
        for sp in msg.get("spans", []):
            if sp.get("is_primary"):
                sites.append((code[8:], sp["file_name"], sp["line_start"], sp["line_end"]))
    if r.returncode != 0 or len(sites) < 50:
        raise facts.AnchorLost("clippy inventory run failed or found implausibly few sites (%d): %s" % (len(sites), r.stderr[-400:]))
    inv = k1.inventory_lines(F)          # {(file, line)} of every K1 site in analysed functions, and analysed fn spans
    missing = []
    covered = 0
    outside = 0
    for lint, f, l0, l1 in sites:
        f = f if f.startswith("core/") else os.path.join("core", f)
        if not inv.in_analysed_fn(f, l0):
            outside += 1
            continue
        if inv.has_site(f, l0, l1):
            covered += 1
        else:
            missing.append((lint, f, l0))
    chk.extra["thorough"]["clippy_audit"] = {"clippy_sites": len(sites), "inside_analysed_functions": covered + len(missing),
                                             "matched_to_K1_sites": covered, "outside_reachable_code": outside,
                                             "unmatched": ["%s %s:%d" % m for m in missing[:20]]}
    if missing:
        # an incomplete inventory makes the panic verdict unsound: fail closed, but as "cannot decide", not as a property violation
        chk.anchor_lost("inventory-audit", "rink_core", "K1's inventory misses %d panic-capable sites that clippy sees, e.g. %s" % (
            len(missing), ", ".join("%s %s:%d" % m for m in missing[:5])))
    else:
        chk.ok("inventory-audit", "rink_core", "clippy-sites-are-K1-sites", "",
               "%d clippy restriction-lint sites lie in functions K1 analysed and each is a K1 panic site (%d more lie in code not "
               "reachable from the entry points)" % (covered, outside))
