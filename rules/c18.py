"""C18 Sandbox: one reply per request, and recovery after any failure.  DESIGN.md section 4, C18.

Typestate over the HIR of the parent's run_task (the async fn keeps its match/loop structure in HIR),
with the child-side facts extracted from become_child and sibling agreement of the four framing functions.
"""
import facts
import hirutil as H
import k2
from facts import AnchorLost, hir_walk, ap_str

CRATE = "rink_sandbox"


def run(chk, F):
    chk.explanation = (
        "Protocol typestate decided on the HIR of rink_sandbox (nothing is run): (a) in run_task's request loop the "
        "statement order recv -> write -> await reply -> exactly one send_response.send -> optional kill/break is "
        "checked, with no continue/break that could skip the reply; (b) arm table of `match pending.await`: the "
        "child-side facts (the child exits after any Err result and answers once per request) are extracted from "
        "become_child, and every parent arm whose reply is Err (child dead, dying, killed or stream desynchronised) "
        "must set break_out, break_out must lead to process.kill() and a break to the outer loop that spawns a new "
        "child whose fresh stdin/stdout handles are the ones used for the next request; (c) reply routing: the reply "
        "of a request is sent on the channel (or with the tag) that arrived with that request, and Sandbox::execute reads "
        "its reply from the channel it created for this call (or compares the tag), so a reply whose caller has gone "
        "cannot be delivered to a later request; (d) the four framing functions agree on prefix width, "
        "endianness and order.")
    chk.assume("OS process/pipe semantics, signal delivery and timer behaviour are not analysed")
    chk.guard("request-loop", "run_task", lambda: parent(chk, F))
    chk.guard("child-facts", "become_child", lambda: child(chk, F))
    chk.guard("execute-pairing", "Sandbox::execute", lambda: execute(chk, F))
    chk.guard("frame-agreement", "Frame", lambda: frame(chk, F))
    chk.guard("child-stdout", "RinkService", lambda: child_stdout(chk, F))
    chk.guard("restart-keeps-session", "RinkService", lambda: session_state(chk, F))


def loops(e):
    return [n for n in hir_walk(e) if n.get("k") == "Loop" and n.get("src") == "Loop"]


def through_helper(F, e, method):
    """`x.method(..)` written directly, or handed to a private helper of the crate whose body calls `.method()` on the parameter it
    was given (`Self::kill_child(&mut process)`, `Self::spawn_child(config)`): the method calls, each with the local it acts on
    in the caller ([(name, lid)] - for a helper, the argument that flows into the receiver; None when it acts on no argument)."""
    out = []
    for m in H.method_calls(e, method):
        out.append((H.local_name(m["recv"]), m))
    for c in hir_walk(e):
        if c.get("k") != "Call" or c["f"].get("k") != "Path":
            continue
        pth = c["f"]["r"].get("path", "")
        gs = [g for g in F.by_crate[CRATE] if g.path == pth or (pth and g.path.endswith("::" + pth.split("::")[-1]) and "parent::" in g.path)]
        gs = [g for g in gs if not g.raw.get("public") and "{closure" not in g.path]
        if len(gs) != 1:
            continue
        try:
            hh = F.hir_of(gs[0])
        except AnchorLost:
            continue
        params = [(x.get("pat") or x).get("name") for x in hh.get("params", [])]
        body = H.body_of_async(hh) if hasattr(H, "body_of_async") else hh["body"]
        for m in H.method_calls(hh["body"], method):
            rn = H.local_name(m["recv"])
            arg = None
            if rn and rn[0] in params and params.index(rn[0]) < len(c["args"]):
                a = c["args"][params.index(rn[0])]
                while a.get("k") in ("AddrOf", "Unary") and (a.get("e") or a.get("a")):
                    a = a.get("e") or a.get("a")
                arg = H.local_name(a) if a.get("k") == "Path" else None
            out.append((arg, m))
    return out


def parent(chk, F):
    fn = F.find(CRATE, "parent::Sandbox::<S>::run_task")
    h = F.hir_of(fn)
    body = H.simplify(H.body_of_async(h))
    file = fn.file
    outer = [l for l in loops(body)]
    if len(outer) < 2:
        raise AnchorLost("run_task does not have the outer(spawn)/inner(request) loop structure")
    outer_loop = outer[0]
    inner_candidates = [l for l in loops(outer_loop["body"])]
    inner = None
    for l in inner_candidates:
        if H.method_calls(l["body"], "recv") and H.method_calls(l["body"], "send") and H.method_calls(l["body"], "write_async"):
            inner = l
            break
    if inner is None:
        raise AnchorLost("no loop in run_task receives a request, writes it and sends a reply")
    FK = "rink_sandbox::parent::Sandbox::run_task"
    # `if !flag { continue; } <rest>` is `if flag { <rest> }`: the request loop is read in the second form
    ib_ = inner["body"]
    if ib_.get("k") == "Block":
        sts = list(ib_["stmts"])
        for idx, st_ in enumerate(sts):
            e_ = st_.get("e") if st_.get("sk") in ("expr", "semi") else None
            if e_ and e_.get("k") == "If" and e_.get("else") is None and e_["cond"].get("k") == "Unary" and e_["cond"].get("op") == "Not" and H.local_name(e_["cond"]["a"]):
                tb = e_["then"]
                only = [n for k_, n in H.stmts_of(tb)]
                if len(only) == 1 and only[0].get("k") == "Continue":
                    rest = {"k": "Block", "stmts": sts[idx + 1:], "expr": ib_.get("expr"), "line": e_.get("line")}
                    new_if = {"k": "If", "cond": e_["cond"]["a"], "then": rest, "else": None, "line": e_.get("line")}
                    inner = dict(inner)
                    inner["body"] = {"k": "Block", "stmts": sts[:idx] + [{"sk": "semi", "e": new_if, "line": e_.get("line")}], "expr": None, "line": ib_.get("line")}
                    break
    # the roles are found by what the variables do, not by what they are called
    def recv_of(name):
        ms = [m for m in H.method_calls(inner["body"], name) if H.local_name(m["recv"])]
        return H.local_name(ms[0]["recv"])[0] if ms else None
    RECVQ = recv_of("recv")            # request channel
    SENDQ = recv_of("send")            # reply channel
    FRAME = recv_of("write_async")     # framing state
    killers = [ln for ln, m in through_helper(F, inner["body"], "kill") if ln]
    PROC = killers[0][0] if killers else None
    FLAG = None
    FATE = None      # (local, variant that means "replace the child") when the decision is an enum value instead of a bool flag

    def flag_test(cond):
        """`flag`, or `fate == Enum::Variant` / `Enum::Variant == fate` / `matches!(fate, Enum::Variant)`: (local name, variant or None)"""
        c = cond
        while c.get("k") in ("DropTemps", "Paren") and c.get("e"):
            c = c["e"]
        if H.local_name(c):
            return H.local_name(c)[0], None
        if c.get("k") == "Binary" and c.get("op") == "Eq":
            for x, y in ((c["a"], c["b"]), (c["b"], c["a"])):
                if H.local_name(x) and y.get("k") == "Path" and (y.get("r") or {}).get("res") == "def" and "Ctor" in str(y["r"].get("dk", "")):
                    return H.local_name(x)[0], y["r"]["path"].split("::")[-1]
        if c.get("k") == "Let" and H.local_name(c.get("init", {})) and c["pat"].get("pk") == "expr" and "path" in c["pat"].get("e", {}):
            return H.local_name(c["init"])[0], c["pat"]["e"]["path"].split("::")[-1]
        return None
    for kind, node in H.stmts_of(inner["body"]):
        e = node.get("init") if kind == "let" else node
        if e and e.get("k") == "If" and flag_test(e["cond"]) and through_helper(F, e["then"], "kill"):
            FLAG, var = flag_test(e["cond"])
            FATE = (FLAG, var) if var else None
    if not (RECVQ and SENDQ and FRAME and PROC and FLAG):
        raise AnchorLost("run_task: could not identify the request channel, reply channel, frame, child process and respawn flag (%s)" % [RECVQ, SENDQ, FRAME, PROC, FLAG])

    # ---- (a) statement order of the request loop --------------------------------------------------
    seq = []
    for kind, node in H.stmts_of(inner["body"]):
        e = node.get("init") if kind == "let" else node
        if e is None:
            continue
        def has_mc(name, recvname):
            return any(m["name"] == name and (H.local_name(m["recv"]) or ("",))[0] == recvname for m in H.method_calls(e))
        line = node.get("line", e.get("line"))
        if has_mc("recv", RECVQ):
            seq.append(("RECV", line, e))
        elif has_mc("send", SENDQ):
            seq.append(("SEND", line, e))
        elif e.get("k") == "Match" and e.get("src") == "Normal" and any(n.get("k") == "Await" for n in hir_walk(e["scrut"])):
            seq.append(("MATCH", line, e))
        elif has_mc("write_async", FRAME) and e.get("k") != "Closure":
            seq.append(("WRITE", line, e))
        elif e.get("k") == "If" and flag_test(e["cond"]) and flag_test(e["cond"])[0] == FLAG:
            seq.append(("IFBREAK", line, e))
        else:
            seq.append(("other", line, e))
    order = [s[0] for s in seq if s[0] != "other"]
    chk.decide(order == ["RECV", "WRITE", "MATCH", "SEND", "IFBREAK"], "request-loop", FK, "statement-order",
               "%s:%d" % (file, inner["line"]),
               "request loop is recv -> write request -> match reply -> send_response.send -> if break_out {kill; break}",
               "request loop statement order is %s, expected RECV, WRITE, MATCH, SEND, IFBREAK (a reply may be skipped or duplicated)" % order)
    # a request that cannot be written (the child died while idle) still gets a reply and a new child is started:
    # the write's Result is not propagated with `?` (that would end the task and fail every later request); it is bound
    # and its Err is turned into this request's reply on a path that sets break_out
    ws = [s for s in seq if s[0] == "WRITE"]
    if len(ws) == 1:
        wnode = ws[0][2]
        wtry = [n for n in hir_walk(wnode) if n.get("k") == "Try"]
        wlet = next((st for k, st in H.stmts_of(inner["body"]) if k == "let" and st.get("init") is wnode), None)
        wname = wlet["pat"].get("name") if wlet else None
        wlid = wlet["pat"].get("lid") if wlet else None
        handled = False
        if wname and not wtry:
            for mm in hir_walk(inner["body"]):
                if mm.get("k") == "Match" and mm.get("src") == "Normal" and (H.local_name(mm["scrut"]) or (None, None))[1] == wlid:
                    for a in mm["arms"]:
                        if H.pat_str(a["pat"]).startswith("Result::Err("):
                            b = a["body"]
                            if b.get("k") == "Block":
                                b = b.get("expr") or {}
                            txt = H.expr_str(b, 80).replace(" ", "")
                            handled = handled or txt.startswith("Result::Ok(Result::Err(") or txt.startswith("Ok(Err(")
        if wname and not wtry and not handled:
            # the same as `if let Err(err) = written { Ok(Err(err)) } else { .. }`
            for mm in hir_walk(inner["body"]):
                if mm.get("k") == "If" and mm["cond"].get("k") == "Let" and (H.local_name(mm["cond"]["init"]) or (None, None))[1] == wlid \
                        and H.pat_str(mm["cond"]["pat"]).startswith("Result::Err("):
                    b = mm["then"]
                    while b.get("k") == "Block" and not b["stmts"] and b.get("expr"):
                        b = b["expr"]
                    if b.get("k") == "Block":
                        b = b.get("expr") or {}
                    txt = H.expr_str(b, 80).replace(" ", "")
                    handled = handled or txt.startswith("Result::Ok(Result::Err(") or txt.startswith("Ok(Err(")
        chk.decide(handled, "request-loop", FK, "write-failure-is-answered", "%s:%d" % (file, ws[0][1]),
                   "a failed write of the request becomes this request's error reply (Ok(Err(err)) -> the stream-error arm: kill and respawn)",
                   "the result of writing the request is %s: when the child has died while idle the task ends, this request gets a closed-channel "
                   "error and every later request fails (no respawn)" % ("propagated with `?`" if wtry else "not turned into a reply"))
    # ---- (a1) reply routing: the reply of a request goes to the caller of *that* request ---------------
    # Form A (per-request channel): the sender the reply is sent on was received together with the request, in the same
    # iteration. Form B (shared reply channel): the sent value carries a tag that was received with the request (execute()
    # then has to compare it, see execute()). A shared reply channel without a tag hands the reply of a request whose
    # caller has gone (dropped execute() future) to the caller of the next request.
    rs = next((s for s in seq if s[0] == "RECV"), None)
    ss = next((s for s in seq if s[0] == "SEND"), None)
    rlet = next((st for k, st in H.stmts_of(inner["body"]) if k == "let" and rs and st.get("init") is rs[2]), None)
    rbinds = {b["name"]: b["lid"] for b in hir_walk(rlet["pat"]) if b.get("pk") == "bind"} if rlet else {}
    form_a = SENDQ in rbinds and len(rbinds) >= 2
    sent_locals = set()
    if ss:
        for mcall in H.method_calls(ss[2], "send"):
            if (H.local_name(mcall["recv"]) or ("",))[0] == SENDQ:
                for a in mcall["args"]:
                    sent_locals |= {n["r"]["lid"] for n in hir_walk(a) if n.get("k") == "Path" and (n.get("r") or {}).get("res") == "local"}
    form_b = (not form_a) and len(rbinds) >= 2 and bool(sent_locals & set(rbinds.values()))
    chk.decide(form_a or form_b, "reply-routing", FK, "reply-goes-to-the-requester", "%s:%d" % (file, ss[1] if ss else inner["line"]),
               "the reply is sent %s" % ("on the sender that arrived with the request" if form_a else "with the tag that arrived with the request"),
               "the reply is sent on `%s`, a channel shared by all requests, and carries nothing that arrived with the request: when a caller "
               "abandons execute() its reply stays in the channel and is delivered to the next request (and every later reply is off by one)" % SENDQ)
    # RECV result is propagated with `?`; the SEND result is propagated only on a shared reply channel (the Sandbox is gone);
    # on a per-request channel a failed send means this caller gave up, which must not end the task
    for tag in ("RECV", "SEND"):
        for s in seq:
            if s[0] == tag:
                tries = [n for n in hir_walk(s[2]) if n.get("k") == "Try"]
                rets = [n for n in hir_walk(s[2]) if n.get("k") in ("Ret", "Break")]
                if tag == "SEND" and form_a:
                    chk.decide(not tries and not rets, "request-loop", FK, "send-result-consumed", "%s:%d" % (file, s[1]),
                               "a reply nobody waits for any more is dropped; the task goes on serving later requests",
                               "a failed send on the per-request reply channel (the caller gave up) ends the task: every later request fails")
                else:
                    chk.decide(bool(tries), "request-loop", FK, tag.lower() + "-result-consumed", "%s:%d" % (file, s[1]),
                               "%s result is propagated with `?` (the task ends and the caller's recv fails = an error reply)" % tag,
                               "the result of %s is not propagated" % tag)
    # exactly one send in the whole function
    sends = [m for m in H.method_calls(body, "send") if (H.local_name(m["recv"]) or ("",))[0] == SENDQ]
    chk.decide(len(sends) == 1, "request-loop", FK, "single-send", "%s:%d" % (file, sends[0]["line"] if sends else 0),
               "send_response.send occurs exactly once", "send_response.send occurs %d times" % len(sends))
    # no break/continue targeting the request loop before SEND
    lid = inner.get("hid")
    send_line = next((s[1] for s in seq if s[0] == "SEND"), 10 ** 9)
    early = []
    for s in seq:
        if s[0] in ("SEND", "IFBREAK"):
            continue
        for n in hir_walk(s[2]):
            if n.get("k") in ("Break", "Continue") and n.get("target") == lid:
                early.append((n["k"], n["line"]))
    chk.decide(not early, "request-loop", FK, "no-skip-before-send", "%s:%d" % (file, inner["line"]),
               "no break/continue of the request loop before the reply is sent",
               "%s leaves the request-loop iteration before send_response.send: the request gets no reply" % early)
    # MATCH result is what is sent
    m = next((s for s in seq if s[0] == "MATCH"), None)
    if m is None:
        raise AnchorLost("no `match pending.await` in the request loop")
    mnode = m[2]

    # ---- (a2) the time limit: what is awaited is timeout(<the service's limit>, race(interrupt, read reply)),
    # built after the request was written, and the Timeout reply names that same limit -------------------
    def is_limit(e, lets):
        """e is `S::timeout(&config)` or a local initialised (once, immutably) by it."""
        if e.get("k") == "Call" and e["f"].get("k") == "Path" and e["f"]["r"].get("path", "").endswith("Service::timeout"):
            return True
        ln = H.local_name(e) if e.get("k") == "Path" else None
        if ln:
            for s in lets:
                if s["pat"].get("lid") == ln[1] and s.get("init") is not None and not s["pat"].get("mut"):
                    return is_limit(s["init"], lets)
        return False
    all_lets = [s for k, s in H.stmts_of(outer_loop["body"]) if k == "let"] + [s for k, s in H.stmts_of(inner["body"]) if k == "let"]
    tcalls = [n for n in hir_walk(inner["body"]) if H.is_path_call(n, "future::timeout::timeout")]
    if len(tcalls) != 1:
        raise AnchorLost("expected exactly one async_std timeout(..) in the request loop, found %d" % len(tcalls))
    tc = tcalls[0]
    chk.decide(len(tc["args"]) == 2 and is_limit(tc["args"][0], all_lets), "time-limit", FK, "duration-is-service-limit",
               "%s:%d" % (file, tc["line"]),
               "the duration given to timeout(..) is S::timeout(&config) itself",
               "the duration given to timeout(..) is `%s`, not the service's limit S::timeout(&config): a request can be "
               "reported as timed out (or not) by something other than its own running time" % H.expr_str(tc["args"][0], 80))
    wline = next((s[1] for s in seq if s[0] == "WRITE"), None)
    mline = next((s[1] for s in seq if s[0] == "MATCH"), None)
    # the statement holding the timeout call sits between WRITE and MATCH (or is the MATCH scrutinee)
    holder = [s for s in seq if any(n is tc for n in hir_walk(s[2]))]
    pos = {id(s): i for i, s in enumerate(seq)}
    wi = next((i for i, s in enumerate(seq) if s[0] == "WRITE"), -1)
    mi = next((i for i, s in enumerate(seq) if s[0] == "MATCH"), -1)
    chk.decide(bool(holder) and wi >= 0 and wi < pos[id(holder[0])] <= mi, "time-limit", FK, "timer-starts-after-write",
               "%s:%d" % (file, tc["line"]),
               "the timed future is created after the request was written and before the reply is awaited",
               "timeout(..) is not created between writing the request and awaiting the reply")
    # no Instant/elapsed arithmetic feeds the limit (covered by is_limit); the Timeout reply names the limit
    tos = [n for n in hir_walk(inner["body"]) if n.get("k") == "Call" and n["f"].get("k") == "Path"
           and n["f"]["r"].get("ctor_of", "").endswith("Error::Timeout")]
    chk.decide(len(tos) == 1 and is_limit(tos[0]["args"][0], all_lets), "time-limit", FK, "timeout-reply-names-limit",
               "%s:%d" % (file, tos[0]["line"] if tos else 0),
               "Error::Timeout carries S::timeout(&config)", "Error::Timeout(..) does not carry the service's limit")

    # ---- (b) arm table -----------------------------------------------------------------------------
    n_err = 0
    fate_pos = None
    if FATE is not None:
        # `let (reply, fate) = match pending.await {..}`: which component of the arms' tuples is the fate
        mlet = next((st for k_, st in H.stmts_of(inner["body"]) if k_ == "let" and st.get("init") is mnode), None)
        subs = (mlet["pat"].get("subs") or []) if mlet and mlet["pat"].get("pk") == "tuple" else []
        pos = [i_ for i_, p_ in enumerate(subs) if p_.get("pk") == "bind" and p_.get("name") == FATE[0]]
        fate_pos = pos[0] if len(subs) == 2 and len(pos) == 1 else None
        if fate_pos is None:
            raise AnchorLost("the respawn decision `%s` is not bound from the second value of `match pending.await`" % FATE[0])
    for a in mnode["arms"]:
        ptxt = H.pat_str(a["pat"]) + (" if " + H.expr_str(a["guard"], 60) if a.get("guard") else "")
        sets = [x for x in H.assigns_to(a["body"], FLAG)]
        sets_true = any(x["rhs"].get("k") == "Lit" and x["rhs"]["lit"].get("v") is True for x in sets)
        # value of the arm
        tail = a["body"]
        if tail.get("k") == "Block":
            tail = tail.get("expr") or {}
        if FATE is not None:
            # the arm yields (reply, fate): the decision is the second component, the reply the first
            if tail.get("k") == "Tup" and len(tail["elems"]) == 2 and fate_pos is not None:
                dec = tail["elems"][fate_pos]
                tail = tail["elems"][1 - fate_pos]
                dv = dec["r"]["path"].split("::")[-1] if dec.get("k") == "Path" and (dec.get("r") or {}).get("res") == "def" else None
                sets = [dec] if dv == FATE[1] else []
                sets_true = dv == FATE[1]
                if dv is None:
                    tail = {}
            else:
                tail = {}
        ctor = None
        if tail.get("k") == "Call" and tail["f"].get("k") == "Path":
            ctor = tail["f"]["r"].get("path", "").split("::")[-1]
        if ctor == "Ok":
            # only the `result: Ok(..)` pattern may keep the child
            okpat = "result: Result::Ok" in ptxt and ptxt.startswith("Result::Ok(Result::Ok(")
            chk.decide(okpat and not sets, "recovery-arms", FK, "arm:" + ptxt[:80], "%s:%d" % (file, a["line"]),
                       "arm keeps the child: the reply is the child's Ok result",
                       "an arm that answers Ok does not match the child's own Ok result: %s" % ptxt)
        elif ctor == "Err":
            n_err += 1
            chk.decide(sets_true, "recovery-arms", FK, "arm:" + ptxt[:80], "%s:%d" % (file, a["line"]),
                       "error arm sets break_out (child is killed and respawned before the next request)",
                       "arm `%s` answers Err but does not set break_out: the child has exited / is exiting / the frame stream "
                       "is desynchronised, yet the next request is written to the same child" % ptxt)
        else:
            chk.finding("recovery-arms", FK, "arm:" + ptxt[:80], "%s:%d" % (file, a["line"]),
                        "cannot classify the reply of arm `%s` (neither Ok(..) nor Err(..))" % ptxt)
    if n_err < 4:
        chk.anchor_lost("recovery-arms", FK, "expected at least 4 error arms in `match pending.await`, found %d" % n_err)
    # break_out declared false before the match, inside the loop
    decl = [s for k, s in H.stmts_of(inner["body"]) if k == "let" and s["pat"].get("name") == FLAG]
    okdecl = len(decl) == 1 and decl[0]["init"]["k"] == "Lit" and decl[0]["init"]["lit"]["v"] is False
    if FATE is not None:
        okdecl = fate_pos is not None      # bound afresh by every request's `let (reply, fate) = match ..`
    chk.decide(okdecl, "recovery-arms", FK, "break_out-init", "%s:%d" % (file, decl[0]["line"] if decl else 0),
               "break_out is initialised to false per request", "break_out is not a per-request flag initialised to false")
    # IFBREAK: kill + break to outer
    ib = next((s for s in seq if s[0] == "IFBREAK"), None)
    if ib is None:
        raise AnchorLost("no `if break_out` after the send")
    then = ib[2]["then"]
    kills = [m for ln, m in through_helper(F, then, "kill") if (ln or ("",))[0] == PROC]
    brk = [n for n in hir_walk(then) if n.get("k") == "Break" and n.get("target") == lid]
    brk_toplevel = any(k in ("expr", "tail") and n.get("k") == "Break" and n.get("target") == lid for k, n in H.stmts_of(then))
    chk.decide(len(kills) == 1 and brk_toplevel, "recovery-arms", FK, "kill-and-respawn", "%s:%d" % (file, ib[1]),
               "break_out leads to process.kill() and an unconditional break to the spawning loop",
               "`if break_out` does not kill the child and unconditionally break to the outer loop (kill sites %d, break %s)" % (len(kills), bool(brk)))
    # outer loop: spawn + fresh handles
    ostm = H.stmts_of(outer_loop["body"])
    proc = [s for k, s in ostm if k == "let" and s["pat"].get("name") == PROC]
    spawn_ok = len(proc) == 1 and bool(through_helper(F, proc[0]["init"], "spawn"))
    chk.decide(spawn_ok, "recovery-arms", FK, "respawn", "%s:%d" % (file, proc[0]["line"] if proc else 0),
               "each iteration of the outer loop spawns a new child process",
               "the outer loop does not spawn a fresh `process` per iteration")
    plid = proc[0]["pat"]["lid"] if proc else None
    for hname in ("stdin", "stdout"):
        # the binding that takes the child's stdin/stdout field, whatever it is called
        hl = [s for k, s in ostm if k == "let" and s.get("init") and any(n.get("k") == "Field" and n["name"] == hname for n in hir_walk(s["init"]))]
        bname = hl[0]["pat"].get("name") if len(hl) == 1 else hname
        ok = False
        if len(hl) == 1:
            fld = [n for n in hir_walk(hl[0]["init"]) if n.get("k") == "Field" and n["name"] == hname]
            ok = bool(fld) and (H.local_name(fld[0]["e"]) or (None, None))[1] == plid and bool(H.method_calls(hl[0]["init"], "take"))
        chk.decide(ok, "recovery-arms", FK, "fresh-" + hname, "%s:%d" % (file, hl[0]["line"] if hl else 0),
                   "%s handle is taken from the process spawned in the same iteration" % hname,
                   "%s is not taken from the newest `process`" % hname)
        # uses inside the inner loop refer to that binding
        hlid = hl[0]["pat"]["lid"] if hl else None
        uses = []
        for mc in H.method_calls(inner["body"]):
            if mc["name"] in ("read_async", "write_async", "read_sync", "write_sync") and mc["args"]:
                # (the handle is whichever argument it is: the helpers' parameter order is theirs to choose)
                uses += [n for a_ in mc["args"] for n in hir_walk(a_) if n.get("k") == "Path" and n["r"].get("res") == "local" and n["r"]["name"] == bname]
        chk.decide(bool(uses) and all(u["r"]["lid"] == hlid for u in uses), "recovery-arms", FK, "uses-fresh-" + hname, "",
                   "requests use the %s of the current child (%d uses)" % (hname, len(uses)),
                   "a %s handle other than the current child's is used in the request loop" % hname)
    # the handshake precedes the request loop in the outer body
    hs = [i for i, (k, s) in enumerate(ostm) if any(m["name"] == "read_async" for m in H.method_calls(s.get("init") if k == "let" else s))]
    il = [i for i, (k, s) in enumerate(ostm) if (s if k != "let" else s.get("init") or {}).get("k") == "Loop"]
    chk.decide(bool(hs) and bool(il) and hs[0] < il[0], "recovery-arms", FK, "handshake-before-requests", "",
               "a new child is handshaken before requests are forwarded", "no handshake read before the request loop")


def child(chk, F):
    fns = [f for f in F.by_crate[CRATE] if f.path.startswith("child::become_child") and f.raw["kind"] != "Closure"]
    if len(fns) != 1:
        raise AnchorLost("become_child not found")
    fn = fns[0]
    h = F.hir_of(fn)
    body = H.simplify(h["body"])
    ls = loops(body)
    if not ls:
        raise AnchorLost("become_child has no request loop")
    loop = ls[-1] if len(ls) == 1 else [l for l in ls if H.method_calls(l["body"], "write_sync")][0]
    FK = "rink_sandbox::child::become_child"
    file = fn.file
    reads = [m for m in H.method_calls(loop["body"], "read_sync")]
    writes = [m for m in H.method_calls(loop["body"], "write_sync")]
    chk.decide(len(reads) == 1 and len(writes) == 1, "child-facts", FK, "one-read-one-write", "%s:%d" % (file, loop["line"]),
               "the child reads one request and writes one response per iteration",
               "child loop has %d read_sync and %d write_sync" % (len(reads), len(writes)))
    # after the reply has been written the child exits exactly when the handler failed (the catch_unwind came back Err): decided on
    # the MIR, whatever the flag is called and however it is computed (`result.is_err()`, or set in the arms of a match on it)
    ok, why_not = False, "no process::exit in the request loop"
    wbs = [bb for bb, t in fn.calls() if "callee" in t and t["callee"]["path"].endswith("Frame::write_sync")]
    exits = [bb for bb, t in fn.calls() if "callee" in t and t["callee"]["path"].endswith("process::exit") and any(fn.dominates(w, bb) for w in wbs)]
    for eb in exits:
        flags = [d for d in (fn.guard_desc(g) for g in fn.guards_of(eb)) if d[0] == "bool" and d[2] is True]
        for d in flags:
            ap, flip = k2.peel_not(d[1])
            if flip:
                continue
            txt = ap_str(ap)
            if ap[0][0] == "call" and ap[0][1].endswith("Result::<T, E>::is_err") and "catch_unwind" in txt:
                ok = True
                continue
            if ap[0][0] == "local" and len(ap[1]) <= 1:
                good, bad = 0, []
                for df in fn.defs().get(ap[0][1], []):
                    c = None
                    if df[0] == "stmt" and df[3].get("k") == "agg" and ap[1] and str(ap[1][0]).isdigit() and int(ap[1][0]) < len(df[3]["ops"]):
                        c = facts.const_of(df[3]["ops"][int(ap[1][0])])
                    elif df[0] == "stmt" and df[3].get("k") == "use" and not ap[1]:
                        c = facts.const_of(df[3]["a"])
                    if c is None or c.get("ty") != "bool":
                        bad.append("a definition that is not a constant")
                        continue
                    arm = [x[3] for x in (fn.guard_desc(g) for g in fn.guards_of(df[1])) if x[0] == "variant" and x[3] in ("Ok", "Err") and "catch_unwind" in ap_str(x[1])]
                    want = "Err" if c.get("int") else "Ok"
                    if arm == [want]:
                        good += 1
                    else:
                        bad.append("%s set on the %s side" % (bool(c.get("int")), arm or "?"))
                if good >= 2 and not bad:
                    ok = True
                else:
                    why_not = "the exit flag is %s" % (bad or "not set in both arms of the catch_unwind result")
            else:
                why_not = "the exit is behind `%s`" % txt[-80:]
    chk.decide(ok, "child-facts", FK, "exit-after-err-reply", fn.where(exits[0]) if exits else "%s:%d" % (file, loop["line"]),
               "the child exits after replying with any Err result (so the parent must respawn on every Err reply)",
               "the child no longer exits, after the reply, exactly when the handler failed: %s" % why_not)
    # panics are caught and turned into a reply
    cu = H.path_calls(loop["body"], "panic::catch_unwind")
    chk.decide(len(cu) == 1, "child-facts", FK, "catch-unwind", "%s:%d" % (file, cu[0]["line"] if cu else 0),
               "request handling runs under catch_unwind", "request handling is not wrapped in catch_unwind")


def execute(chk, F):
    fn = F.find(CRATE, "parent::Sandbox::<S>::execute")
    h = F.hir_of(fn)
    body = H.simplify(H.body_of_async(h))
    FK = "rink_sandbox::parent::Sandbox::execute"
    sends = [m for m in H.method_calls(body, "send")]
    recvs = [m for m in H.method_calls(body, "recv")]
    ok = len(sends) == 1 and len(recvs) == 1 and sends[0]["line"] < recvs[0]["line"]
    chk.decide(ok, "execute-pairing", FK, "one-send-one-recv", fn.where(),
               "execute sends one request and then awaits its response",
               "execute does not pair exactly one send with one later recv (sends %d, recvs %d)" % (len(sends), len(recvs)))
    if not ok:
        return
    # the reply that execute returns can only be the reply to the request this call sent:
    #  form A: the receiver it reads from was created in this call (a channel constructor bound to a tuple pattern) and the
    #          sender half of that very channel is part of the message sent with the request; no loop is needed;
    #  form B: the receiver is long-lived (a field of self): then the recv sits in a loop and the value is returned only behind
    #          an equality test between a tag taken from the received value and a tag sent with the request.
    chans = {}   # lid of either half -> (lids of the pair, ctor call)
    for st in hir_walk(body):
        if st.get("sk") == "let" and st.get("init") and st["init"].get("k") == "Call" and (st.get("pat") or {}).get("pk") == "tuple":
            callee = (st["init"]["f"].get("r") or {}).get("path", "")
            halves = [b for b in st["pat"]["subs"] if b.get("pk") == "bind"]
            if callee.split("::")[-1] in ("bounded", "unbounded", "channel") and len(halves) == 2:
                for b in halves:
                    chans[b["lid"]] = ([x["lid"] for x in halves], st["init"])
    rl = H.local_name(recvs[0]["recv"])
    sent = {n["r"]["lid"] for a in sends[0]["args"] for n in hir_walk(a) if n.get("k") == "Path" and (n.get("r") or {}).get("res") == "local"}
    form_a = False
    if rl and rl[1] in chans:
        pair, ctor = chans[rl[1]]
        other = [x for x in pair if x != rl[1]]
        cap = ctor["args"][0]["lit"]["v"] if ctor["args"] and ctor["args"][0].get("k") == "Lit" else None
        form_a = bool(other) and other[0] in sent and not loops(body) and (cap is None or cap >= 1)
    form_b = False
    if not form_a and loops(body):
        for lp in loops(body):
            if not any(m is recvs[0] for m in hir_walk(lp["body"])):
                continue
            for n in hir_walk(lp["body"]):
                if n.get("k") == "If" and n["cond"].get("k") == "Binary" and n["cond"]["op"] == "Eq" and \
                        any(x.get("k") in ("Ret", "Break") for x in hir_walk(n["then"])):
                    cl = {x["r"]["lid"] for x in hir_walk(n["cond"]) if x.get("k") == "Path" and (x.get("r") or {}).get("res") == "local"}
                    form_b = form_b or bool(cl & sent)
    chk.decide(form_a or form_b, "reply-routing", FK, "reply-is-for-this-request", fn.where(),
               "the reply is read from %s" % ("a channel created by this call whose sender travels with the request" if form_a
                                               else "the shared channel in a loop that returns only the reply tagged like this request"),
               "the reply is read from `%s`, shared by all calls, with nothing tying it to the request this call sent: a reply left behind by an "
               "abandoned execute() is returned for the next request" % H.expr_str(recvs[0]["recv"], 60))
    # both awaited, send result propagated
    aw = [n for n in hir_walk(body) if n.get("k") == "Await"]
    chk.decide(len(aw) == 2, "execute-pairing", FK, "awaited", fn.where(), "both channel operations are awaited", "expected 2 awaits, found %d" % len(aw))
    stry = any(n.get("k") == "Try" and any(m is sends[0] for m in hir_walk(n)) for n in hir_walk(body))
    chk.decide(stry, "execute-pairing", FK, "send-failure-is-an-error", fn.where(), "a request that could not be handed to the task is an error reply",
               "the result of sending the request is dropped: the call then waits for a reply that never comes")
    newf = F.find(CRATE, "parent::Sandbox::<S>::new")
    hb = H.simplify(H.body_of_async(F.hir_of(newf)))
    b = H.path_calls(hb, "bounded")
    caps = [c["args"][0]["lit"]["v"] for c in b if c["args"] and c["args"][0].get("k") == "Lit"]
    chk.decide(bool(caps) and all(c == 1 for c in caps) and len(caps) == len(b), "execute-pairing", "rink_sandbox::parent::Sandbox::new", "bounded-1", newf.where(),
               "the long-lived channels are bounded(1): a second request waits until the task takes it", "channel capacities are %s, expected 1" % caps)
    # run_task is spawned once with both endpoints
    sp = H.path_calls(hb, "run_task")
    chk.decide(len(sp) == 1, "execute-pairing", "rink_sandbox::parent::Sandbox::new", "single-task", newf.where(),
               "one run_task per sandbox", "run_task spawned %d times" % len(sp))


def frame(chk, F):
    table = {}
    for name in ("read_async", "read_sync", "write_async", "write_sync"):
        fn = F.find(CRATE, "frame::Frame::" + name)
        h = F.hir_of(fn)
        body = H.simplify(H.body_of_async(h))
        def convs(b):
            return [n for n in hir_walk(b) if n.get("k") == "Call" and n["f"].get("k") == "Path" and
                    n["f"]["r"].get("path", "").split("::")[-1] in ("from_ne_bytes", "to_ne_bytes", "from_le_bytes", "to_le_bytes", "from_be_bytes", "to_be_bytes")]
        conv = convs(body)
        helper = None
        if not conv and name.startswith("write"):
            # the frame may be built by a helper method of Frame into a buffer that is kept between calls
            for m in H.method_calls(body):
                if H.expr_str(m["recv"]).replace("&mut ", "").replace("*", "").strip("()") in ("self",) and m["name"] not in ("clear",):
                    g = F.fns.get(m.get("id"))
                    if g is not None and g.crate == CRATE and g.path.startswith("frame::Frame::"):
                        hb = F.hir_of(g)["body"]
                        if convs(hb):
                            helper = (m, g, hb)
                            conv = convs(hb)
        if len(conv) != 1:
            raise AnchorLost("%s: expected one length-prefix conversion, found %d" % (name, len(conv)))
        p = conv[0]["f"]["r"]["path"]
        width = "u32" if "::<impl u32>::" in p or "u32::" in p else ("u64" if "u64" in p else ("u16" if "u16" in p else ("usize" if "usize" in p else p)))
        endian = p.split("::")[-1].split("_")[1]
        entry = {"width": width, "endian": endian}
        if name.startswith("read"):
            arr = [n for n in hir_walk(body) if n.get("k") == "Array"]
            entry["prefix_bytes"] = len(arr[0]["elems"]) if arr else None
            seq = [(m["line"], m["name"]) for m in H.method_calls(body) if m["name"] in ("read_exact", "resize")] + \
                  [(c["line"], "read_exact") for c in H.path_calls(body, "Read::read_exact")] + \
                  [(c["line"], "deserialize") for c in H.path_calls(body, "deserialize")]
            entry["order"] = [n for _, n in sorted(seq)]
            rs = H.method_calls(body, "resize")
            entry["resize_to_len"] = bool(rs) and "len" in H.expr_str(rs[0]["args"][0])
            # every frame whose prefix was read is consumed whole: between the two reads there is no way out of the function
            # (a `?`, return or break that is not the `?` of the reads themselves) - a reader that gives up after the prefix
            # leaves the payload in the pipe and refuses frames the writer can produce
            reads = sorted([m["line"] for m in H.method_calls(body, "read_exact")] + [c["line"] for c in H.path_calls(body, "Read::read_exact")])
            exits = []
            if len(reads) == 2:
                for kind, st in H.stmts_of(body):
                    e0 = st.get("init") if kind == "let" else st
                    if e0 is None:
                        continue
                    has_read = bool(H.method_calls(e0, "read_exact")) or bool(H.path_calls(e0, "Read::read_exact"))
                    line = st.get("line", e0.get("line", 0))
                    if has_read or not (reads[0] < line <= reads[1]):
                        continue
                    for x in hir_walk(e0):
                        if x.get("k") in ("Try", "Ret", "Break"):
                            exits.append((x["k"], x.get("line")))
            entry["exits_between_reads"] = exits
        elif helper is None:
            seq = [(m["line"], m["name"]) for m in H.method_calls(body) if m["name"] in ("write_all", "flush")] + \
                  [(c["line"], "serialize") for c in H.path_calls(body, "serialize")]
            entry["order"] = [n for _, n in sorted(seq)]
        else:
            # kept-buffer form: the buffer must be emptied before this call's frame is put into it (in the writer before the helper
            # call, or first thing in the helper) - emptying it only after a successful write leaves the bytes of a failed write in
            # front of the next frame, which goes to the *new* child after a restart
            m, g, hb = helper
            seq = [(x["line"], x["name"]) for x in H.method_calls(body) if x["name"] in ("write_all", "flush", "clear")] + [(m["line"], "encode")]
            order = [n for _, n in sorted(seq)]
            hstm = [x["name"] for x in H.method_calls(hb) if x["name"] in ("clear", "extend_from_slice", "reserve", "push")] + \
                   ["serialize_into" for _ in H.path_calls(hb, "serialize_into")]
            if hstm[:1] == ["clear"]:
                order = ["clear"] + order
            entry["order"] = order
            entry["kept_buffer"] = True
        table[name] = entry
    FK = "rink_sandbox::frame::Frame"
    widths = {(e["width"], e["endian"]) for e in table.values()}
    chk.decide(len(widths) == 1, "frame-agreement", FK, "prefix-format", "sandbox/src/frame.rs",
               "all four framing functions use the same length prefix %s" % sorted(widths),
               "framing functions disagree on the length prefix: %s" % {k: (v["width"], v["endian"]) for k, v in table.items()})
    size = {"u16": 2, "u32": 4, "u64": 8, "usize": 8}
    for r in ("read_async", "read_sync"):
        e = table[r]
        chk.decide(e["prefix_bytes"] == size.get(e["width"]), "frame-agreement", FK, r + ":prefix-bytes", "sandbox/src/frame.rs",
                   "%s reads %s prefix bytes for a %s" % (r, e["prefix_bytes"], e["width"]),
                   "%s reads %s prefix bytes for a %s length" % (r, e["prefix_bytes"], e["width"]))
        chk.decide(not e.get("exits_between_reads"), "frame-agreement", FK, r + ":whole-frame-consumed", "sandbox/src/frame.rs",
                   "%s: once the length prefix is read nothing can leave the function before the payload read" % r,
                   "%s can give up between the length prefix and the payload (%s): the payload stays in the pipe and a frame the writer can "
                   "produce is refused" % (r, e.get("exits_between_reads")))
        chk.decide(e["order"] == ["read_exact", "resize", "read_exact", "deserialize"] and e["resize_to_len"], "frame-agreement", FK, r + ":order", "sandbox/src/frame.rs",
                   "%s: prefix, resize buffer to exactly len, body, deserialize" % r, "%s order is %s" % (r, e["order"]))
    for w in ("write_async", "write_sync"):
        e = table[w]
        if e.get("kept_buffer"):
            o = e["order"]
            first_clear = o.index("clear") if "clear" in o else 10 ** 6
            okb = "encode" in o and first_clear < o.index("encode") and [x for x in o if x in ("encode", "write_all", "flush")] == ["encode", "write_all", "flush"]
            chk.decide(okb, "frame-agreement", FK, w + ":order", "sandbox/src/frame.rs",
                       "%s: empty the kept buffer, encode prefix and body into it, write, flush" % w,
                       "%s builds the frame in a buffer that is kept between calls and does not empty it first (order %s): after a write that failed the "
                       "unsent bytes are still there, and the handshake written to the restarted child starts with a stale request frame" % (w, o))
            continue
        chk.decide(e["order"] == ["serialize", "write_all", "write_all", "flush"], "frame-agreement", FK, w + ":order", "sandbox/src/frame.rs",
                   "%s: serialize, prefix, body, flush" % w, "%s order is %s" % (w, e["order"]))
    chk.extra["frame_table"] = table


def session_state(chk, F):
    """`a failure affects only the request that caused it: every later request is served normally by a child that is restarted when
    necessary`.  The child is created from the config alone, so whatever `handle` leaves behind in the Context for later requests
    is lost with the child.  Rule: every Context field that code reachable from RinkService::handle writes is either written from
    the request inside `handle` itself before it is used (the parent keeps the session), or is per-request scratch (`now`, set at
    the start of every evaluation).  Today `previous_result` (`ans`) is neither: after a time-out `ans*2` is "No such unit ans"."""
    import cg
    G = cg.get(F)
    roots = [f for f in F.by_crate["rink"] if "service::RinkService as rink_sandbox::Service>::handle" in f.path and "{closure" not in f.path]
    if len(roots) != 1:
        raise AnchorLost("RinkService::handle not found")
    h = roots[0]
    reach = G.reachable([h])
    written = {}
    for g, bb, j, f, how in cg.field_writes(F, "loader::context::Context"):
        if g.id in reach:
            written.setdefault(f, []).append((g, bb))
    per_request = {"now"}   # overwritten by helpers::eval at the start of every query
    for f, sites in sorted(written.items()):
        if f in per_request:
            chk.ok("restart-keeps-session", "rink::service::RinkService::handle", "field:" + f, sites[0][0].where(sites[0][1]), "per-request scratch, set before every evaluation")
            continue
        in_handle = [(g, bb) for g, bb in sites if g.id == h.id]
        chk.decide(bool(in_handle), "restart-keeps-session", "rink::service::RinkService::handle", "field:" + f, sites[0][0].where(sites[0][1]),
                   "Context.%s is set by handle itself from what the parent sends with the request" % f,
                   "Context.%s is written while a request is handled (%s) and read by later requests, but it lives only in the child: any fault that "
                   "restarts the child loses it (`1+2`, then a query that times out, then `ans*2` answers \"No such unit ans\")" % (f, sites[0][0].path))
    if "previous_result" not in written:
        raise AnchorLost("no write to Context.previous_result is reachable from RinkService::handle (the ans mechanism moved)")


def child_stdout(chk, F):
    """In the child, fd 1 is the frame pipe (become_child writes replies to std::io::stdout()).  Anything the service code
    prints to stdout - `println!` is std::io::_print - lands inside the frame stream; the parent then reads text as a length
    prefix and waits for gigabytes that never come.  So `_print` must not be reachable from the CLI's service (its `create`
    runs config::load, which loads the data files and refreshes the currency cache; `handle` evaluates queries)."""
    import cg
    G = cg.get(F)
    roots = [f for f in F.by_crate["rink"] if "service::RinkService as rink_sandbox::Service>::" in f.path and f.path.split("::")[-1] in ("create", "handle")]
    if len(roots) != 2:
        raise AnchorLost("RinkService::create/handle not found")
    parent = G.reachable(roots)
    hits = []
    for fid in parent:
        fn = F.fns[fid]
        for bb, t in fn.calls():
            if "callee" in t and t["callee"]["path"].endswith("io::stdio::_print"):
                hits.append((fid, fn.where(bb)))
    for r in roots:
        chk.ok("child-stdout", "rink::" + r.path, "root", r.where(), "service entry point (%d functions reachable)" % len(parent))
    chk.decide(not hits, "child-stdout", "rink::service::RinkService", "no-print-to-the-frame-pipe", hits[0][1] if hits else "",
               "nothing reachable from the sandboxed service writes to stdout with print!/println!",
               "the sandboxed service can print to stdout, which is the frame pipe in the child (%d sites, e.g. %s): the parent reads the text as a frame "
               "length and the request never gets a reply" % (len(hits), ", ".join(h[1] for h in hits[:4])),
               path=G.path_to(parent, hits[0][0]) if hits else None)
