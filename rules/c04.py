"""C04 Totality: no input can crash, abort or hang evaluation.  DESIGN.md section 4, C04."""
import cg
import k1
import k2
from facts import AnchorLost, ap_str


def run(chk, F):
    chk.explanation = (
        "Panic-edge reachability and discharge (K1): from the query entry points (helpers::eval/one_line, Context::eval/eval_query, "
        "parse_query/parse_expr, both lexers, every TokenFmt::to_spans, Display and Serialize impl of replies and errors, "
        "NumberParts formatting) the whole-workspace call graph is built from resolved MIR callees, dyn dispatch by class "
        "hierarchy, and generic-argument linking; in every reachable rink_core body each Assert terminator (overflow, division, "
        "bounds) and each call of a panic-capable callee (unwrap/expect/panic!/indexing/remove/num-rational division/chrono "
        "constructors ...) is an obligation that must be discharged by one of the rules D0-D11 (always-Some summaries, "
        "peek-then-next typestate, infallible sinks, dominating guards, constant operands, length guards, non-zero divisor "
        "provenance or zero-test gates pushed up through the thin arithmetic wrappers) or by a line of "
        "tables/panic_justified.json whose machine-checkable backing clause is re-verified on every run. An undischarged site "
        "is reported with its call path from an entry point. Hangs, stack depth and the cost of bignum arithmetic are runtime "
        "quantities and are not decided.")
    chk.assume("std/core/alloc callees not in the may-panic list do not panic; allocation failure is out of scope")
    chk.assume("one query or definitions file drives fewer than 2^31 iterations of any counter (D6)")
    chk.assume("the bundled database is loaded (table entries backed by data checks hold for it; a custom database can violate them)")
    res = chk.guard("panic-site", "K1", lambda: k1.run(chk, F, "C04"))
    if res:
        chk.guard("loop-leaves-on-eof", "parsers", lambda: k1.eof_exits(chk, F, res[1]))
    chk.guard("context-stays-usable", "helpers::eval", lambda: usable(chk, F))


def usable(chk, F):
    """Nothing reachable from eval leaves Context partially updated: the only writes are `now` (before evaluation) and
    previous_result (after)."""
    G = cg.get(F)
    fn = F.find("rink_core", "helpers::eval")
    reach = G.reachable([fn])
    writers = {}
    for g, bb, j, f, how in cg.field_writes(F, "loader::context::Context"):
        if g.id in reach:
            writers.setdefault(f, set()).add(g.path)
    ok = set(writers) <= {"now", "previous_result"}
    chk.decide(ok, "context-stays-usable", "rink_core::helpers::eval", "writes-limited-to-now-and-ans", fn.where(),
               "evaluation writes only Context.now (before) and previous_result (after): %s" % {k: sorted(v) for k, v in writers.items()},
               "a query can write Context fields %s" % {k: sorted(v) for k, v in writers.items()})
