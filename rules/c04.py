"""C04 Totality: no input can crash, abort or hang evaluation.  DESIGN.md section 4, C04."""
import cg
import k1
import k2
from facts import AnchorLost, ap_str


def run(chk, F):
    chk.explanation = (
        "Panic-edge reachability and discharge (K1): from the query entry points (helpers::eval/one_line, Context::eval/eval_query, "
        "parse_query/parse_expr, both lexers, every TokenFmt::to_spans, Display and Serialize impl of replies and errors, "
        "NumberParts formatting) the whole-workspace call graph is built from resolved MIR callees, dyn dispatch by class "
        "hierarchy, and generic-argument linking; in every reachable rink_core body each Assert terminator (overflow, division, "
        "bounds) and each call of a panic-capable callee (unwrap/expect/panic!/indexing/remove/num-rational division/chrono "
        "constructors ...) is an obligation that must be discharged by one of the rules D0-D11 (always-Some summaries, "
        "peek-then-next typestate, infallible sinks, dominating guards, constant operands, length guards, non-zero divisor "
        "provenance or zero-test gates pushed up through the thin arithmetic wrappers) or by a line of "
        "tables/panic_justified.json whose machine-checkable backing clause is re-verified on every run. An undischarged site "
        "is reported with its call path from an entry point. Hangs, stack depth and the cost of bignum arithmetic are runtime "
        "quantities and are not decided.")
    chk.assume("std/core/alloc callees not in the may-panic list do not panic; allocation failure is out of scope")
    chk.assume("one query or definitions file drives fewer than 2^31 iterations of any counter (D6)")
    chk.assume("the bundled database is loaded (table entries backed by data checks hold for it; a custom database can violate them)")
    res = chk.guard("panic-site", "K1", lambda: k1.run(chk, F, "C04"))
    if res:
        chk.guard("loop-leaves-on-eof", "parsers", lambda: k1.eof_exits(chk, F, res[1]))
        chk.guard("loop-progress", "parsers", lambda: k1.loop_progress(chk, F, res[1]))
    chk.guard("context-stays-usable", "helpers::eval", lambda: usable(chk, F))
    chk.guard("front-end-list-protocol", "cli fmt", lambda: list_protocol(chk, F))
    chk.guard("no-unbounded-external-recursion", "workspace", lambda: external_recursion(chk, F))
    chk.guard("display-power-bounded", "Number::prettify", lambda: display_power(chk, F))
    chk.guard("alias-walk-bounded", "expand_aliases", lambda: alias_walk(chk, F))
    chk.guard("batch-answers-every-line", "cli noninteractive", lambda: batch_lines(chk, F))


def external_recursion(chk, F):
    """Who-may-call rule with a frozen table (tables/recursive_externals.json): library functions that are known, by reading
    their source, to recurse to a depth that grows with the size of a *value* (not of the input text).  A stack overflow is not
    a panic: nothing can catch it, the process (CLI, sandbox child, wasm instance) is gone.  No workspace function may call
    one, directly or through a derive; resolved MIR callees are matched, so `#[derive(Hash)]` on a struct holding a Ratio counts."""
    import json, os
    table = json.load(open(os.path.join(os.path.dirname(os.path.abspath(__file__)), "..", "tables", "recursive_externals.json")))
    G = cg.get(F)
    roots = [f for f in (F.find("rink_core", "helpers::eval"), F.find("rink_core", "helpers::one_line")) if f]
    reach = G.reachable(roots)
    n_calls = 0
    for e in table:
        hits = []
        for crate in sorted(F.by_crate):
            for fn in F.by_crate[crate]:
                for bb, t in fn.calls():
                    if "callee" in t:
                        n_calls += 1
                        if t["callee"]["path"] == e["callee"]:
                            hits.append((fn, bb))
        for fn, bb in hits:
            chk.finding("no-unbounded-external-recursion", "%s::%s" % (fn.crate, fn.path), "calls:" + e["callee"], fn.where(bb),
                        "%s is called here; %s" % (e["callee"], e["why"]), path=G.path_to(reach, fn.id) if fn.id in reach else None)
        if not hits:
            chk.ok("no-unbounded-external-recursion", "workspace", "no-caller:" + e["callee"], "",
                   "no workspace function calls %s (%d resolved call sites scanned); %s" % (e["callee"], n_calls, e["confirmed"]))
    if n_calls < 5000:
        raise AnchorLost("only %d resolved call sites were scanned; the workspace has more than 5000" % n_calls)


def display_power(chk, F):
    """Choosing an SI prefix raises every prefix to the power of the unit (three bignum pow calls per prefix).  That power is
    the exponent of a *dimension*, so its size says nothing about the size of the result: `m^100000` is `1 meter^100000`, yet the
    prefix search needs minutes for it.  Every Numeric::pow in prettify must sit behind a test that bounds the exponent by a
    constant (K2 cut gate: with the in-range edges of those tests removed no pow call stays reachable)."""
    fn = F.find("rink_core", "types::number::Number::prettify")
    fk = "rink_core::types::number::Number::prettify"
    acts = [bb for bb, t in fn.calls() if "callee" in t and t["callee"]["path"].endswith("Numeric::pow")
            and "as_single" in ap_str(fn.apath(t["args"][1]))]
    if len(acts) < 2:
        raise AnchorLost("prettify: expected pow calls on the unit's exponent, found %d" % len(acts))

    def bounded(kind, ap, info):
        if kind != "bool":
            return None
        r = ap[0]
        if r[0] != "binop" or r[1] not in ("Le", "Lt", "Ge", "Gt"):
            return None
        a, b = r[2], r[3]
        def is_mag(x):
            s_ = ap_str(x)
            return "as_single" in s_ and ("unsigned_abs" in s_ or "::abs(" in s_ or "checked_abs" in s_ or "saturating_abs" in s_)
        def const(x):
            return x[0][1] if x[0][0] == "const" and isinstance(x[0][1], int) and not x[1] else None
        LIMIT = 100000    # anything a dimension exponent could sensibly be; the point is that there is a bound
        if is_mag(a) and const(b) is not None and r[1] in ("Le", "Lt") and const(b) <= LIMIT:
            return {"true"}
        if is_mag(b) and const(a) is not None and r[1] in ("Ge", "Gt") and const(a) <= LIMIT:
            return {"true"}
        if is_mag(a) and const(b) is not None and r[1] in ("Ge", "Gt") and const(b) <= LIMIT:
            return {"false"}
        if is_mag(b) and const(a) is not None and r[1] in ("Le", "Lt") and const(a) <= LIMIT:
            return {"false"}
        return None
    k2.gate_rule(chk, fn, "display-power-bounded", fk, "prefix-search-only-for-small-powers", acts, bounded,
                 "prefixes are raised to the unit's power only when its magnitude is below a constant bound",
                 "prettify raises the SI prefixes to the unit's power without bounding it: `m^100000` (exact result `1 meter^100000`) "
                 "does not answer within minutes, `units for s^100000` and error messages naming such a unit hang the same way")


def alias_walk(chk, F):
    """expand_aliases follows a name to its definition, or to the definition of its *canonical* form.  The loader guarantees that
    the alias edges have no cycle, but canonicalize() is a second kind of edge (`km` -> `kilometer`), and with a user definition
    `kilometer km` the two together loop: the progress asserts panicked, and with one more alias the walk never ended.  Rule: every
    cycle of the function's CFG passes through the `newly inserted` edge of a BTreeSet/HashSet::insert test (a visited set), i.e.
    once those edges are removed the CFG is acyclic."""
    fn = F.find("rink_core", "runtime::eval::expand_aliases")
    fk = "rink_core::runtime::eval::expand_aliases"

    def acc(kind, ap, info):
        r = ap[0]
        if kind == "bool" and r[0] == "call" and r[1].endswith(("BTreeSet::<T, A>::insert", "HashSet::<T, S, A>::insert", "HashSet::<T, S>::insert")):
            return {"true"}
        return None
    cut = set()
    matched = 0
    for s_, kind, ap, info in k2.switch_tests(fn):
        flip = False
        if kind == "bool":
            ap, flip = k2.peel_not(ap)
        a = acc(kind, ap, info)
        if a is None:
            continue
        if flip:
            a = {{"true": "false", "false": "true"}[x] for x in a}
        matched += 1
        for lab, tgt, name in k2.edge_names(fn, s_, kind, info):
            if set(name.split("|")) & a:
                cut.add((s_, tgt))
    # remaining cycles among non-cleanup blocks
    n = len(fn.blocks)
    succ = {b: [t for lab, t in fn.succs(b) if (b, t) not in cut] for b in range(n) if not fn.blocks[b]["cleanup"]}
    color = {}
    cyc = []

    def dfs(b):
        color[b] = 1
        for t in succ.get(b, []):
            if t not in succ:
                continue
            if color.get(t) == 1:
                cyc.append((b, t))
            elif t not in color:
                dfs(t)
        color[b] = 2
    import sys
    sys.setrecursionlimit(10000)
    dfs(0)
    loops0 = any(True for b in succ for t in succ[b] if t <= b)   # the function has a loop at all
    if not loops0 and not cyc:
        raise AnchorLost("expand_aliases has no loop: the alias walk moved elsewhere")
    chk.decide(matched >= 1 and not cyc, "alias-walk-bounded", fk, "every-cycle-passes-a-visited-set", fn.where(cyc[0][0]) if cyc else fn.where(),
               "every iteration of the walk inserts the current name into a visited set and stops when it was there already",
               "the alias walk has a cycle that no visited-set test bounds (%d back edge(s)): with the user definition `kilometer km` the queries "
               "`kilometer`, `km` panic on a progress assert, with `kliq km` / `kilometer kliq` they never return" % len(cyc))


def batch_lines(chk, F):
    """`every input line ... yields either a reply or an error value`: the CLI's batch loop (`rink -f file`, piped stdin) reads a
    line and hands it to one_line.  Between the read and the evaluation the loop may leave only because the read failed or read
    nothing (end of input) - tests on the read's own result.  A test on the *text* of the line (such as "has no newline") that
    leads out of the loop drops a query without a word: a file whose last line lacks the trailing newline lost its last answer."""
    fns = [f for f in F.by_crate.get("rink", []) if f.path.startswith("repl::noninteractive") and "{closure" not in f.path]
    if len(fns) != 1:
        raise AnchorLost("cli repl::noninteractive not found")
    fn = fns[0]
    reads = [bb for bb, t in fn.calls() if "callee" in t and t["callee"]["path"].endswith("BufRead::read_line")]
    evals = [bb for bb, t in fn.calls() if "callee" in t and t["callee"]["path"].endswith("helpers::one_line")]
    if len(reads) != 1 or len(evals) != 1:
        raise AnchorLost("noninteractive: expected one read_line and one one_line call (%d, %d)" % (len(reads), len(evals)))
    rd, ev = reads[0], evals[0]
    # tests that lie between the read and the evaluation (dominated by the read, not dominated by the evaluation) and have an
    # edge from which the evaluation is unreachable
    bad = []
    can = fn.can_reach([ev])
    for s_, kind, ap, info in k2.switch_tests(fn):
        if not fn.dominates(rd, s_) or fn.dominates(ev, s_) or s_ not in can:
            continue
        leaves = [t for lab, t in fn.succs(s_) if t not in can]
        if not leaves:
            continue
        txt = ap_str(ap)
        on_read_result = "::read_line(" in txt and not any(w in txt for w in ("::find", "::contains", "::ends_with", "::strip_suffix", "String::len(", "str>::len("))
        if not on_read_result:
            bad.append((s_, txt[:100]))
    chk.decide(not bad, "batch-answers-every-line", "rink::repl::noninteractive", "only-the-read-result-ends-the-loop", fn.where(bad[0][0]) if bad else fn.where(rd),
               "after a line was read the loop leaves before evaluating it only on the read's own result (error or nothing read)",
               "a line that was read can be dropped without evaluation by a test on its text (%s): `printf '1+1\\n2+2' | rink -f -` answers only the first query" % [b[1] for b in bad][:2])


def usable(chk, F):
    """Nothing reachable from eval leaves Context partially updated: the only writes are `now` (before evaluation) and
    previous_result (after)."""
    G = cg.get(F)
    fn = F.find("rink_core", "helpers::eval")
    reach = G.reachable([fn])
    writers = {}
    for g, bb, j, f, how in cg.field_writes(F, "loader::context::Context"):
        if g.id in reach:
            writers.setdefault(f, set()).add(g.path)
    ok = set(writers) <= {"now", "previous_result"}
    chk.decide(ok, "context-stays-usable", "rink_core::helpers::eval", "writes-limited-to-now-and-ans", fn.where(),
               "evaluation writes only Context.now (before) and previous_result (after): %s" % {k: sorted(v) for k, v in writers.items()},
               "a query can write Context fields %s" % {k: sorted(v) for k, v in writers.items()})


def list_protocol(chk, F):
    """The CLI's long-output renderer computes `indent * 2 - 2` on a usize for list separators; that is only safe
    because (a) every reply that emits a ListSep span has emitted a ListBegin span before it, and (b) the renderer's
    ListBegin arm - the one that increments `indent` - is the first arm any ListBegin/ListSep content span can reach."""
    import hirutil as H
    from facts import hir_walk
    rule = "front-end-list-protocol"
    n = 0
    for fn in F.by_crate["rink_core"]:
        seps = [bb for bb, t in fn.calls() if "callee" in t and t["callee"]["path"].split("::")[-1] == "list_sep" and "Span" in t["callee"]["path"]]
        if not seps:
            continue
        begs = [bb for bb, t in fn.calls() if "callee" in t and t["callee"]["path"].split("::")[-1] == "list_begin" and "Span" in t["callee"]["path"]]
        for sb in seps:
            n += 1
            chk.decide(any(fn.dominates(b, sb) for b in begs), rule, "rink_core::" + k1.normfn(fn.path), "list_sep-after-list_begin", fn.where(sb),
                       "a ListSep span is only produced after a ListBegin span of the same reply",
                       "a reply emits a list separator without a preceding list_begin: the CLI's long-output renderer underflows `indent * 2 - 2`")
    if n < 6:
        chk.anchor_lost(rule, "rink_core replies", "only %d list_sep producers found (expected >= 6)" % n)
    fn = F.find("rink", "fmt::to_ansi_inner")
    fk = "rink::fmt::to_ansi_inner"
    h = F.hir_of(fn)
    ms = [m for m in hir_walk(h["body"]) if m.get("k") == "Match" and m.get("src") == "Normal" and any("FmtToken::ListBegin" in H.pat_str(a["pat"]) for a in m["arms"])]
    if len(ms) != 1:
        raise AnchorLost("to_ansi_inner: span dispatch match not found")
    arms = ms[0]["arms"]

    def can_match(a, tok):
        p = H.pat_str(a["pat"])
        if not p.startswith("Span::Content"):
            return False
        m = __import__("re").search(r"token: (?:\w+@)?FmtToken::(\w+)", p)
        return (m is None) or m.group(1) == tok
    for tok, need_inc in (("ListBegin", True), ("ListSep", False)):
        # the first arm whose pattern admits the span (an arm guarded by anything but `long_output` may take it too)
        first = next((a for a in arms if can_match(a, tok)), None)
        ok = first is not None and ("FmtToken::" + tok) in H.pat_str(first["pat"]) and first.get("guard") is not None and H.expr_str(first["guard"]) == "long_output"
        if ok and need_inc:
            # indent += 1 is the first statement of the arm
            st = H.stmts_of(first["body"])
            ok = bool(st) and st[0][1].get("k") == "AssignOp" and (H.local_name(st[0][1].get("lhs", {})) or ("",))[0] == "indent"
        chk.decide(ok, rule, fk, "first-arm-for-" + tok, "%s:%d" % (fn.file, first["line"] if first else arms[0]["line"]),
                   "with long_output, a %s span reaches its own arm first%s" % (tok, " and `indent` is incremented before it is used" if need_inc else ""),
                   "with long_output a %s content span is taken by an earlier arm (`%s`)%s: `indent` is not incremented and the next separator computes 0 * 2 - 2" % (
                       tok, H.pat_str(first["pat"])[:60] if first else "none", "" if not need_inc else " or the arm does not start with `indent += 1`"))
    # the subtraction occurs only in those two arms
    subs = [x for x in hir_walk(h["body"]) if x.get("k") == "Binary" and x.get("op") == "Sub" and "indent" in H.expr_str(x)]
    inarms = [x for a in arms if ("FmtToken::ListBegin" in H.pat_str(a["pat"]) or "FmtToken::ListSep" in H.pat_str(a["pat"])) for x in hir_walk(a["body"])
              if x.get("k") == "Binary" and x.get("op") == "Sub" and "indent" in H.expr_str(x)]
    chk.decide(len(subs) == len(inarms) and len(subs) >= 1, rule, fk, "indent-arithmetic-only-in-list-arms", fn.where(),
               "`indent * 2 - 2` is computed only in the ListBegin / ListSep arms (%d sites)" % len(subs), "`indent - ..` is computed outside the list arms")
