"""K1: panic-edge reachability and discharge (DESIGN.md section 3, K1)."""
import json
import os
import re

import cg
import facts
import k2
from facts import AnchorLost, ap_str, ap_calls, const_of, place_of

CORE = "rink_core"

# external callees that can panic (path fragments, matched on the resolved callee path)
MAY_PANIC = [
    ("unwrap", r"core::option::Option::<T>::unwrap$"), ("expect", r"core::option::Option::<T>::expect$"),
    ("unwrap", r"core::result::Result::<T, E>::unwrap$"), ("expect", r"core::result::Result::<T, E>::expect$"),
    ("unwrap", r"core::result::Result::<T, E>::unwrap_err$"), ("expect", r"core::result::Result::<T, E>::expect_err$"),
    ("panic", r"^core::panicking::panic"), ("panic", r"^std::rt::begin_panic"), ("panic", r"^std::rt::panic_fmt"), ("panic", r"core::panicking::assert_failed"),
    ("panic", r"^core::panicking::unreachable"), ("panic", r"^std::panicking::begin_panic"),
    ("index", r"core::ops::index::Index(Mut)?<.*>>::index(_mut)?$"), ("index", r"<impl core::ops::index::Index(Mut)?<I> for (str|\[T\]|alloc::vec::Vec<T, A>|alloc::string::String)>::index(_mut)?$"),
    ("index", r"core::str::traits::<impl core::ops::index::Index<I> for str>::index$"), ("index", r"core::slice::index::<impl core::ops::index::Index(Mut)?<I> for \[T\]>::index(_mut)?$"),
    ("index", r"alloc::vec::<impl core::ops::index::Index(Mut)?<I> for alloc::vec::Vec<T, A>>::index(_mut)?$"),
    ("index", r"alloc::string::<impl core::ops::index::Index<I> for alloc::string::String>::index$"),
    ("index", r"alloc::collections::btree::map::<impl core::ops::index::Index<&Q> for .*>::index$"), ("index", r"std::collections::hash::map::<impl core::ops::index::Index<&Q> for .*>::index$"),
    ("vec-remove", r"alloc::vec::Vec::<T, A>::(remove|swap_remove|insert|split_off|drain|truncate_front)$"),
    ("string-edit", r"alloc::string::String::(insert|insert_str|remove|split_off|drain|replace_range)$"),
    ("str-split", r"core::str::<impl str>::(split_at|split_at_mut)$"), ("slice-split", r"core::slice::<impl \[T\]>::(split_at|split_at_mut|chunks|chunks_exact|windows|copy_from_slice|clone_from_slice|swap|rotate_left|rotate_right)$"),
    ("ratio-new", r"num_rational::Ratio::<T>::(new|new_raw_checked|recip|from_integer_checked)$"),
    ("ratio-div", r"num_rational::.*core::ops::arith::(Div|Rem)(<.*>)?>::(div|rem)$"), ("ratio-div", r"<&'a num_rational::Ratio<T> as core::ops::arith::(Div|Rem)"),
    ("bigint-div", r"num_bigint::.*core::ops::arith::(Div|Rem)(<.*>)?( for .*)?>::(div|rem)$"), ("bigint-div", r"num_bigint::bigint::division::<impl core::ops::arith::(Div|Rem)"),
    ("bigint-div", r"num_bigint::biguint::division::<impl core::ops::arith::(Div|Rem)"), ("bigint-div", r"num_integer::Integer::(div_floor|mod_floor|div_rem|div_mod_floor|div_ceil)$"),
    ("int-pow", r"core::num::<impl (u|i)(8|16|32|64|128|size)>::pow$"), ("int-abs", r"core::num::<impl i(8|16|32|64|128|size)>::abs$"),
    ("chrono-duration", r"chrono::time_delta::TimeDelta::(milliseconds|seconds|minutes|hours|days|weeks)$"),
    ("chrono-op", r"<chrono::datetime::DateTime<Tz> as core::ops::arith::(Add|Sub)<chrono::time_delta::TimeDelta>"), ("chrono-op", r"<chrono::time_delta::TimeDelta as core::ops::arith::(Add|Sub|Mul|Neg)>"),
    ("chrono-local", r"chrono::offset::LocalResult::<T>::unwrap$"), ("chrono-local", r"chrono::offset::TimeZone::(ymd|timestamp|timestamp_millis|timestamp_nanos|with_ymd_and_hms)$"),
    ("chrono-naive", r"chrono::naive::date::NaiveDate::(from_ymd|from_yo|from_isoywd|and_hms|and_hms_milli|and_hms_micro|and_hms_nano|succ|pred)$"),
    ("step-by", r"core::iter::traits::iterator::Iterator::step_by$"), ("refcell", r"core::cell::RefCell::<T>::borrow(_mut)?$"),
    ("mutex", r"std::sync::(poison::)?mutex::Mutex::<T>::lock$"), ("process", r"std::process::(exit|abort)$"),
    ("from-str-radix", r"$^"),
    # arithmetic on references to primitive integers (`a + b` with a, b: &i64) is a call of core's forwarding impl, not a MIR
    # Assert; the impls carry #[rustc_inherit_overflow_checks], so in a build with overflow checks they panic like the plain operator
    ("int-arith", r"^<&?'?[a-z_]* ?(i|u)(8|16|32|64|128|size) as core::ops::arith::(Add|Sub|Mul|Neg)(<&?'?[a-z_]* ?(i|u)(8|16|32|64|128|size)>)?>::(add|sub|mul|neg)$"),
    ("int-arith", r"^<(i|u)(8|16|32|64|128|size) as core::ops::arith::(AddAssign|SubAssign|MulAssign)<&"),
]
MAY_PANIC = [(k, re.compile(r)) for k, r in MAY_PANIC]


def panic_kind(path):
    for k, r in MAY_PANIC:
        if r.search(path):
            return k
    return None


class Site:
    __slots__ = ("fn", "bb", "kind", "what", "term", "generated")

    def __init__(self, fn, bb, kind, what, term, generated):
        self.fn, self.bb, self.kind, self.what, self.term, self.generated = fn, bb, kind, what, term, generated


def is_generated(fn, loc):
    exp = loc.get("exp", "")
    chain = " ".join(loc.get("expchain", []))
    if "Derive" in exp or "Derive" in chain:
        return True
    if fn.raw.get("from_expansion") and fn.raw.get("impl_trait", "").startswith(("serde::", "core::clone", "core::cmp", "core::fmt::Debug", "core::hash", "core::default", "core::marker")):
        return True
    return False


def sites_of(fn):
    out = []
    for bb, b in enumerate(fn.blocks):
        if b["cleanup"]:
            continue
        t = b["term"]
        if t["k"] == "assert":
            kind = t["msg"].get("kind")
            if kind in ("NullPointer", "Misaligned", "Other"):
                continue
            what = kind + (":" + t["msg"]["op"] if "op" in t["msg"] else "")
            out.append(Site(fn, bb, "assert", what, t, is_generated(fn, t["loc"])))
        elif t["k"] == "call" and "callee" in t:
            p = t["callee"]["path"]
            k = panic_kind(p)
            if k:
                out.append(Site(fn, bb, "call", k + ":" + p.split("::")[-1], t, is_generated(fn, t["loc"])))
    return out


C04_ROOTS = ["helpers::eval", "helpers::one_line", "loader::context::Context::eval", "loader::context::Context::eval_query",
             "parsing::text_query::parse_query", "parsing::text_query::parse_expr",
             "<parsing::text_query::TokenIterator<'a> as core::iter::traits::iterator::Iterator>::next",
             "output::number_parts::NumberParts::format", "output::number_parts::NumberPartsFmt::<'a>::to_spans"]
C13_ROOTS = ["loader::context::Context::load", "loader::context::Context::load_definitions", "loader::context::Context::load_currency",
             "loader::context::Context::load_date_file", "loader::context::Context::load_dates", "loader::gnu_units::parse_str", "loader::gnu_units::parse",
             "parsing::datetime::parse_datefile", "<loader::gnu_units::TokenIterator<'a> as core::iter::traits::iterator::Iterator>::next"]


def roots(F, which):
    out = []
    names = C04_ROOTS if which == "C04" else C13_ROOTS
    for n in names:
        fs = [f for f in F.by_crate[CORE] if f.path == n]
        if len(fs) != 1:
            raise AnchorLost("K1 root %s not found" % n)
        out += fs
    if which == "C04":
        for f in F.by_crate[CORE]:
            tr = f.raw.get("impl_trait", "")
            st = f.raw.get("impl_self", "")
            if f.raw["kind"] == "Closure":
                continue
            if tr.endswith("output::fmt::TokenFmt") and f.raw.get("name") == "to_spans":
                out.append(f)
            if tr == "core::fmt::Display" and ("output::" in st or "ast::" in st or "types::" in st or "runtime::" in st):
                out.append(f)
            if tr == "serde::ser::Serialize" and ("output::reply::" in st or "output::number_parts" in st or "types::" in st or "ast::" in st):
                out.append(f)
    else:
        for f in F.by_crate[CORE]:
            tr = f.raw.get("impl_trait", "")
            st = f.raw.get("impl_self", "")
            if f.raw["kind"] == "Closure":
                continue
            if tr.startswith("serde::de::Deserialize") and "ast::def::" in st:
                out.append(f)
            if f.path.startswith("<ast::def::ExprString as core::convert::TryFrom"):
                out.append(f)
    return out


def inventory(F, which):
    G = cg.get(F)
    rs = roots(F, which)
    reach = G.reachable(rs)
    sites = []
    for fid in reach:
        fn = F.fns[fid]
        if fn.crate != CORE:
            continue
        sites += sites_of(fn)
    return G, rs, reach, sites


# =========================================================================================
# discharge rules
# =========================================================================================
INT_BITS = {"i8": 8, "u8": 8, "i16": 16, "u16": 16, "i32": 32, "u32": 32, "i64": 64, "u64": 64, "isize": 64, "usize": 64, "i128": 128, "u128": 128}


def const_int(op):
    c = const_of(op)
    if c is not None and "int" in c:
        return c["int"]
    return None


class Discharger:
    def __init__(self, F, G, reach):
        self.F, self.G, self.reach = F, G, reach
        self.always_some = self._always_some()
        self.fmt_error_built = self._fmt_error_sites()

    # ---- D1 summaries ------------------------------------------------------------------
    def _always_some(self):
        """Local functions whose every return value is Some(..)/Ok(..) (fixed point over self/mutual forwarding)."""
        F = self.F
        cand = {}
        for fn in F.by_crate[CORE]:
            rets = []
            ok = True
            for i, j, st in fn.stmts():
                if st["k"] == "assign" and st["place"]["l"] == 0 and not st["place"]["p"]:
                    rv = st["rv"]
                    if rv["k"] == "agg" and rv.get("adt", "").endswith(("option::Option", "result::Result")):
                        rets.append(("agg", rv["variant"]))
                    elif rv["k"] == "use":
                        rets.append(("use", fn.apath(rv["a"])))
                    else:
                        ok = False
            for bb, t in fn.calls():
                if t["dest"]["l"] == 0 and not t["dest"]["p"]:
                    rets.append(("call", t["callee"]["id"] if "callee" in t else None, t.get("callee", {}).get("path")))
            if rets:
                cand[fn.id] = rets
        good = set()
        changed = True
        while changed:
            changed = False
            for fid, rets in cand.items():
                if fid in good:
                    continue
                ok = True
                for r in rets:
                    if r[0] == "agg":
                        if r[1] not in ("Some", "Ok"):
                            ok = False
                    elif r[0] == "call":
                        if r[1] != fid and r[1] not in good:
                            ok = False
                    else:
                        ap = r[1]
                        root = ap[0]
                        if not (root[0] == "call" and not ap[1] and self._callee_id(root) in good | {fid}):
                            if not (root[0] == "agg" and root[1].endswith(("Option::Some", "Result::Ok"))):
                                ok = False
                    if not ok:
                        break
                if ok:
                    ret_ty = F.fns[fid].locals[0]
                    if ret_ty.startswith(("core::option::Option<", "core::result::Result<")):
                        good.add(fid)
                        changed = True
        return good

    def _callee_id(self, root):
        # access-path call roots carry only the callee name; resolve by name among core fns
        name = root[1]
        for fn in self.F.by_crate[CORE]:
            if fn.path == name:
                return fn.id
        return None

    def _fmt_error_sites(self):
        n = 0
        for fn in self.F.by_crate[CORE]:
            for i, j, st in fn.stmts():
                rv = st.get("rv", {})
                if rv.get("k") == "agg" and rv.get("adt") == "core::fmt::Error":
                    n += 1
        return n

    # ---- helpers -----------------------------------------------------------------------------
    def arg_ap(self, s, k=0):
        return s.fn.apath(s.term["args"][k])

    def peel(self, ap):
        """Strip Option/Result-preserving wrappers: cloned, copied, as_ref, as_mut, by_ref."""
        while ap[0][0] == "call" and not ap[1] and ap[0][1].endswith(("Option::<&T>::cloned", "Option::<&T>::copied", "Option::<T>::as_ref", "Option::<T>::as_mut", "Option::<&mut T>::cloned", "Option::<T>::as_deref")) and ap[0][2]:
            ap = ap[0][2][0]
        return ap

    def decide(self, s):
        """Returns (rule, detail) when the site is discharged, else None."""
        fn, t = s.fn, s.term
        if s.generated:
            return ("D7", "generated code (derive expansion)")
        if s.kind == "assert":
            return self.decide_assert(s)
        kind = s.what.split(":")[0]
        if kind in ("unwrap", "expect"):
            return self.decide_unwrap(s)
        if kind == "index":
            g = " ".join(t["callee"].get("gargs", []))
            if "core::ops::range::RangeFull" in g:
                return ("D10", "full-range index `[..]`")
            r = self.prefix_slice(s)
            if r:
                return r
            return self.length_guarded(s, index=True)
        if kind == "vec-remove":
            name = t["callee"]["path"].split("::")[-1]
            if name == "drain":
                g = " ".join(t["callee"].get("gargs", []))
                if "core::ops::range::RangeFull" in g:
                    return ("D10", "drain(..) over the full range")
            return self.length_guarded(s)
        if kind == "string-edit":
            return self.length_guarded(s)
        return None

    # ---- asserts -------------------------------------------------------------------------
    def decide_assert(self, s):
        m = s.term["msg"]
        kind = m.get("kind")
        fn = s.fn
        if kind in ("DivisionByZero", "RemainderByZero"):
            # the assert's condition is `divisor == 0` (expected false); the message operand is the dividend
            cond = fn.apath(s.term["cond"])
            div = None
            r = cond[0]
            if r[0] == "binop" and r[1] == "Eq":
                for x, y in ((r[2], r[3]), (r[3], r[2])):
                    if y[0] == ("const", 0):
                        div = x
            if div is not None:
                if div[0][0] == "const" and div[0][1] not in (0, "0"):
                    return ("D9", "divisor is the constant %s" % div[0][1])
                if div[0][0] == "cast" and div[0][2][0][0] == "const" and div[0][2][0][1] not in (0, "0"):
                    return ("D9", "divisor is a non-zero constant")
                return self.gated_nonzero_ap(s, div)
            return None
        if kind == "Overflow":
            op = m["op"]
            a, b = const_int(m["a"]), const_int(m["b"])
            if a is not None and b is not None:
                return ("D9", "constant operands")
            # sums of constants built by macro repetition (`0 + 1 + 1`): every leaf of both operands is a constant
            def const_val(ap, depth=0):
                r = ap[0]
                if r[0] == "const" and isinstance(r[1], int) and not ap[1]:
                    return r[1]
                if r[0] == "binop" and depth < 6 and r[1] in ("Add", "AddWithOverflow") and ap[1] in ((), ("0",)):
                    x, y = const_val(r[2], depth + 1), const_val(r[3], depth + 1)
                    if x is not None and y is not None:
                        return x + y
                return None
            if op == "Add":
                va, vb = const_val(fn.apath(m["a"])), const_val(fn.apath(m["b"]))
                lim = (1 << (INT_BITS.get(m.get("aty"), 0) - 1)) - 1
                if va is not None and vb is not None and 0 <= va + vb <= lim:
                    return ("D9", "constant sum %d" % (va + vb))
            if op in ("Div", "Rem") and b is not None and b != -1:
                return ("D9", "signed overflow of %s needs divisor -1; divisor is the constant %d" % (op, b))
            if op == "Add" and (b == 1 or a == 1) and INT_BITS.get(m.get("aty"), 0) >= 32 and self.is_counter(s, m["a"] if b == 1 else m["b"]):
                return ("D6", "unit increment of a %s counter (fewer than 2^31 iterations per query/file)" % m.get("aty"))
            if op in ("Shl", "Shr") and b is not None and 0 <= b < INT_BITS.get(m.get("aty"), 0):
                return ("D9", "constant shift %d" % b)
            return None
        if kind == "OverflowNeg":
            return None
        if kind == "BoundsCheck":
            c = const_int(m["b"])
            # D12: a table with a row per variant, indexed by the variant (`TABLE[*self as usize]`): the length is a constant and
            # the index is the discriminant of an enum all of whose discriminant values are below it
            n = const_int(m["a"])
            ipl = place_of(m["b"])
            if n is not None and ipl is not None and not ipl["p"]:
                ds = fn.defs().get(ipl["l"], [])
                if len(ds) == 1 and ds[0][0] == "stmt" and ds[0][3].get("k") == "cast" and ds[0][3].get("ck") == "IntToInt":
                    src = place_of(ds[0][3]["a"])
                    d2 = fn.defs().get(src["l"], []) if src is not None and not src["p"] else []
                    if len(d2) == 1 and d2[0][0] == "stmt" and d2[0][3].get("k") == "discr" and d2[0][3].get("variants"):
                        vals = [v[0] for v in d2[0][3]["variants"]]
                        if all(isinstance(v, int) and 0 <= v < n for v in vals):
                            return ("D12", "index is the discriminant of %s (values 0..%d) into a table of %d rows" % (d2[0][3].get("enum"), max(vals), n))
            return self.length_guarded(s, index=True)
        return None

    def is_counter(self, s, opnd):
        """`x + 1` is a counter increment only when the sum is stored back where x was read from (`x += 1`, `*e += 1`,
        the macro-expanded `i = i + 1`), or when x is a count of in-memory items (len, count, an enumerate index)."""
        fn = s.fn
        pl = place_of(opnd)
        if pl is None:
            return False
        # where did the operand come from: a copy of place P in the same block?
        srcs = [pl]
        for st in fn.blocks[s.bb]["stmts"]:
            if st["k"] == "assign" and st["place"]["l"] == pl["l"] and not st["place"]["p"] and st["rv"].get("k") == "use":
                q = place_of(st["rv"]["a"])
                if q is not None:
                    srcs.append(q)
        # the checked sum's value half is assigned in the success block
        def pkey(pl_):
            return [x["f"] if isinstance(x, dict) and "f" in x else str(x) for x in pl_["p"]]
        tgt = s.term.get("target")
        if tgt is not None:
            for st in fn.blocks[tgt]["stmts"]:
                if st["k"] == "assign" and st["rv"].get("k") == "use":
                    q = place_of(st["rv"]["a"])
                    if q is not None and pkey(q)[-1:] == ["0"]:
                        d = st["place"]
                        if any(d["l"] == src["l"] and pkey(d) == pkey(src) for src in srcs):
                            return True
        ap = fn.apath(opnd)
        txt = ap_str(ap)
        if ap[0][0] == "call" and ap[0][1].split("::")[-1] in ("len", "count", "next_power_of", "size_in_base", "bits"):
            return True
        if "Enumerate" in txt and txt.rstrip().endswith(".0"):
            return True
        return False

    def gated_nonzero(self, s, op):
        return self.gated_nonzero_ap(s, s.fn.apath(op))

    def gated_nonzero_ap(self, s, want):
        """A `!= 0` test on the same value guards the site."""
        fn = s.fn
        for g in fn.guards_of(s.bb):
            d = fn.guard_desc(g)
            if d[0] == "bool" and d[1][0][0] == "binop" and d[1][0][1] in ("Ne", "Eq", "Gt", "Lt"):
                a, b = d[1][0][2], d[1][0][3]
                for x, y in ((a, b), (b, a)):
                    if y[0] == ("const", 0) and same_value(x, want):
                        if (d[1][0][1] == "Ne" and d[2]) or (d[1][0][1] == "Eq" and not d[2]) or (d[1][0][1] in ("Gt", "Lt") and d[2]):
                            return ("D4", "behind a non-zero test of the same value")
        return None

    # ---- unwrap / expect ------------------------------------------------------------------
    def decide_unwrap(self, s):
        fn = s.fn
        ap = self.peel(self.arg_ap(s))
        root = ap[0]
        # D4: guarded by a Some/Ok test on the same value
        for g in fn.guards_of(s.bb):
            d = fn.guard_desc(g)
            if d[0] == "variant" and d[3] in ("Some", "Ok") and same_value(self.peel(d[1]), ap):
                return ("D4", "behind the %s edge of a test on the same value" % d[3])
            if d[0] == "bool":
                r = d[1][0]
                if r[0] == "call" and r[2] and r[1].endswith(("is_some", "is_ok", "is_none", "is_err")):
                    inner = self.peel(r[2][0])
                    pos = r[1].endswith(("is_some", "is_ok"))
                    if same_value(inner, ap) and d[2] == pos:
                        return ("D4", "behind `%s == %s` on the same value" % (r[1].split("::")[-1], d[2]))
        if root[0] == "call" and not ap[1] and root[1].endswith(("BTreeMap::<K, V, A>::get", "HashMap::<K, V, S>::get", "BTreeSet::<T, A>::get")) and len(root[2]) == 2:
            # D4: map.get(k).unwrap() behind map.contains_key(k)
            for g in fn.guards_of(s.bb):
                d = fn.guard_desc(g)
                if d[0] == "bool" and d[2] is True and d[1][0][0] == "call" and d[1][0][1].endswith(("::contains_key", "::contains")) and len(d[1][0][2]) == 2:
                    if same_value(self.strip_deref(d[1][0][2][0]), self.strip_deref(root[2][0])) and same_value(self.strip_deref(d[1][0][2][1]), self.strip_deref(root[2][1])):
                        return ("D4", "get(k).unwrap() behind contains_key(k) on the same map and key")
        if root[0] == "call" and not ap[1] and root[1].endswith("core::ops::arith::Div<&'b types::number::Number>>::div") and len(root[2]) == 2:
            # Div for &Number is None exactly when the divisor's value is zero
            div = root[2][1]
            dap = (div[0], div[1] + ("value",))
            call_bb = root[3]
            r = decide_divisor(self.F, fn, call_bb, fn.blocks[call_bb]["term"], "<&Number as Div>::div", dap, 1, both_zeros=True)
            if r:
                return ("D0", "Number / Number is Some because the divisor is non-zero: " + r[1])
        if root[0] == "call" and not ap[1] and root[1].endswith("Peekable::<I>::peek"):
            r = self.peek_is_some(s, root)
            if r:
                return r
        if root[0] == "call" and not ap[1]:
            name = root[1]
            # D1: Peekable<TokenIterator>::next/peek with an AlwaysSome lexer, or an AlwaysSome local function
            if name.endswith(("Peekable<I> as core::iter::traits::iterator::Iterator>::next", "Peekable::<I>::peek")):
                it = self.iter_type(fn, root)
                if it and any(x in it for x in ("parsing::text_query::TokenIterator", "loader::gnu_units::TokenIterator")):
                    lex = "parsing::text_query" if "text_query" in it else "loader::gnu_units"
                    lexfn = [f for f in self.F.by_crate[CORE] if f.path == "<%s::TokenIterator<'a> as core::iter::traits::iterator::Iterator>::next" % lex]
                    if lexfn and lexfn[0].id in self.always_some:
                        return ("D1", "token stream never ends: %s::TokenIterator::next always returns Some (Eof forever)" % lex)
                # D2: peek-then-next on a character stream
                r = self.peek_then_next(s, root)
                if r:
                    return r
            cid = self._callee_id(root)
            if cid is not None and cid in self.always_some:
                return ("D1", "%s always returns Some/Ok" % name)
            # D3: write! into a Vec<u8>/String
            if name.endswith(("io::Write>::write_fmt", "io::Write::write_fmt", "core::fmt::Write>::write_fmt", "fmt::Write::write_fmt")) or name.endswith("::write_fmt"):
                recv = self.recv_type(fn, root)
                if recv and (recv.startswith(("alloc::vec::Vec<u8", "&mut alloc::vec::Vec<u8", "alloc::string::String", "&mut alloc::string::String"))) and self.fmt_error_built == 0:
                    return ("D3", "formatting into an in-memory %s cannot fail (no local Display impl constructs fmt::Error)" % recv.split("<")[0].split("::")[-1])
            # D5: constant arguments of fallible chrono constructors
            if name.endswith(("FixedOffset::east_opt", "FixedOffset::west_opt", "and_hms_opt", "TimeZone::timestamp_opt", "NaiveTime::from_hms_opt", "NaiveDate::from_ymd_opt")):
                vals = [a[0][1] for a in root[2] if a[0][0] == "const"]
                nonconst = [a for a in root[2][(1 if "and_hms_opt" in name or "timestamp_opt" in name else 0):] if a[0][0] != "const"]
                if not nonconst and all(v in (0, "0") for v in vals if isinstance(v, int)):
                    return ("D5", "%s with constant in-range arguments %s" % (name.split("::")[-1], vals))
            # std axioms
            if name.endswith("Iterator>::next") and "core::str::iter::Split" in (self.iter_type(fn, root) or ""):
                return ("D5", "str::split yields at least one item")
        # D11 length guards for pop/first/last/next-of-iter
        r = self.length_guarded(s, unwrap_ap=ap)
        if r:
            return r
        return None

    def prefix_slice(self, s):
        """D12: `name[prefix.len()..]` behind `name.starts_with(prefix)`, `name[..name.len()-1]` behind `name.ends_with(c)`."""
        fn, t = s.fn, s.term
        if "str" not in t["callee"]["path"] and "String" not in t["callee"]["path"]:
            return None
        base = fn.apath(t["args"][0])
        rng = fn.apath(t["args"][1])
        r = rng[0]
        if r[0] != "agg":
            return None
        for g in fn.guards_of(s.bb):
            d = fn.guard_desc(g)
            if d[0] != "bool" or d[2] is not True or d[1][0][0] != "call":
                continue
            c = d[1][0]
            if c[1].endswith("core::str::<impl str>::starts_with") and r[1].endswith("RangeFrom::RangeFrom"):
                hay, needle = c[2][0], c[2][1]
                start = r[2][0]
                if same_value(self.strip_deref(hay), self.strip_deref(base)) and start[0][0] == "call" and start[0][1].endswith("::len") and \
                        same_value(self.strip_deref(start[0][2][0]), self.strip_deref(needle)):
                    return ("D12", "slice starts at prefix.len() behind `starts_with(prefix)`: in range and on a character boundary")
            if c[1].endswith("core::str::<impl str>::ends_with") and r[1].endswith(("Range::Range", "RangeTo::RangeTo")):
                hay = c[2][0]
                if same_value(self.strip_deref(hay), self.strip_deref(base)):
                    return ("D12", "slice drops the last character behind `ends_with(char)`")
        return None

    def iter_type(self, fn, root):
        bb = root[3]
        t = fn.blocks[bb]["term"]
        g = t["callee"].get("gargs", [])
        return g[0] if g else None

    def recv_type(self, fn, root):
        bb = root[3]
        t = fn.blocks[bb]["term"]
        g = t["callee"].get("gargs", [])
        if g:
            return g[0]
        return t["callee"].get("impl_self")

    def recv_key(self, fn, call_t):
        """Identity of the receiver place of a method call (first argument)."""
        import c03
        a = call_t["args"][0]
        ap = fn.apath(a)
        loc = c03.underlying_local(fn, a)
        return (loc, ap[1]) if loc is not None else (c03.val_key(ap))

    def peek_then_next(self, s, root):
        fn = s.fn
        nb = root[3]
        nt = fn.blocks[nb]["term"]
        it = self.iter_type(fn, root) or ""
        if not it.startswith("core::iter::adapters::peekable::Peekable<"):
            return None
        key = self.recv_key(fn, nt)
        # a necessary Some-edge of a test on peek(recv) (possibly cloned) ...
        guard_blocks = []
        for g in fn.guards_of(nb):
            d = fn.guard_desc(g)
            inner = None
            pos = None
            if d[0] == "variant" and d[3] == "Some":
                inner, pos = self.peel(d[1]), True
            elif d[0] == "bool" and d[1][0][0] == "call" and d[1][0][2] and d[1][0][1].endswith(("is_some", "is_none")):
                inner = self.peel(d[1][0][2][0])
                pos = (d[1][0][1].endswith("is_some") and d[2]) or (d[1][0][1].endswith("is_none") and not d[2])
            elif d[0] == "variant" and d[3] == "Continue":
                # `self.0.peek()?`
                r = d[1][0]
                if r[0] == "call" and r[1].endswith("Try>::branch") and r[2]:
                    inner, pos = self.peel(r[2][0]), True
            if inner is not None and pos and inner[0][0] == "call" and inner[0][1].endswith("Peekable::<I>::peek") and not [p for p in inner[1] if p not in ("as Some", "0")]:
                pt = fn.blocks[inner[0][3]]["term"]
                if self.recv_key(fn, pt) == key:
                    guard_blocks.append((g[0], g[1], inner[0][3]))
        if not guard_blocks:
            return None
        # ... with no consuming call on the same receiver between that peek and this next()
        for sb, lab, pb in guard_blocks:
            succs = [x for _, x in fn.succs(pb)]
            fwd = set()
            for x in succs:
                fwd |= fn.reachable(x, cut_blocks={pb})
            between = fwd & fn.can_reach({nb}, cut_blocks={pb})
            clean = True
            for b in between:
                if b in (pb, nb):
                    continue
                t = fn.blocks[b]["term"]
                if t["k"] == "call" and "callee" in t and t["args"] and t["callee"]["path"].endswith(("Iterator>::next", "::next", "::next_if", "::nth", "::by_ref", "::take_while", "::skip_while")):
                    if self.recv_key(fn, t) == key:
                        clean = False
            # the peek must be re-evaluated on every way round a loop: pb dominates nb
            if clean and fn.dominates(pb, nb):
                return ("D2", "next() follows a peek() on the same stream that was tested Some, with no consuming call in between")
        return None

    def peek_is_some(self, s, root):
        """peek().unwrap() behind `peek().is_some()` on the same stream with no consuming call in between."""
        fn = s.fn
        pb2 = root[3]
        key = self.recv_key(fn, fn.blocks[pb2]["term"])
        for g in fn.guards_of(pb2):
            d = fn.guard_desc(g)
            if d[0] == "bool" and d[1][0][0] == "call" and d[1][0][2] and d[1][0][1].endswith(("is_some", "is_none")):
                pos = (d[1][0][1].endswith("is_some") and d[2]) or (d[1][0][1].endswith("is_none") and not d[2])
                inner = self.peel(d[1][0][2][0])
                if pos and inner[0][0] == "call" and inner[0][1].endswith("Peekable::<I>::peek") and not inner[1]:
                    pb1 = inner[0][3]
                    if self.recv_key(fn, fn.blocks[pb1]["term"]) != key or not fn.dominates(pb1, pb2):
                        continue
                    fwd = set()
                    for _, x in fn.succs(pb1):
                        fwd |= fn.reachable(x, cut_blocks={pb1})
                    between = fwd & fn.can_reach({pb2}, cut_blocks={pb1})
                    clean = True
                    for b in between:
                        if b in (pb1, pb2):
                            continue
                        t = fn.blocks[b]["term"]
                        if t["k"] == "call" and "callee" in t and t["args"] and t["callee"]["path"].endswith(("Iterator>::next", "::next", "::next_if", "::nth")) and self.recv_key(fn, t) == key:
                            clean = False
                    if clean:
                        return ("D2", "peek() is repeated right after `peek().is_some()` on the same stream with no consuming call in between")
        return None

    def length_guarded(self, s, index=False, unwrap_ap=None):
        """D11: pop().unwrap() / remove(0) / [0] / first().unwrap() behind a length or emptiness test of the same container."""
        fn = s.fn
        import c03
        if unwrap_ap is not None:
            root = unwrap_ap[0]
            if root[0] != "call" or unwrap_ap[1]:
                return None
            if not root[1].endswith(("Vec::<T, A>::pop", "<impl [T]>::first", "<impl [T]>::last", "<impl [T]>::split_first", "<impl [T]>::split_last",
                                     "Iterator>::next", "VecDeque::<T, A>::pop_front")):
                return None
            ct = fn.blocks[root[3]]["term"]
            if root[1].endswith("Iterator>::next"):
                # iter().next() over a container: receiver of iter()
                a0 = fn.apath(ct["args"][0])
                src = a0
                while src[0][0] == "call" and src[0][2] and src[0][1].endswith(("::iter", "into_iter", "::values", "::keys")):
                    src = src[0][2][0]
                recv = c03.val_key(src)
            else:
                recv = c03.val_key(self.strip_deref(fn.apath(ct["args"][0])))
        else:
            t = s.term
            if s.kind == "assert":
                # BoundsCheck { len: Len(place) , index }
                recv = None
                ap = fn.apath(t["msg"]["a"])
                recv = ("len-of", ap_str(ap))
            else:
                recv = c03.val_key(self.strip_deref(fn.apath(t["args"][0])))
        # how long the container has to be for this access: pop/first/remove(0)/[0] need one element, `[i]` needs i+1, `[k..]` and
        # `[..k]` need k; anything else is not decided by a length test
        need = 1
        if index:
            iop = s.term["msg"]["b"] if s.kind == "assert" else (s.term["args"][1] if len(s.term.get("args", [])) > 1 else None)
            need = None
            if iop is not None:
                c = const_int(iop)
                iap = fn.apath(iop)
                if c is not None:
                    need = c + 1
                elif iap[0][0] == "const" and isinstance(iap[0][1], int) and not iap[1]:
                    need = iap[0][1] + 1          # the literal index went through a temporary
                elif iap[0][0] == "agg" and str(iap[0][1]).endswith(("RangeFrom::RangeFrom", "RangeFrom", "RangeTo::RangeTo", "RangeTo")) and len(iap[0][2]) == 1 \
                        and iap[0][2][0][0][0] == "const" and isinstance(iap[0][2][0][0][1], int) and not iap[1]:
                    need = iap[0][2][0][0][1]
            if need is None:
                need = 1 if s.kind != "assert" and not index else None
        if need is None:
            return None
        if need == 1 and s.kind == "assert" and "{closure" in fn.path:
            # D13: the slice is an element of slice::chunk_by / chunks / windows / split_inclusive ..: std yields only non-empty
            # sub-slices there.  `fn` is the closure handed to an iterator adaptor whose receiver is such an iterator, and the
            # indexed slice is the closure's element parameter
            src = place_of(s.term["msg"]["a"])
            param = None
            ds = fn.defs().get(src["l"], []) if src is not None and not src["p"] else []
            if len(ds) == 1 and ds[0][0] == "stmt":
                rv = ds[0][3]
                q = place_of(rv.get("a")) if rv.get("k") == "unop" and rv.get("op") == "PtrMetadata" else (rv.get("place") if rv.get("k") == "len" else None)
                if q is not None and 2 <= q["l"] <= fn.raw["arg_count"] and not [x for x in q["p"] if x != "*"] and not fn.defs().get(q["l"]):
                    param = q["l"]
            if param is not None:
                NONEMPTY = ("slice::iter::ChunkBy<", "slice::iter::ChunkByMut<", "slice::iter::Chunks<", "slice::iter::ChunksExact<", "slice::iter::RChunks<",
                            "slice::iter::Windows<")
                parent = self.F.fns.get((fn.raw.get("root") or {}).get("id"))
                for g in ([parent] if parent is not None else []) + [c for c in self.F.by_crate.get(fn.crate, []) if fn.path.startswith(c.path + "::{closure")]:
                    for bb, t in g.calls():
                        if "callee" not in t or len(t["args"]) < 2:
                            continue
                        a1 = g.apath(t["args"][1])
                        if a1[0][0] == "agg" and a1[0][1] == "closure:" + fn.path and t["callee"]["path"].split("::")[-1] in ("map", "for_each", "filter_map", "flat_map", "all", "any"):
                            rty = str((place_of(t["args"][0]) or {}).get("ty", ""))
                            if any(n_ in rty for n_ in NONEMPTY) and "Rev<" not in rty.split("slice::iter")[0]:
                                return ("D13", "element of %s: std yields non-empty sub-slices" % rty.split("<")[0].split("::")[-1])
        for g in fn.guards_of(s.bb):
            d = fn.guard_desc(g)
            if d[0] == "bool":
                txt = ap_str(d[1])
                r = d[1][0]
                if r[0] == "binop" and r[1] in ("Eq", "Ne", "Ge", "Gt", "Lt", "Le"):
                    for x, y in ((r[2], r[3]), (r[3], r[2])):
                        if x[0][0] == "call" and x[0][1].endswith(("::len",)) and y[0][0] == "const" and isinstance(y[0][1], int):
                            cont = c03.val_key(self.strip_deref(x[0][2][0]))
                            k = y[0][1]
                            have = 0
                            if r[1] == "Eq" and d[2]:
                                have = k
                            elif r[1] == "Ne" and not d[2]:
                                have = k
                            elif r[1] == "Ge" and d[2] and x is r[2]:
                                have = k
                            elif r[1] == "Gt" and d[2] and x is r[2]:
                                have = k + 1
                            elif r[1] == "Lt" and not d[2] and x is r[2]:
                                have = k
                            elif r[1] == "Le" and not d[2] and x is r[2]:
                                have = k + 1
                            elif r[1] == "Ne" and d[2] and k == 0:
                                have = 1
                            if have >= need and have >= 1 and same_key(cont, recv):
                                return ("D11", "behind a length test (`len() %s %d`) of the same container (needs %d element(s))" % (r[1], k, need))
                if r[0] == "call" and r[1].endswith(("::is_empty",)) and not d[2] and need <= 1:
                    cont = c03.val_key(self.strip_deref(r[2][0]))
                    if same_key(cont, recv):
                        return ("D11", "behind `!is_empty()` of the same container")
            if d[0] == "variant" and d[3] in ("Some", "Continue", "Ok") and need <= 1:
                inner = self.peel(d[1])
                # `first().ok_or_else(..)?`: the success edge of the `?` is the Some edge of first()
                for _ in range(3):
                    if inner[0][0] == "call" and inner[0][2] and inner[0][1].endswith(("Try>::branch", "Option::<T>::ok_or_else", "Option::<T>::ok_or")) and not inner[1]:
                        inner = inner[0][2][0]
                if inner[0][0] == "call" and inner[0][1].endswith(("<impl [T]>::first", "<impl [T]>::last", "<impl [T]>::split_first", "<impl [T]>::split_last")) \
                        and (d[3] == "Some" or inner is not self.peel(d[1])):
                    cont = c03.val_key(self.strip_deref(inner[0][2][0]))
                    if same_key(cont, recv):
                        return ("D11", "behind first()/last()/split_first()/split_last() of the same container being Some")
        return None

    def strip_deref(self, ap):
        while ap[0][0] == "call" and len(ap[0][2]) == 1 and ap[0][1].endswith(("Deref>::deref", "DerefMut>::deref_mut", "::as_slice", "::as_mut_slice", "::as_str")):
            ap = (ap[0][2][0][0], ap[0][2][0][1] + ap[1])
        return ap


def same_value(a, b):
    import c03
    return c03.val_key(a) == c03.val_key(b)


def same_key(a, b):
    return a == b


# =========================================================================================
# D0: preconditions of the thin arithmetic wrappers, pushed to their callers
# =========================================================================================
# wrapper path -> (index of the divisor argument, projection to add, description)
DIVISOR_OF = {
    "<&'a types::bigrat::BigRat as core::ops::arith::Div>::div": (1, ()),
    "<&'a types::bigrat::BigRat as core::ops::arith::Rem>::rem": (1, ()),
    "<&'a types::bigint::BigInt as core::ops::arith::Div>::div": (1, ()),
    "<&'a types::bigint::BigInt as core::ops::arith::Rem>::rem": (1, ()),
    "types::bigrat::BigRat::ratio": (1, ()),
    "types::bigrat::BigRat::small_ratio": (1, ()),
    "<&'a types::numeric::Numeric as core::ops::arith::Div<&'b types::numeric::Numeric>>::div": (1, ()),
    "<&'a types::numeric::Numeric as core::ops::arith::Rem<&'b types::numeric::Numeric>>::rem": (1, ()),
    "types::numeric::Numeric::div_rem": (1, ()),
    "types::numeric::Numeric::from_frac": (1, ()),
    "types::number::Number::invert": (0, ("value",)),
}
WRAPPER_SITE_FNS = set(DIVISOR_OF) | {"<types::bigrat::BigRat as core::convert::From<f64>>::from"}

NZ_CALLS = ("types::numeric::Numeric::one", "types::bigint::BigInt::one", "types::bigrat::BigRat::one", "types::number::Number::one")


def nonzero(fn, ap, depth=0):
    """Is the value described by access path `ap` provably non-zero? Returns reason or None."""
    if depth > 6:
        return None
    root, projs = ap
    if root[0] == "const":
        return "constant %s" % root[1] if root[1] not in (0, "0") else None
    if root[0] == "call":
        n = root[1]
        if n in NZ_CALLS and not projs:
            return n.split("::")[-2] + "::one()"
        if n == "types::number::Number::one" and projs == ("value",):
            return "Number::one().value"
        if "core::convert::From<" in n and n.endswith(">::from") and root[2] and root[2][0][0][0] == "const":
            v = root[2][0][0][1]
            return ("from(%s)" % v) if v not in (0, "0") else None
        if n.endswith(("types::bigrat::BigRat::denom",)) and not projs:
            return "a denominator is never zero"
        if n.endswith(("types::bigint::BigInt::pow", "types::numeric::Numeric::pow", "types::numeric::Numeric::abs", "types::bigrat::BigRat::abs", "Clone>::clone")) and not projs and root[2]:
            r = nonzero(fn, root[2][0], depth + 1)
            return ("%s of non-zero (%s)" % (n.split("::")[-1], r)) if r else None
        if "core::convert::From<types::bigint::BigInt>>::from" in n or "core::convert::From<types::bigrat::BigRat>>::from" in n:
            r = nonzero(fn, root[2][0], depth + 1)
            return r
        if n.endswith("types::bigrat::BigRat::ratio") and root[2]:
            r = nonzero(fn, root[2][0], depth + 1)
            return ("ratio with non-zero numerator (%s)" % r) if r else None
        if n.endswith(("arith::Mul<&'b types::numeric::Numeric>>::mul", "as core::ops::arith::Mul>::mul")) and len(root[2]) == 2:
            a, b = nonzero(fn, root[2][0], depth + 1), nonzero(fn, root[2][1], depth + 1)
            return "product of non-zero values" if a and b else None
        if n.endswith("types::number::Number::powi") and projs == ("value",) and root[2]:
            r = nonzero(fn, (root[2][0][0], root[2][0][1] + ("value",)), depth + 1)
            return ("power of non-zero (%s)" % r) if r else None
    if root[0] == "agg" and root[1] == "types::number::Number::Number" and projs[:1] == ("value",):
        return nonzero(fn, (root[2][0][0], root[2][0][1] + projs[1:]), depth + 1)
    return None


def value_reset_to_one(fn, op, bb):
    """The operand borrows a local whose `.value` was assigned Numeric::one() on every path (dominating assignment)."""
    import c03
    l = c03.underlying_local(fn, op)
    if l is None:
        return False
    for i, j, st in fn.stmts():
        pl = st.get("place")
        if st["k"] == "assign" and pl and pl["l"] == l and len(pl["p"]) == 1 and isinstance(pl["p"][0], dict) and pl["p"][0].get("f") == "value" and st["rv"]["k"] == "use" and fn.dominates(i, bb):
            src = fn.apath(st["rv"]["a"])
            if src[0][0] == "call" and src[0][1].endswith("types::numeric::Numeric::one") and not src[1]:
                return True
    return False


def divisor_obligations(F, reach):
    """[(fn, bb, term, wrapper, divisor access path)] for every call of a divisor-taking wrapper in the reachable set."""
    out = []
    for fid in reach:
        fn = F.fns[fid]
        if fn.crate != CORE:
            continue
        for bb, t in fn.calls():
            if "callee" not in t:
                continue
            p = t["callee"]["path"]
            if p in DIVISOR_OF:
                idx, extra = DIVISOR_OF[p]
                ap = fn.apath(t["args"][idx])
                ap = (ap[0], ap[1] + extra)
                out.append((fn, bb, t, p, ap, idx))
    return out



# wrapper path -> index of the argument that must be a finite float (or a Numeric that is not a non-finite Float)
FINITE_OF = {
    "<types::bigrat::BigRat as core::convert::From<f64>>::from": 0,   # NumRat::from_float(NaN | inf) is None -> unwrap
    "types::numeric::Numeric::to_rational": 0,                         # its Float arm calls BigRat::from(x)
}


def finite_obligations(F, reach):
    out = []
    for fid in reach:
        fn = F.fns[fid]
        if fn.crate != CORE:
            continue
        for bb, t in fn.calls():
            if "callee" in t and t["callee"]["path"] in FINITE_OF:
                idx = FINITE_OF[t["callee"]["path"]]
                out.append((fn, bb, t, t["callee"]["path"], fn.apath(t["args"][idx]), idx))
    return out


def _strip_float(ap):
    """Access path of the Numeric a float payload was taken from: drop a trailing (`as Float`, `0`) and derefs."""
    pr = tuple(x for x in ap[1] if x != "*")
    if pr[-2:] == ("as Float", "0"):
        pr = pr[:-2]
    return (ap[0], pr)


def decide_finite(F, fn, bb, t, wrapper, ap, idx):
    """Is the float (or Numeric) handed to BigRat::from(f64) / Numeric::to_rational shown to be finite here?"""
    import c03
    # 1. the operand is this wrapper's own parameter (or its Float payload): pushed to its callers
    if fn.path in FINITE_OF and _strip_float(ap)[0] == ("arg", FINITE_OF[fn.path] + 1) and not _strip_float(ap)[1]:
        return ("D0", "the value is this wrapper's own parameter: precondition pushed to its callers")
    want = c03.val_key(_strip_float(ap))

    def same(x):
        return c03.val_key(_strip_float(x)) == want

    # 2. the strict magnitude test `|x| < c` (false for NaN and for the infinities) dominates the call
    for g in fn.guards_of(bb):
        d = fn.guard_desc(g)
        if d[0] == "bool" and d[2] is True:
            r = d[1][0]
            if r[0] == "call" and r[1].endswith("::lt") and not d[1][1] and r[2] and r[2][0][0][0] == "call" and r[2][0][0][1].endswith("Numeric::abs") \
                    and same(r[2][0][0][2][0]) and r[2][1][0][0] in ("call", "const"):
                return ("D0", "behind the strict magnitude test `|x| < c`, which NaN and the infinities fail")

    # 3. cut gate: with the edges `is_finite(x) == true`, `x is Rational`, and the finite classes of `x.classify()` removed,
    #    the call must be unreachable
    def acc(kind, gap, info):
        r = gap[0]
        if kind == "bool" and r[0] == "call" and r[1].endswith("f64>::is_finite") and not gap[1] and same(r[2][0]):
            return {"true"}
        if kind == "variant" and info.get("enum", "").endswith("types::numeric::Numeric") and same(gap):
            return {"Rational"}
        if kind == "variant" and info.get("enum", "").endswith("num::FpCategory") and r[0] == "call" and r[1].endswith("::classify") and same(r[2][0]):
            return {"Zero", "Subnormal", "Normal"}
        return None
    res, matched = k2.cut_gate(fn, [bb], acc)
    if matched and res[bb]:
        return ("D0", "reachable only through `is_finite()`, a finite class of `classify()`, or the Rational variant of the same value")
    return None


_fz_cache = {}


def float_zero_lines(F, fn):
    """Source lines of fn (or of the function a closure lives in) holding a comparison with the literal Numeric::Float(0.0)
    (the operand is a promoted constant in MIR, so its value is read from the HIR)."""
    from facts import hir_walk
    key = fn.id
    if key in _fz_cache:
        return _fz_cache[key]
    owner = fn
    if "{closure" in fn.path:
        base = fn.path.split("::{closure")[0]
        cands = [f for f in F.by_crate[fn.crate] if f.path == base]
        if cands:
            owner = cands[0]
    lines = set()
    try:
        h = F.hir_of(owner)
    except AnchorLost:
        h = None
    if h is not None:
        for n in hir_walk(h["body"]):
            if n.get("k") == "Binary" and n.get("op") in ("Eq", "Ne"):
                for side in (n["a"], n["b"]):
                    e = side
                    while e.get("k") in ("AddrOf",):
                        e = e["e"]
                    if e.get("k") == "Call" and e["f"].get("k") == "Path" and e["f"]["r"].get("ctor_of", "").endswith("Numeric::Float") and e["args"] and \
                            e["args"][0].get("k") == "Lit" and float(e["args"][0]["lit"].get("v", 1) or 0) == 0.0:
                        lines.add(n.get("line"))
                        lines.add(side.get("line"))
    _fz_cache[key] = lines
    return lines


def decide_divisor(F, fn, bb, t, wrapper, ap, idx, both_zeros=False):
    """both_zeros: the obligation is "the quotient is Some", i.e. the divisor is neither the rational 0 nor Float(0.0)
    (Numeric's derived == tells them apart); float underflow makes products and powers useless as evidence there."""
    # 1. the caller is itself a wrapper and the divisor is its own divisor parameter: pushed further up
    if fn.path in DIVISOR_OF:
        pidx, pextra = DIVISOR_OF[fn.path]
        if ap[0] == ("arg", pidx + 1):
            return ("D0", "divisor is this wrapper's own parameter: precondition pushed to its callers")
        r = ap[0]
        if r[0] == "call" and r[1].endswith("types::numeric::Numeric::parity") and ap[1] == ("as Rational", "1") and r[2][1] == (("arg", pidx + 1), ()):
            return ("D0", "divisor is the rational form of this wrapper's own parameter: precondition pushed to its callers")
    # float arms: IEEE division does not panic
    import k4
    if k4.float_guarded(fn, bb):
        return ("D0", "float arm (IEEE division does not panic)")
    r = nonzero(fn, ap)
    if r and both_zeros and ("product" in r or "power" in r or "pow" in r or "abs" in r):
        r = None
    if r:
        return ("D0", "divisor is non-zero by construction: " + r)
    if ap[1][-1:] == ("value",) and value_reset_to_one(fn, t["args"][idx], bb):
        return ("D0", "divisor's value was reset to Numeric::one()")
    # 2. an exact zero test of the same value guards the call
    fz = float_zero_lines(F, fn)

    def acc(kind, gap, info):
        if kind != "bool":
            return None
        r = gap[0]
        if r[0] == "call" and r[1] in ("<types::numeric::Numeric as core::cmp::PartialEq>::eq", "<types::numeric::Numeric as core::cmp::PartialEq>::ne",
                                        "<types::bigint::BigInt as core::cmp::PartialEq>::eq", "<types::bigint::BigInt as core::cmp::PartialEq>::ne",
                                        "<types::bigrat::BigRat as core::cmp::PartialEq>::eq", "<types::bigrat::BigRat as core::cmp::PartialEq>::ne"):
            args = r[2]
            zero = [a for a in args if a[0][0] == "call" and a[0][1].endswith(("::zero",))] + [a for a in args if a[0][0] == "agg" and "Float" in a[0][1]] + \
                [a for a in args if a[0][0] == "const" and "promoted" in str(a[0][1]) and "types::numeric::Numeric" in str(a[0][1]) and fn.blocks[r[3]]["term"]["loc"].get("line") in fz]
            other = [a for a in args if a not in zero]
            if zero and other and same_value(other[0], ap):
                return {"false"} if r[1].endswith("::eq") else {"true"}
        return None
    if both_zeros:
        def only(which):
            def f(kind, gap, info):
                a = acc(kind, gap, info)
                if not a:
                    return None
                isfloat = any((x[0][0] == "agg" and "Float" in x[0][1]) or (x[0][0] == "const" and "promoted" in str(x[0][1])) for x in gap[0][2])
                return a if isfloat == (which == "float") else None
            return f
        r1, m1 = k2.cut_gate(fn, [bb], only("rational"))
        r2, m2 = k2.cut_gate(fn, [bb], only("float"))
        if m1 and m2 and r1[bb] and r2[bb]:
            return ("D0", "behind exact tests of the divisor against both the rational zero and Float(0.0)")
        if m1 and r1[bb]:
            return None
    res, matched = k2.cut_gate(fn, [bb], acc)
    if matched and res[bb]:
        return ("D0", "behind an exact zero test of the divisor")
    # 3. the test has been taken out into a private helper (`check(unit)?`): the same question on the normalised function, where
    #    the helper's body is in place and its Err returns are known not to continue (inliner.thread_try)
    if not both_zeros and "{closure" not in fn.path and not getattr(fn, "inlined_ids", None):
        nf = F.inlined(fn, keep=("Option::<T>", "Result::<T, E>", "Iterator", "bool>::then"))
        if nf is not fn and bb < len(nf.blocks) and nf.blocks[bb]["term"] and nf.blocks[bb]["term"].get("k") == "call" \
                and nf.blocks[bb]["term"].get("callee", {}).get("path") == t["callee"]["path"]:
            base = fn.apath(t["args"][idx])
            extra = tuple(ap[1][len(base[1]):]) if ap[0] == base[0] and tuple(ap[1][:len(base[1])]) == tuple(base[1]) else None
            if extra is not None:
                nb = nf.apath(nf.blocks[bb]["term"]["args"][idx])
                ap_n = (nb[0], tuple(nb[1]) + extra)
                fz_n = fz

                def acc_n(kind, gap, info):
                    if kind != "bool":
                        return None
                    r = gap[0]
                    if r[0] == "call" and r[1] in ("<types::numeric::Numeric as core::cmp::PartialEq>::eq", "<types::numeric::Numeric as core::cmp::PartialEq>::ne"):
                        args = r[2]
                        zero = [a for a in args if a[0][0] == "call" and a[0][1].endswith(("::zero",))]
                        other = [a for a in args if a not in zero]
                        if zero and other and same_value(other[0], ap_n):
                            return {"false"} if r[1].endswith("::eq") else {"true"}
                    return None
                res, matched = k2.cut_gate(nf, [bb], acc_n)
                if matched and res[bb]:
                    return ("D0", "behind an exact zero test of the divisor in a private helper whose refusal ends the function (`check(..)?`)")
    return None


# =========================================================================================
# justification table and the per-property driver
# =========================================================================================
def load_table():
    p = os.path.join(facts.VERIF, "tables", "panic_justified.json")
    with open(p) as fh:
        return json.load(fh)["entries"]


def normfn(path):
    """Closure ordinals change when an unrelated closure is added to the function: ignore them in table keys."""
    return re.sub(r"\{closure#\d+\}", "{closure}", path)


def stripfn(path):
    """A closure is its parent's code: table lines keep applying when code moves between a function and its closures."""
    return re.sub(r"(::\{closure(#\d+)?\})+$", "", path)


class TableIndex:
    """Lines of a justification table, looked up for a site: first the lines written for exactly this function, then those for
    the same function modulo closures, then those for a function this one is a private single-caller helper of (`extract
    function` moves a site down that chain).  Every line still has its quota and its machine-checked backing, evaluated on the
    site where it is now."""

    def __init__(self, F, table):
        self.G = cg.get(F)
        self.exact, self.loose = {}, {}
        for e in table:
            # a line written for a function that has since moved to another module (same item, other path) goes with it
            path = e["fn"]
            root = stripfn(path)
            if not any(f.path == root for fs in F.by_crate.values() for f in fs):
                for crate in F.by_crate:
                    to = F.moved_to(crate, root)
                    if to:
                        path = to + path[len(root):]
                        break
            self.exact.setdefault((normfn(path), e["what"]), []).append(e)
            self.loose.setdefault((stripfn(path), e["what"]), []).append(e)

    def lines(self, fn, what):
        out = list(self.exact.get((normfn(fn.path), what), []))
        for key in self.G.owner_chain(fn):
            for e in self.loose.get((key, what), []):
                if not any(e is x for x in out):
                    out.append(e)
        return out


def site_key(s, ordinal):
    return "%s|%s|%d" % (s.fn.path, s.what, ordinal)


def run(chk, F, which):
    G, rs, reach, sites = inventory(F, which)
    D = Discharger(F, G, reach)
    table = load_table()
    TI = TableIndex(F, table)
    used = {}
    counts = {}
    n_site = 0
    pid = chk.pid
    # order sites deterministically: by function path, then block index
    sites.sort(key=lambda s: (s.fn.path, s.what, s.bb))
    ordn = {}
    for s in sites:
        n_site += 1
        k = (s.fn.path, s.what)
        ordn[k] = ordn.get(k, 0) + 1
        fk = "%s::%s" % (s.fn.crate, s.fn.path)
        summary = "%s#%d" % (s.what, ordn[k])
        where = s.fn.where(s.bb)
        if s.fn.path in WRAPPER_SITE_FNS and s.kind == "call" and s.what.split(":")[0] in ("ratio-div", "bigint-div", "ratio-new", "unwrap"):
            chk.ok("panic-site", fk, summary, where, "D0: precondition of this thin wrapper is pushed to its callers (see divisor obligations)")
            counts["D0w"] = counts.get("D0w", 0) + 1
            continue
        r = D.decide(s)
        if r:
            chk.ok("panic-site", fk, summary, where, "%s: %s" % r, trivial=(r[0] == "D7"))
            counts[r[0]] = counts.get(r[0], 0) + 1
            continue
        es = TI.lines(s.fn, k[1])
        # several lines may justify sites of the same kind in one function (each with its own machine-checked backing): the site is
        # justified by the first line with quota left whose backing holds for *this* site
        e, why, failed = None, "", None
        for cand in es:
            if used.get(id(cand), 0) < cand.get("n", 1):
                ok, why_ = backing_holds(F, s, cand)
                if ok:
                    e, why = cand, why_
                    break
                failed = failed or (cand, why_)
        if e is not None:
            used[id(e)] = used.get(id(e), 0) + 1
            chk.ok("panic-site", fk, summary, where, "D8 justified: %s%s" % (e["reason"], (" [checked: %s]" % why) if why else ""))
            counts["D8"] = counts.get("D8", 0) + 1
            continue
        if failed is not None:
            chk.finding("panic-site", fk, summary, where, "the justification `%s` no longer holds: %s" % (failed[0]["reason"][:100], failed[1]),
                        path=G.path_to(reach, s.fn.id))
            continue
        chk.finding("panic-site", fk, summary, where,
                    "unjustified panic site reachable from the %s entry points: %s (no discharge rule D0-D11 applies and there is no entry in tables/panic_justified.json)" % (
                        "query" if which == "C04" else "loader", describe(s)), path=G.path_to(reach, s.fn.id))
    # table entries that matched nothing: the justified code is gone (stale table) - informational only
    stale = [e for e in table if used.get(id(e), 0) == 0 and any(f.path == e["fn"] for f in F.by_crate[CORE]) is False]
    chk.extra["discharge_counts"] = counts
    chk.extra["roots"] = len(rs)
    chk.extra["reachable_functions"] = len(reach)
    chk.extra["panic_sites"] = n_site
    # divisor obligations (D0)
    obs = divisor_obligations(F, reach)
    obs.sort(key=lambda o: (o[0].path, o[3], o[1]))
    od = {}
    for fn, bb, t, w, ap, idx in obs:
        k = (fn.path, w)
        od[k] = od.get(k, 0) + 1
        fk = "%s::%s" % (fn.crate, fn.path)
        summary = "divisor-of:%s#%d" % (w.split("::")[-1].split(">")[0], od[k])
        r = decide_divisor(F, fn, bb, t, w, ap, idx)
        if r:
            chk.ok("divisor-nonzero", fk, summary, fn.where(bb), "%s: %s" % r)
            continue
        es = TI.lines(fn, "divisor:" + w.split("::")[-1])
        e = None
        for cand in es:
            if used.get(id(cand), 0) < cand.get("n", 1):
                e = cand
                break
        if e is not None:
            used[id(e)] = used.get(id(e), 0) + 1
            ok, why = backing_holds(F, Site(fn, bb, "call", "divisor", t, False), e)
            if ok:
                chk.ok("divisor-nonzero", fk, summary, fn.where(bb), "D8 justified: %s%s" % (e["reason"], (" [checked: %s]" % why) if why else ""))
                continue
            chk.finding("divisor-nonzero", fk, summary, fn.where(bb), "the justification `%s` no longer holds: %s" % (e["reason"][:100], why))
            continue
        chk.finding("divisor-nonzero", fk, summary, fn.where(bb),
                    "%s is called with a divisor that is not shown to be non-zero (%s): division by zero panics inside num-rational/num-bigint" % (w.split("::")[-1], ap_str(ap)[:120]),
                    path=G.path_to(reach, fn.id))
    # finite-float obligations (D0): BigRat::from(f64) unwraps NumRat::from_float, which is None for NaN and the infinities
    fobs = finite_obligations(F, reach)
    fobs.sort(key=lambda o: (o[0].path, o[3], o[1]))
    fd = {}
    for fn, bb, t, w, ap, idx in fobs:
        k = (fn.path, w)
        fd[k] = fd.get(k, 0) + 1
        fk = "%s::%s" % (fn.crate, fn.path)
        short = "from_f64" if "From<f64>" in w else w.split("::")[-1]
        summary = "finite-arg-of:%s#%d" % (short, fd[k])
        r = decide_finite(F, fn, bb, t, w, ap, idx)
        if r:
            chk.ok("float-finite", fk, summary, fn.where(bb), "%s: %s" % r)
            continue
        es = TI.lines(fn, "finite:" + short)
        e = next((c for c in es if used.get(id(c), 0) < c.get("n", 1)), None)
        if e is not None:
            used[id(e)] = used.get(id(e), 0) + 1
            ok, why = backing_holds(F, Site(fn, bb, "call", "finite", t, False), e)
            if ok:
                chk.ok("float-finite", fk, summary, fn.where(bb), "D8 justified: %s%s" % (e["reason"], (" [checked: %s]" % why) if why else ""))
                continue
            chk.finding("float-finite", fk, summary, fn.where(bb), "the justification `%s` no longer holds: %s" % (e["reason"][:100], why))
            continue
        chk.finding("float-finite", fk, summary, fn.where(bb),
                    "%s is called with a value that is not shown to be finite (%s): NaN or an infinity panics in BigRat::from(f64) "
                    "(`ln(-1)` or `exp(1000)` rendered through this path)" % (short, ap_str(ap)[:120]), path=G.path_to(reach, fn.id))
    if len(fobs) < 5:
        chk.anchor_lost("float-finite", "rink_core", "only %d calls of BigRat::from(f64)/Numeric::to_rational found in the reachable set (expected >= 5)" % len(fobs))
    if n_site < 200:
        chk.anchor_lost("panic-site", "rink_core", "only %d panic-capable sites found in %d reachable functions (expected >= 200): the inventory is incomplete" % (n_site, len(reach)))
    # recursion: listed, not decided
    chk.extra["undecided"] = "termination, recursion depth and the cost of bignum operations are runtime quantities and are not decided"
    return G, reach


def describe(s):
    if s.kind == "assert":
        m = s.term["msg"]
        return "arithmetic check `%s` on %s" % (s.what, m.get("aty", ""))
    return "call of %s" % s.term["callee"]["path"]


# ---- backing predicates for table entries -------------------------------------------------------------
def backing_holds(F, s, e):
    b = e.get("backing")
    if not b:
        return True, ""
    fn_ = BACKING.get(b)
    if fn_ is None:
        return False, "unknown backing predicate %s" % b
    try:
        return fn_(F, s, e)
    except (AnchorLost, KeyError, IndexError, TypeError) as ex:
        return False, "backing check %s could not be evaluated: %r" % (b, ex)


def _guarded_by_call(suffix, polarity=True):
    def chk(F, s, e):
        fn = s.fn
        for g in fn.guards_of(s.bb):
            d = fn.guard_desc(g)
            if d[0] == "bool" and d[2] is polarity and any(c.endswith(suffix) for c in ap_calls(d[1])):
                return True, "behind `%s == %s`" % (suffix.split("::")[-1], polarity)
        return False, "no dominating `%s == %s` test" % (suffix, polarity)
    return chk


def _only_callers(allowed):
    def chk(F, s, e):
        G = cg.get(F)
        callers = sorted(F.fns[a].path for a, bs in G.edges.items() if s.fn.id in bs and a != s.fn.id)
        allowed_now = [F.moved_to(s.fn.crate, a) or a for a in allowed]
        bad = [c for c in callers if not any(c == a or c.startswith(a + "::{closure") for a in allowed_now)]
        return (not bad), ("callers: %s" % callers if not bad else "unexpected callers %s" % bad)
    return chk


I32 = (-(1 << 31), (1 << 31) - 1)


def hir_range_arg(F, fn, call_bb):
    """A range literal handed by reference (`&(0..=24)`) is a promoted constant in the MIR, and its bounds are not in the
    facts; the HIR has the literal.  For the call in block call_bb: the (lo, hi) of the `lo..=hi` literal among the arguments of
    the HIR call to the same function on the same line, or None."""
    from facts import hir_walk
    t = fn.blocks[call_bb]["term"]
    if t["k"] != "call" or "callee" not in t:
        return None
    name = t["callee"]["path"]
    root = fn
    if fn.raw.get("root"):
        root = F.fns.get(fn.raw["root"]["id"], fn)
    try:
        h = F.hir_of(root)
    except AnchorLost:
        return None
    lines = {t["loc"].get("line"), (t.get("fn_loc") or {}).get("line")}
    hits = [c for c in hir_walk(h["body"]) if c.get("k") == "Call" and c["f"].get("k") == "Path" and c["f"]["r"].get("path", "") == name and c.get("line") in lines]
    if len(hits) != 1:
        return None
    for a in hits[0]["args"]:
        e = a
        while e.get("k") in ("AddrOf", "DropTemps", "Paren") and e.get("e"):
            e = e["e"]
        if e.get("k") == "Call" and e["f"].get("k") == "Path" and e["f"]["r"].get("path", "").endswith("RangeInclusive::<Idx>::new") and len(e["args"]) == 2:
            vals = []
            for x in e["args"]:
                neg = x.get("k") == "Unary" and x.get("op") == "Neg"
                lit = x["a"] if neg else x
                if lit.get("k") != "Lit" or lit["lit"].get("lit") != "int":
                    return None
                vals.append(-lit["lit"]["v"] if neg else lit["lit"]["v"])
            return tuple(vals)
    return None


def ival(F, fn, ap, depth=0, bb=None):
    """Interval of an integer access path, or None when nothing bounds it (bb: the block whose dominating guards may be used).  Sources of bounds: constants; the Some payload of
    datetime::parse_range / the Ok payload of numeric_match (their RangeInclusive argument; parse_range's body is checked to filter
    with range.contains); the Some payload of parse_fixed(_, d) with a constant digit count d (|v| < 10^d); locals all of whose
    definitions are constants; and interval arithmetic over Add, Sub, Mul, Div, Rem."""
    if depth > 8:
        return None
    r, pr = ap
    if r[0] == "const" and isinstance(r[1], int) and not pr:
        return (r[1], r[1])
    if r[0] == "local" and pr in ((), ("0",)):
        lo = hi = None
        for d in fn.defs().get(r[1], []):
            c = None
            if d[0] == "stmt" and d[3].get("k") == "use":
                c = const_int(d[3]["a"])
            elif d[0] == "stmt" and d[3].get("k") == "agg" and len(d[3].get("ops", [])) >= 1 and pr == ("0",):
                c = const_int(d[3]["ops"][0])
            if c is None:
                return None
            lo = c if lo is None else min(lo, c)
            hi = c if hi is None else max(hi, c)
        return (lo, hi) if lo is not None else None
    if r[0] == "binop" and pr in ((), ("0",)):
        op = r[1].replace("WithOverflow", "")
        a, b = ival(F, fn, r[2], depth + 1, bb), ival(F, fn, r[3], depth + 1, bb)
        if op == "Rem" and b is not None and b[0] == b[1] and b[0] > 0:
            m = b[0] - 1
            if a is not None and a[0] >= 0:
                return (0, min(m, a[1]))
            return (-m, m)
        if a is None or b is None:
            return None
        if op == "Add":
            return (a[0] + b[0], a[1] + b[1])
        if op == "Sub":
            return (a[0] - b[1], a[1] - b[0])
        if op == "Mul":
            c = [x * y for x in a for y in b]
            return (min(c), max(c))
        if op == "Div" and b[0] == b[1] and b[0] > 0:
            q = [int(x / b[0]) for x in a]
            return (min(q), max(q))
        return None
    if r[0] == "call":
        name, args = r[1], r[2]

        def rng(x):
            rr = x[0]
            if rr[0] == "call" and rr[1].endswith("RangeInclusive::<Idx>::new") and not x[1]:
                lo, hi = ival(F, fn, rr[2][0], depth + 1), ival(F, fn, rr[2][1], depth + 1)
                if lo and hi and lo[0] == lo[1] and hi[0] == hi[1]:
                    return (lo[0], hi[0])
            if rr[0] == "const" and "promoted" in str(rr[1]) and isinstance(r[3], int):
                return hir_range_arg(F, fn, r[3])      # `&(lo..=hi)`: a promoted constant, read from the HIR
            return None
        if name == "parsing::datetime::parse_range" and pr == ("as Some", "0") and _parse_range_filters(F):
            return rng(args[2])
        if name == "parsing::datetime::numeric_match" and pr == ("as Ok", "0") and _parse_range_filters(F):
            return rng(args[3])
        if name == "parsing::datetime::parse_fixed" and pr == ("as Some", "0"):
            d = ival(F, fn, args[1], depth + 1)
            if d and d[0] == d[1] and 1 <= d[0] <= 9:
                return (-(10 ** d[0] - 1), 10 ** d[0] - 1)
        # unwrap(iN::from_str(S)) / from_str(S) as Ok.0 where `S.len() == k` dominates: |v| < 10^k
        inner = None
        if name.endswith("Result::<T, E>::unwrap") and not pr and args and args[0][0][0] == "call" and not args[0][1]:
            inner = args[0][0]
        elif pr == ("as Ok", "0"):
            inner = r
        if inner is not None and bb is not None and "core::str::traits::FromStr for i" in inner[1] and inner[1].endswith("::from_str"):
            src = inner[2][0]
            while src[0][0] == "call" and src[0][1].endswith(("Clone>::clone", "Deref>::deref", "::as_str", "Borrow<str>>::borrow")) and not src[1]:
                src = src[0][2][0]
            for g in fn.guards_of(bb):
                d = fn.guard_desc(g)
                # `s.len() == k` on its true edge, or `s.len() != k` on its false edge (the early-return form)
                if d[0] == "bool" and d[1][0][0] == "binop" and not d[1][1] and ((d[1][0][1] == "Eq" and d[2] is True) or (d[1][0][1] == "Ne" and d[2] is False)):
                    x, y = d[1][0][2], d[1][0][3]
                    xs = x[0][2][0] if x[0][0] == "call" and x[0][2] else None
                    while xs is not None and xs[0][0] == "call" and xs[0][1].endswith(("Clone>::clone", "Deref>::deref", "::as_str", "Borrow<str>>::borrow")) and not xs[1]:
                        xs = xs[0][2][0]
                    if y[0][0] == "const" and isinstance(y[0][1], int) and 1 <= y[0][1] <= 18 and x[0][0] == "call" and x[0][1].endswith(("String::len", "str::<impl str>::len")) \
                            and xs is not None and facts.ap_match(xs, src):
                        k_ = y[0][1]
                        return (-(10 ** k_ - 1), 10 ** k_ - 1)
    return None


_prf = {}


def _parse_range_filters(F):
    """parse_range(value, digits, range) = parse_fixed(..).filter(|v| range.contains(v)); numeric_match returns parse_range's value."""
    if "v" not in _prf:
        ok = False
        try:
            pr = F.find(CORE, "parsing::datetime::parse_range")
            calls = [t["callee"]["path"] for bb, t in pr.calls() if "callee" in t]
            clo = [c for c in F.closures_of(pr)]
            ok = any(c.endswith("Option::<T>::filter") for c in calls) and len(clo) == 1 and \
                any("callee" in t and t["callee"]["path"].endswith("RangeInclusive::<Idx>::contains") for bb, t in clo[0].calls())
            nm = F.find(CORE, "parsing::datetime::numeric_match")
            ok = ok and any("callee" in t and t["callee"]["path"] == "parsing::datetime::parse_range" for bb, t in nm.calls())
        except AnchorLost:
            ok = False
        _prf["v"] = ok
    return _prf["v"]


def _i32_interval(F, s, e):
    """Overflow assert of an i32/u32 Add/Sub/Mul: both operands have intervals and the result stays inside the type."""
    m = s.term["msg"]
    fn = s.fn
    a, b = ival(F, fn, fn.apath(m["a"]), 0, s.bb), ival(F, fn, fn.apath(m["b"]), 0, s.bb)
    if a is None or b is None:
        return False, "operand %s is not bounded by a constant, a range-checked parse or arithmetic on such values" % ap_str(fn.apath(m["a"] if a is None else m["b"]))[:100]
    op = m["op"]
    if op == "Add":
        r = (a[0] + b[0], a[1] + b[1])
    elif op == "Sub":
        r = (a[0] - b[1], a[1] - b[0])
    elif op == "Mul":
        c = [x * y for x in a for y in b]
        r = (min(c), max(c))
    else:
        return False, "operator %s" % op
    bits = INT_BITS.get(m.get("aty"), 0)
    lim = ((-(1 << (bits - 1)), (1 << (bits - 1)) - 1) if str(m.get("aty", "")).startswith("i") else (0, (1 << bits) - 1)) if bits else None
    ok = lim is not None and lim[0] <= r[0] and r[1] <= lim[1]
    return ok, ("operands in %s and %s, result in [%d, %d]" % (list(a), list(b), r[0], r[1]))


def _sign_times_parsed(F, s, e):
    """`value * sign`: one operand is a local whose definitions are the constants 1 and -1, the other the Ok payload of
    i32::from_str_radix: the product overflows only for i32::MIN * -1, and a Number token has no sign character."""
    m = s.term["msg"]
    fn = s.fn
    aps = [fn.apath(m["a"]), fn.apath(m["b"])]
    sign = [x for x in aps if ival(F, fn, x) is not None and -1 <= ival(F, fn, x)[0] and ival(F, fn, x)[1] <= 1]
    parsed = [x for x in aps if x[0][0] == "call" and x[0][1].endswith("<impl i32>::from_str_radix") and x[1] == ("as Ok", "0")]
    ok = m["op"] == "Mul" and len(sign) == 1 and len(parsed) == 1
    return ok, ("a parsed i32 times a sign in {-1, 1}" if ok else "operands are %s" % [ap_str(x)[:60] for x in aps])


def _nanos_scaling(F, s, e):
    """`nsecs * 10u32.pow(9 - f.len())` with nsecs parsed from the same string f: nsecs < 10^len(f), so the product is < 10^9."""
    m = s.term["msg"]
    fn = s.fn
    a, b = fn.apath(m["a"]), fn.apath(m["b"])
    sa, sb = ap_str(a), ap_str(b)
    import re as _re
    ok = m["op"] == "Mul" and "<impl u32>::from_str_radix" in sa and b[0][0] == "call" and b[0][1].endswith("<impl u32>::pow") and b[0][2][0][0] == ("const", 10)
    if ok:
        ex = b[0][2][1]
        ok = ex[0][0] == "binop" and ex[0][1].startswith("Sub") and ex[0][2][0] == ("const", 9) and "String::len(" in ap_str(ex[0][3])
        # the string whose length is taken is the one that was parsed (second component of the Number token)
        if ok:
            lens = _re.findall(r"String::len\((.*)\)", ap_str(ex[0][3]))
            ok = bool(lens) and lens[0][:80] in sa
    return ok, ("nanoseconds parsed from f, scaled by 10^(9 - len(f))" if ok else "operands are %s * %s" % (sa[:60], sb[:60]))


def _name_exponents_bounded(F, s, e):
    """`a + b` on the exponents of the names of a conversion target (eval_unit_name's merges): every exponent is the literal 1
    of a single name, a checked negation, or a checked product that passed `unsigned_abs() <= isize::MAX >> k` with k >= 8, so
    a sum needs 2^k terms to leave isize - more factors than a line of ordinary length has."""
    eun = F.find(CORE, "runtime::eval::eval_unit_name")
    fam = [eun] + [f for f in F.by_crate[CORE] if f.path.startswith(eun.path + "::{closure")]
    has_cmul = has_cneg = False
    bound = None
    for f in fam:
        for bb, t in f.calls():
            if "callee" in t:
                n = t["callee"]["path"]
                has_cmul = has_cmul or n.endswith("<impl isize>::checked_mul")
                has_cneg = has_cneg or n.endswith("<impl isize>::checked_neg")
        for i, j, st in f.stmts():
            rv = st.get("rv", {})
            if rv.get("k") == "binop" and rv["op"] == "Le" and "unsigned_abs" in ap_str(f.apath(rv["a"])):
                b = f.apath(rv["b"])
                if b[0][0] == "binop" and b[0][1] == "Shr" and b[0][3][0][0] == "const" and isinstance(b[0][3][0][1], int):
                    bound = b[0][3][0][1]
        for bb, blk in enumerate(f.blocks):
            t = blk["term"]
            if t["k"] == "assert" and not blk["cleanup"] and t["msg"].get("kind") in ("Overflow", "OverflowNeg") and str(t["msg"].get("aty", "isize")) == "isize" and t["msg"].get("op") in ("Mul", None):
                return False, "unchecked %s on a name exponent at %s" % (t["msg"].get("op") or "Neg", f.where(bb))
    ok = has_cmul and has_cneg and bound is not None and bound >= 8
    return ok, ("exponents: literal 1, checked_neg, checked_mul behind |v| <= isize::MAX >> %s" % bound if ok else
                "checked_mul %s, checked_neg %s, magnitude bound %s" % (has_cmul, has_cneg, bound))


_pbp = {}


def producers_bound_powers(F):
    """Global invariant behind the plain `a + b` on unit powers: every operation that can *grow* a power hands its result to a range
    test (|power| <= i32::MAX) before the result can become a value: (1) Value * Value and Value / Value - the only way
    eval_expr multiplies - build their Ok result only on the Continue edge of `powers_in_range(result)?`, for numbers and for
    substance amounts; (2) eval_quantity's product and quotient are returned through the loader's powers_in_range; (3) the range
    test itself compares unsigned_abs() with 2147483647; (4) Number::pow refuses a result outside that range (checked_mul +
    bound).  Two powers inside the range cannot overflow an i64 when added."""
    if "v" in _pbp:
        return _pbp["v"]
    why = []
    ok = True
    for name in ("<&'a runtime::value::Value as core::ops::arith::Mul<&'b runtime::value::Value>>::mul",
                 "<&'a runtime::value::Value as core::ops::arith::Div<&'b runtime::value::Value>>::div"):
        try:
            fn = F.find(CORE, name, exact=True)
        except AnchorLost:
            ok = False
            why.append("%s not found" % name)
            continue
        acts = [i for i, j, st in fn.stmts() if st.get("rv", {}).get("k") == "agg" and str(st["rv"].get("adt", "")).endswith("runtime::value::Value")
                and st["rv"].get("variant") in ("Number", "Substance")]

        def acc(kind, ap, info):
            r = ap[0]
            if kind == "variant" and r[0] == "call" and r[1].endswith("Try>::branch") and r[2] and r[2][0][0][0] == "call" and r[2][0][0][1].endswith("powers_in_range"):
                return {"Continue"}
            return None
        res, matched = k2.cut_gate(fn, acts, acc)
        good = len(acts) >= 2 and len(matched) >= 2 and all(res.values())
        ok = ok and good
        if not good:
            why.append("%s builds a result that did not pass powers_in_range" % name.split("::")[-1])
    # the helpers and the test
    try:
        dim = F.find(CORE, "types::dimensionality::Dimensionality::powers_in_range")
        bound = False
        for f in [dim] + list(F.closures_of(dim)):
            for i, j, st in f.stmts():
                rv = st.get("rv", {})
                if rv.get("k") == "binop" and rv["op"] in ("Le", "Lt") and "unsigned_abs" in ap_str(f.apath(rv["a"])):
                    c = const_int(rv["b"])
                    bv = f.apath(rv["b"])
                    bound = bound or (c is not None and c <= (1 << 31)) or ("2147483647" in ap_str(bv))
        ok = ok and bound
        if not bound:
            why.append("Dimensionality::powers_in_range does not compare unsigned_abs() with i32::MAX")
        for helper in ("runtime::value::powers_in_range", "loader::load::powers_in_range"):
            h = F.find(CORE, helper)
            if not any("callee" in t and t["callee"]["path"].endswith("Dimensionality::powers_in_range") for bb, t in h.calls()):
                ok = False
                why.append("%s does not call Dimensionality::powers_in_range" % helper)
        eq = F.find(CORE, "loader::load::eval_quantity")
        n = sum(1 for f in [eq] + list(F.closures_of(eq)) for bb, t in f.calls() if "callee" in t and t["callee"]["path"] == "loader::load::powers_in_range")
        muls = sum(1 for f in [eq] + list(F.closures_of(eq)) for bb, t in f.calls() if "callee" in t and t["callee"]["path"].endswith(("Dimensionality as core::ops::arith::Mul>::mul", "Dimensionality as core::ops::arith::Div>::div")))
        if n < muls or muls < 2:
            ok = False
            why.append("eval_quantity has %d products/quotients but %d range tests" % (muls, n))
        pw = F.find(CORE, "types::number::Number::pow")
        if not any("callee" in t and t["callee"]["path"].endswith("<impl i64>::checked_mul") for f in [pw] + list(F.closures_of(pw)) for bb, t in f.calls()):
            ok = False
            why.append("Number::pow no longer bounds the powers of its result")
    except AnchorLost as ex:
        ok = False
        why.append(str(ex))
    _pbp["v"] = (ok, "every producer of larger powers (Value mul/div, eval_quantity, Number::pow) range-tests its result" if ok else "; ".join(why))
    return _pbp["v"]


def _powers_bounded(F, s, e):
    return producers_bound_powers(F)


def _unit_name_constant_rational(F, s, e):
    """Context::show(.., bottom_const, ..): the constant of a conversion target.  Every caller passes Numeric::one() or the
    second component of eval_unit_name's result (directly, or through Substance::get_in_unit's parameter of the same name), and
    eval_unit_name with its closures contains no float producer (no Numeric::Float aggregate, no callee over f64): it combines
    Expr::Const payloads - which the lexer only builds as rationals, C01 literal-digits/no-float-fallback - with rational
    arithmetic."""
    G = cg.get(F)
    eun = F.find(CORE, "runtime::eval::eval_unit_name")
    for f in [eun] + list(F.closures_of(eun)):
        for bb, t in f.calls():
            if "callee" in t and ("f64" in t["callee"]["path"] or "Float" in t["callee"]["path"]):
                return False, "eval_unit_name calls %s" % t["callee"]["path"]
        for i, j, st in f.stmts():
            rv = st.get("rv", {})
            if rv.get("k") == "agg" and "Float" in str(rv.get("variant", "")):
                return False, "eval_unit_name builds a Numeric::Float at %s" % f.where(i, j)

    def arg_ok(c, a, depth=0):
        txt = ap_str(c.apath(a))
        if txt == "types::numeric::Numeric::one()" or "runtime::eval::eval_unit_name(" in txt:
            return True
        return False

    def sites_of(target, idx, depth=0):
        n = 0
        for a, bs in G.edges.items():
            if target.id not in bs:
                continue
            c = F.fns[a]
            for bb, t in c.calls():
                if "callee" in t and t["callee"]["path"] == target.path:
                    n += 1
                    if arg_ok(c, t["args"][idx]):
                        continue
                    base = c.path.split("::{closure")[0]
                    if depth == 0 and base == "runtime::substance::Substance::get_in_unit":
                        giu = F.find(CORE, "runtime::substance::Substance::get_in_unit")
                        ok, why = sites_of(giu, 4, 1)
                        if ok:
                            continue
                        return False, why
                    # a private function that hands on its own parameter: the obligation moves to its callers
                    cap = c.apath(t["args"][idx])
                    if cap[0][0] == "arg" and not cap[1] and depth < 3 and not c.raw.get("public") and "{closure" not in c.path:
                        ok, why = sites_of(c, cap[0][1] - 1, depth + 1)
                        if ok:
                            continue
                        return False, why
                    return False, "%s passes %s" % (c.path, ap_str(c.apath(t["args"][idx]))[:80])
        return (n > 0), ("%d call sites" % n if n else "no call site of %s found" % target.path)
    ok, why = sites_of(s.fn, 4)
    return ok, ("every bottom_const is Numeric::one() or eval_unit_name's constant, which has no float producer" if ok else why)


def _prefixes_nonzero(F, s, e):
    import datafiles
    f = datafiles.folder()
    zero = [n for n, x, _ in f.prefixes if f.pval(x) == 0]
    return (not zero), ("all %d prefixes of definitions.units are non-zero" % len(f.prefixes) if not zero else "zero-valued prefixes %s" % zero)


def _prefix_values_nonzero(F, s, e):
    """The prefix values prettify divides by are non-zero: (1) in the bundled database (data check) and (2) for any loaded
    text, because the only writer of Registry::prefixes pushes a value that passed both zero tests."""
    ok1, why1 = _prefixes_nonzero(F, s, e)
    writers = sorted(set(g.path for g, bb, j, f, how in cg.field_writes(F, "loader::registry::Registry", {"prefixes"}) if g.crate == CORE))
    if writers != ["loader::load::load_defs"]:
        return False, "Registry::prefixes is written by %s" % writers
    fn = F.find(CORE, "loader::load::load_defs")
    pushes = [(bb, t) for bb, t in fn.calls() if "callee" in t and t["callee"]["path"].endswith("Vec::<T, A>::push") and ap_str(fn.apath(t["args"][0])).endswith("registry.prefixes")]
    if len(pushes) != 1:
        return False, "expected one push into registry.prefixes, found %d" % len(pushes)
    bb, t = pushes[0]
    tup = fn.apath(t["args"][1])
    if tup[0][0] != "agg" or len(tup[0][2]) != 2:
        return False, "pushed value is not a (name, value) tuple"
    val = tup[0][2][1]
    while val[0][0] == "call" and val[0][1].endswith("Clone>::clone") and not val[1]:
        val = val[0][2][0]
    fz = float_zero_lines(F, fn)

    def acc_for(which):
        def acc(kind, gap, info):
            if kind != "bool":
                return None
            r = gap[0]
            if r[0] == "call" and r[1] in ("<types::numeric::Numeric as core::cmp::PartialEq>::eq", "<types::numeric::Numeric as core::cmp::PartialEq>::ne"):
                args = r[2]
                rz = [a for a in args if a[0][0] == "call" and a[0][1].endswith("::zero")]
                fzz = [a for a in args if a[0][0] == "const" and "promoted" in str(a[0][1]) and fn.blocks[r[3]]["term"]["loc"].get("line") in fz]
                z = rz if which == "rational" else fzz
                other = [a for a in args if a not in rz and a not in fzz]
                if z and other and same_value(other[0], val):
                    return {"false"} if r[1].endswith("::eq") else {"true"}
            return None
        return acc
    r1, m1 = k2.cut_gate(fn, [bb], acc_for("rational"))
    r2, m2 = k2.cut_gate(fn, [bb], acc_for("float"))
    ok2 = bool(m1) and bool(m2) and r1[bb] and r2[bb]
    return (ok1 and ok2), ("%s; the loader only registers a prefix whose value passed both zero tests" % why1 if ok1 and ok2 else
                            ("%s" % why1 if not ok1 else "load_defs registers prefixes without testing the value against zero (a definitions file with `kilo- 0` makes prettify divide by zero)"))


def _degree_units_exist(F, s, e):
    import c10
    import datafiles
    _, table = c10.degree_table(F)
    f = datafiles.folder()
    bad = []
    for deg, (name, zero, scale) in table.items():
        for u in (zero, scale):
            try:
                v, dims = f.lookup(u)
                if dims != {"K": 1} or (u == scale and v == 0):
                    bad.append(u)
            except Exception:  # noqa
                bad.append(u)
    return (not bad), ("the 6 zero constants and scale units are defined temperatures with non-zero scale" if not bad else "missing/ill-typed %s" % bad)


def _magnitude_gate(F, s, e):
    fn = s.fn
    for g in fn.guards_of(s.bb):
        d = fn.guard_desc(g)
        if d[0] == "bool" and d[2] is True:
            r = d[1][0]
            if r[0] == "call" and r[1].endswith("::lt") and "Numeric::abs(arg2.value)" in ap_str(d[1]):
                return True, "behind `|exp| < 2^31`"
    return False, "the magnitude gate `exp.value.abs() < 2^31` no longer dominates this site"


def _integer_gate(F, s, e):
    ok, why = _magnitude_gate(F, s, e)
    if not ok:
        return ok, why
    fn = s.fn
    for g in fn.guards_of(s.bb):
        d = fn.guard_desc(g)
        if d[0] == "bool" and "to_rational" in ap_str(d[1]) and "BigInt" in ap_str(d[1]):
            return True, "behind `|exp| < 2^31` and the integer (den == 1) test"
    return False, "no dominating den == 1 test"


def _take10(F, s, e):
    """`assert!(candidates.len() <= 10)` after the loop: every value the collection can have when the assert runs is empty, or
    was built from at most ten elements - `iter.take(k).collect()` or `From::from(v)` of a vector that was cut with
    `v.truncate(k)` (k <= 10) and not grown since.  Decided on the definitions of the asserted local in the MIR."""
    fn = s.fn
    lens = [(bb, t) for bb, t in fn.calls() if "callee" in t and t["callee"]["path"].endswith("BinaryHeap::<T, A>::len") and fn.dominates(bb, s.bb)]
    if not lens:
        return False, "the asserted length is not that of a BinaryHeap"
    pl = place_of(fn.blocks[lens[-1][0]]["term"]["args"][0])
    ap = fn.apath(fn.blocks[lens[-1][0]]["term"]["args"][0])
    # the local that holds the heap (through the `&candidates` temporary)
    loc = None
    for d in fn.defs().get(pl["l"], []) if pl else []:
        if d[0] == "stmt" and d[3].get("k") == "ref":
            loc = d[3]["place"]["l"]
    if loc is None:
        return False, "cannot find the collection whose length is asserted"
    bad = []
    n = 0
    # definitions of the collection, through `candidates = <temporary>` moves
    work, alld, seen_l = [loc], [], set()
    while work:
        l_ = work.pop()
        if l_ in seen_l:
            continue
        seen_l.add(l_)
        for d in fn.defs().get(l_, []):
            mv = place_of(d[3]["a"]) if d[0] == "stmt" and d[3].get("k") == "use" else None
            if mv is not None and not mv["p"]:
                work.append(mv["l"])
            else:
                alld.append(d)
    for d in alld:
        n += 1
        if d[0] != "call":
            bad.append("assigned by %s" % d[0])
            continue
        t = d[2]
        p = t["callee"]["path"] if "callee" in t else "?"
        if p.endswith(("BinaryHeap::<T>::new", "BinaryHeap::<T, A>::new")):
            continue
        a0 = ap_str(fn.apath(t["args"][0])) if t["args"] else ""
        m = re.search(r"::take\(.*, (\d+)\)", a0)
        if ("collect" in p or "from_iter" in p) and m and int(m.group(1)) <= 10:
            continue
        if p.endswith(">::from") and t["args"]:
            v = place_of(t["args"][0])
            cuts = []
            for bb2, t2 in fn.calls():
                if "callee" in t2 and t2["callee"]["path"].endswith("Vec::<T, A>::truncate") and fn.dominates(bb2, d[1]):
                    r = fn.apath(t2["args"][0])
                    k = const_int(t2["args"][1])
                    if v and r[0] == ("local", v["l"]) or (v and fn.apath(t["args"][0])[0] == r[0]):
                        if k is not None and k <= 10:
                            cuts.append(bb2)
            grown = False
            for c in cuts:
                between = fn.reachable(c)
                for bb3, t3 in fn.calls():
                    if bb3 in between and d[1] in fn.reachable(bb3) and bb3 not in (c, d[1]) and "callee" in t3 and \
                            t3["callee"]["path"].split("::")[-1] in ("push", "extend", "append", "insert", "extend_from_slice", "resize") and t3["args"] and \
                            fn.apath(t3["args"][0])[0] == fn.apath(fn.blocks[c]["term"]["args"][0])[0]:
                        grown = True
            if cuts and not grown:
                continue
            # vec![one element]
            if "box_assume_init_into_vec" in a0 or "into_vec" in a0:
                continue
        bad.append("%s(%s)" % (p.split("::")[-1], a0[:80]))
    ok = n > 0 and not bad
    return ok, ("every value of the collection is empty or built from at most ten elements (take / truncate)" if ok else
                "candidates is no longer truncated to ten on every path: %s" % bad)


def _arm_order_equals_first(F, s, e):
    fn = s.fn
    h = F.hir_of(fn)
    from facts import hir_walk
    import hirutil as H
    top = [m for m in hir_walk(h["body"]) if m.get("k") == "Match" and m.get("src") == "Normal"][0]
    pats = [H.pat_str(a["pat"]) for a in top["arms"]]
    eq = [i for i, p in enumerate(pats) if "BinOpType::Equals" in p]
    generic = [i for i, p in enumerate(pats) if p.startswith("Expr::BinOp(binop)")]
    ok = bool(eq) and bool(generic) and eq[0] < generic[0]
    return ok, ("an earlier arm takes every BinOp with op Equals" if ok else "arm order changed")


def _mul_has_two(F, s, e):
    nm = F.find(CORE, "ast::expr::Expr::new_mul")
    import hirpp
    txt = hirpp.expr(F.hir_of(nm)["body"])
    ok = "len() Eq 1" in txt
    # Expr::Mul is constructed only in new_mul
    sites = []
    for fn in F.by_crate[CORE]:
        if fn.raw.get("from_expansion"):
            continue
        for i, j, st in fn.stmts():
            rv = st.get("rv", {})
            if rv.get("k") == "agg" and rv.get("adt") == "ast::expr::Expr" and rv.get("variant") == "Mul" and "Derive" not in str(st["loc"].get("exp", "")):
                sites.append(fn.path)
    ok = ok and set(sites) <= {"ast::expr::Expr::new_mul"}
    return ok, ("Expr::Mul is only built by new_mul, which collapses singletons (callers pass non-empty vectors)" if ok else "Expr::Mul constructed in %s" % sorted(set(sites)))


def _exponent_bound_gates(F, s, e):
    """Number::pow refuses powers whose resulting unit exponents leave the i32 range (checked_mul + comparison), before powi;
    eval_quantity does the same before Dimensionality::pow."""
    pw = F.find(CORE, "types::number::Number::pow")
    powi = k2.call_blocks(pw, "types::number::Number::powi")
    ok1 = False
    for bb in powi:
        for g in pw.guards_of(bb):
            d = pw.guard_desc(g)
            if d[0] == "bool" and d[2] is False and any(c.endswith("Iterator>::any") or c.endswith("Iterator::any") for c in ap_calls(d[1])):
                ok1 = True
    cm = [f for f in F.by_crate[CORE] if f.path.startswith("types::number::Number::pow::{closure") and any("checked_mul" in t["callee"]["path"] for _, t in f.calls() if "callee" in t)]
    if not ok1:
        # the same gate as a loop with a flag (`let mut out_of_range = false; for .. { if <checked_mul is None or too large> { flag = true;
        # break } }; if flag { return Err }`): powi lies on the flag's false side, the flag starts false and is set true only behind
        # a test of checked_mul's answer
        for bb in powi:
            for g in pw.guards_of(bb):
                d = pw.guard_desc(g)
                ap, flip = k2.peel_not(d[1]) if d[0] == "bool" else (d[1], False)
                if d[0] == "bool" and ((d[2] is False) != flip) and ap[0][0] == "local" and not ap[1]:
                    defs_ = pw.defs().get(ap[0][1], [])
                    vals = []
                    for df in defs_:
                        c = const_of(df[3]["a"]) if df[0] == "stmt" and df[3].get("k") == "use" else None
                        if c is None or c.get("ty") != "bool":
                            vals = None
                            break
                        behind = [ap_str(x[1]) for x in (pw.guard_desc(g2) for g2 in pw.guards_of(df[1]))]
                        vals.append((bool(c.get("int")), any("checked_mul" in b_ for b_ in behind)))
                    if vals and any(not v for v, _ in vals) and any(v for v, _ in vals):
                        # every `true` is behind a checked_mul test, or is the value of a multi-way choice computed from one
                        trues_ok = all(cm_ for v, cm_ in vals if v) or \
                            any("checked_mul" in ap_str(pw.apath(t2["args"][0])) for _, t2 in pw.calls() if "callee" in t2 and t2["args"])
                        if trues_ok and any("checked_mul" in t2["callee"]["path"] for _, t2 in pw.calls() if "callee" in t2):
                            ok1 = True
                            cm = cm or [pw]
    # (a private helper the range test has been moved into is put back in place; the filter itself stays a call)
    eq = F.find(CORE, "loader::load::eval_quantity", inline=True, keep=("Option::<T>", "Iterator", "bool>::then"))
    dp = [(bb, t) for bb, t in eq.calls() if "callee" in t and t["callee"]["path"].endswith("Dimensionality::pow")]
    ok2 = bool(dp) and all("Option::<T>::filter" in ap_str(eq.apath(t["args"][1])) for bb, t in dp)
    # every exponent handed to Dimensionality::pow went through a filter whose closure multiplies with checked_mul
    def checked(path):
        return any((f.path == path or f.path.startswith(path + "::{closure")) and any("checked_mul" in t["callee"]["path"] for _, t in f.calls() if "callee" in t) for f in F.by_crate[CORE])
    cq = []
    for bb, t in dp:
        txt = ap_str(eq.apath(t["args"][1]))
        cps = re.findall(r"closure:([^{]+(?:\{closure#\d+\})+)", txt)
        if any(checked(cp) for cp in cps):
            cq.append(bb)
    ok = ok1 and bool(cm) and ok2 and len(cq) == len(dp) and len(dp) >= 2
    return ok, ("Number::pow and eval_quantity bound resulting exponents with checked_mul before powi / Dimensionality::pow" if ok else
                "exponent bound missing: pow gate %s, pow checked_mul %s, eval_quantity filter %s, eval_quantity checked_mul closures %d" % (ok1, bool(cm), ok2, len(cq)))


def _numeric_pow_callers(F, s, e):
    G = cg.get(F)
    target = F.find(CORE, "types::numeric::Numeric::pow")
    callers = sorted(set(F.fns[a].path for a, bs in G.edges.items() if target.id in bs and a != target.id))
    allowed = {"types::number::Number::powi", "loader::load::eval_prefix", "types::number::Number::prettify", "runtime::eval::eval_unit_name"}
    # (a private helper all of whose callers are an allowed caller is that caller's code)
    def ok_caller(c):
        if c in allowed:
            return True
        gs = [g for g in F.by_crate[CORE] if g.path == c]
        return len(gs) == 1 and bool(set(G.owner_chain(gs[0])) & allowed)
    bad = [c for c in callers if not ok_caller(c)]
    if bad:
        return False, "Numeric::pow is also called from %s" % bad
    # Number::pow: strict magnitude gate and zero-base test before powi
    pw = F.find(CORE, "types::number::Number::pow")
    powi = k2.call_blocks(pw, "types::number::Number::powi")
    mg = all(_magnitude_gate(F, Site(pw, bb, "call", "powi", pw.blocks[bb]["term"], False), e)[0] for bb in powi)
    # eval_prefix: zero base with a negative exponent refused
    ep = F.find(CORE, "loader::load::eval_prefix")
    pc = k2.call_blocks(ep, "types::numeric::Numeric::pow")

    def acc(kind, ap, info):
        if kind != "bool":
            return None
        r = ap[0]
        if r[0] == "binop" and r[1] == "Lt" and r[3][0] == ("const", 0):
            return {"false"}
        if r[0] == "call" and r[1] == "<types::numeric::Numeric as core::cmp::PartialEq>::eq" and ("Numeric::zero()" in ap_str(ap) or "Float" in ap_str(ap)):
            return {"false"}
        return None
    res, matched = k2.cut_gate(ep, pc, acc)
    zg = bool(pc) and len(matched) >= 2 and all(res.values())
    un = F.find(CORE, "runtime::eval::eval_unit_name")
    uc = k2.call_blocks(un, "types::numeric::Numeric::pow")
    res2, matched2 = k2.cut_gate(un, uc, acc)
    zg = zg and bool(uc) and len(matched2) >= 2 and all(res2.values())
    # every exponent handed to Numeric::pow is provably != i32::MIN (the `-exp` inside would overflow)
    bad_exp = []
    for c in callers:
        cf = F.find(CORE, c)
        for bb in k2.call_blocks(cf, "types::numeric::Numeric::pow"):
            ok, why = exponent_not_min(F, cf, bb)
            if not ok:
                bad_exp.append("%s at %s: %s" % (c, cf.where(bb), why))
    if bad_exp:
        return False, "an exponent handed to Numeric::pow may be i32::MIN: " + "; ".join(bad_exp)
    return (mg and zg), ("callers %s; Number::pow gate %s; eval_prefix zero-base gate %s; exponents != i32::MIN" % ([c.split("::")[-1] for c in callers], mg, zg))


I32_MIN = -2147483648


def _only_literal_exponents(F, fn):
    """fast_decompose: the only i32 values in the function are the elements of literal i32 arrays in its HIR (none
    i32::MIN): no cast to i32, no i32 arithmetic, no i32 returned by a call in the MIR."""
    from facts import hir_walk
    arrays = []
    for n in hir_walk(F.hir_of(fn)["body"]):
        if n.get("k") == "Array" and n.get("ty", "").startswith("[i32;"):
            vals = []
            for e in n["elems"]:
                neg = e.get("k") == "Unary" and e.get("op") == "Neg"
                lit = e["a"] if neg else e
                if lit.get("k") != "Lit" or lit["lit"].get("lit") != "int":
                    return False
                vals.append(-lit["lit"]["v"] if neg else lit["lit"]["v"])
            arrays.append(vals)
    for i, j, st in fn.stmts():
        rv = st.get("rv", {})
        if st["k"] != "assign":
            continue
        if rv.get("k") == "cast" and rv.get("to") == "i32":
            return False
        if rv.get("k") in ("binop", "checked_binop", "unop") and rv.get("aty") == "i32" and rv.get("op") not in ("Eq", "Ne", "Lt", "Le", "Gt", "Ge"):
            return False
    for bb, t in fn.calls():
        if t["dest"].get("ty") == "i32":
            return False
    return bool(arrays) and all(v != I32_MIN for a in arrays for v in a)


def exponent_not_min(F, fn, bb):
    """The i32 exponent argument of the Numeric::pow call in block bb cannot be i32::MIN: a constant, a value behind a
    dominating `!= i32::MIN` test, the payload of an Option::filter whose closure is `x != i32::MIN`, or (Number::powi)
    a parameter whose every caller passes such a value / sits behind Number::pow's strict magnitude gate."""
    t = fn.blocks[bb]["term"]
    return value_not_min(F, fn, bb, t["args"][1])


def value_not_min(F, fn, bb, operand, depth=0):
    """The i32 operand, as used in block bb of fn, cannot be i32::MIN (see exponent_not_min)."""
    import re
    ap = fn.apath(operand)
    txt = ap_str(ap)
    if ap[0][0] == "const":
        return (ap[0][1] != I32_MIN), "constant %s" % ap[0][1]
    for g in fn.guards_of(bb):
        d = fn.guard_desc(g)
        if d[0] != "bool":
            continue
        r = d[1][0]
        if r[0] == "binop" and r[1] in ("Ne", "Eq") and not d[1][1]:
            sides = [r[2], r[3]]
            if any(x[0] == ("const", I32_MIN) for x in sides) and any(ap_str(x) == txt for x in sides):
                if (r[1] == "Ne") == (d[2] is True):
                    return True, "behind `!= i32::MIN`"
        # a magnitude bound: `x.unsigned_abs() <= c` / `< c` with c below 2^31 (taken), or `> c` / `>= c` (not taken)
        if r[0] == "binop" and r[1] in ("Le", "Lt", "Gt", "Ge") and not d[1][1]:
            a_, b_ = r[2], r[3]
            if a_[0][0] == "call" and a_[0][1].endswith("::unsigned_abs") and not a_[1] and ap_str(a_[0][2][0]) == txt and \
                    b_[0][0] == "const" and isinstance(b_[0][1], int) and 0 <= b_[0][1] < 2 ** 31:
                if (r[1] in ("Le", "Lt")) == (d[2] is True):
                    return True, "behind `|x| %s %d`" % ("<=" if r[1] in ("Le", "Ge") else "<", b_[0][1])
    if "Option::<T>::filter(" in txt:
        for cp in re.findall(r"closure:([^{]+(?:\{closure#\d+\})+)", txt):
            for c in F.closures_of(fn):
                if c.path != cp:
                    continue
                for i, j, st in c.stmts():
                    rv = st.get("rv", {})
                    if st["k"] == "assign" and st["place"]["l"] == 0 and rv.get("k") == "binop" and rv["op"] == "Ne" and \
                            any((const_of(o) or {}).get("int") == I32_MIN for o in (rv["a"], rv["b"])):
                        return True, "payload of filter(|v| v != i32::MIN)"
    if ap[0][0] == "arg" and not ap[1]:
        G = cg.get(F)
        k = ap[0][1]
        callers = [F.fns[a] for a, bs in G.edges.items() if fn.id in bs and a != fn.id]
        if not callers:
            return False, "parameter with no analysable caller"
        for cf in callers:
            for cb in k2.call_blocks(cf, fn.path):
                cap = cf.apath(cf.blocks[cb]["term"]["args"][k - 1])
                if cap[0][0] == "const" and cap[0][1] != I32_MIN:
                    continue
                if _magnitude_gate(F, Site(cf, cb, "call", "powi", cf.blocks[cb]["term"], False), {})[0]:
                    continue
                if cf.path == "algorithms::fast_decompose::fast_decompose" and _only_literal_exponents(F, cf):
                    continue
                # the caller's own argument, judged where the caller passes it (a private helper hands its parameter on)
                if depth < 3 and value_not_min(F, cf, cb, cf.blocks[cb]["term"]["args"][k - 1], depth + 1)[0]:
                    continue
                return False, "caller %s passes %s" % (cf.path, ap_str(cap)[:80])
        return True, "every caller passes a constant or sits behind the strict magnitude gate"
    return False, "exponent %s is not provably != i32::MIN" % txt[:100]


def _prettified_twin_divided(F, s, e):
    """`(&x / input).expect("Already known safe")`: on every path here a try_div!(.., input.prettify(ctx)) - a division by the
    same input after rescaling by non-zero prefix factors - has already succeeded."""
    fn = s.fn
    ap = fn.apath(s.term["args"][0])
    r = ap[0]
    if r[0] != "call" or "arith::Div<" not in r[1] or len(r[2]) != 2:
        return False, "the unwrapped value is not a Number division"
    divisor = ap_str(r[2][1])
    for g in fn.guards_of(s.bb):
        d = fn.guard_desc(g)
        if d[0] != "variant" or d[3] not in ("Continue", "Some", "Ok"):
            continue
        cur = d[1]
        for _ in range(4):
            rr = cur[0]
            if rr[0] == "call" and rr[2] and rr[1].endswith(("Try>::branch", "Option::<T>::ok_or_else", "Option::<T>::ok_or")) and not cur[1]:
                cur = rr[2][0]
            else:
                break
        rr = cur[0]
        if rr[0] == "call" and "arith::Div<" in rr[1] and len(rr[2]) == 2:
            q = ap_str(rr[2][1])
            if q.startswith("types::number::Number::prettify(" + divisor):
                return True, "behind the success edge of a division by prettify(%s)" % divisor[:50]
    return False, "no dominating successful division by the prettified divisor `%s`" % divisor[:60]


def _property_values_nonzero(F, s, e):
    """Every construction of a substance Property has a non-zero input: the loader's (behind both zero tests of input and
    output), the formula's and Substance + Substance's (Number::one / one_unit)."""
    bad = []
    n = 0
    for fn in F.by_crate[CORE]:
        if fn.raw.get("from_expansion"):
            continue
        for i, j, st in fn.stmts():
            rv = st.get("rv", {})
            if st["k"] != "assign" or rv.get("k") != "agg" or not str(rv.get("adt", "")).endswith("substance::Property"):
                continue
            n += 1
            f = dict(zip(rv["fields"], rv["ops"]))
            src = ap_str(fn.apath(f["input"]))
            if src.startswith(("types::number::Number::one()", "types::number::Number::one_unit(")):
                continue
            # loader: both zero tests on the input's value dominate the construction
            iap = fn.apath(f["input"])
            want = (iap[0], iap[1] + ("value",))
            fz = float_zero_lines(F, fn)

            def acc_for(which):
                def acc(kind, gap, info):
                    if kind != "bool":
                        return None
                    r = gap[0]
                    if r[0] == "call" and r[1] in ("<types::numeric::Numeric as core::cmp::PartialEq>::eq", "<types::numeric::Numeric as core::cmp::PartialEq>::ne"):
                        args = r[2]
                        rz = [a for a in args if a[0][0] == "call" and a[0][1].endswith("::zero")]
                        fzz = [a for a in args if a[0][0] == "const" and "promoted" in str(a[0][1]) and fn.blocks[r[3]]["term"]["loc"].get("line") in fz]
                        z = rz if which == "rational" else fzz
                        other = [a for a in args if a not in rz and a not in fzz]
                        if z and other and same_value(other[0], want):
                            return {"false"} if r[1].endswith("::eq") else {"true"}
                    return None
                return acc
            r1, m1 = k2.cut_gate(fn, [i], acc_for("rational"))
            r2, m2 = k2.cut_gate(fn, [i], acc_for("float"))
            if not (m1 and m2 and r1[i] and r2[i]):
                bad.append("%s at %s" % (fn.path, fn.where(i, j)))
    if n < 3:
        return False, "expected the three constructions of Property, found %d" % n
    return (not bad), ("all %d Property constructions have a non-zero input (one / one_unit, or behind both zero tests)" % n if not bad else
                        "a Property is built with an input that was not tested against zero: %s" % bad)


def den_not_one(d):
    """Guard d is the side of a comparison of an exponent's denominator (`to_rational(..).1`) with one on which it is NOT one:
    `den == one` false, or `den != one` true."""
    if d[0] != "bool":
        return False
    ap, flip = k2.peel_not(d[1])
    r = ap[0]
    if r[0] != "call" or ap[1] or "BigInt as core::cmp::PartialEq>::" not in r[1]:
        return False
    txt = ap_str(ap)
    if "to_rational" not in txt or ".1" not in txt:
        return False
    is_eq = r[1].endswith("::eq")
    val = (d[2] is True) != flip
    return val != is_eq


def _root_degree(F, s, e):
    """Number::root(exp) is only called with a degree >= 2: a literal, or the checked i32 conversion of the exponent's denominator
    on the branch where the denominator is not one."""
    G = cg.get(F)
    root = F.find(CORE, "types::number::Number::root")
    callers = [F.fns[a] for a, bs in G.edges.items() if root.id in bs and a != root.id]
    bad = []
    for cf in callers:
        for cb in k2.call_blocks(cf, "types::number::Number::root"):
            ap = cf.apath(cf.blocks[cb]["term"]["args"][1])
            if ap[0][0] == "const" and isinstance(ap[0][1], int) and ap[0][1] >= 2:
                continue
            txt = ap_str(ap)
            if cf.path == "types::number::Number::pow" and "BigInt::as_int(types::numeric::Numeric::to_rational(arg2.value).1)" in txt:
                den_ne_one = any(den_not_one(d) for d in (cf.guard_desc(g) for g in cf.guards_of(cb)))
                if den_ne_one:
                    continue
            bad.append("%s passes %s" % (cf.path, txt[:80]))
    return (not bad and bool(callers)), ("root is called with the literal 2 or a checked denominator != 1 (%d callers)" % len(callers) if not bad else "; ".join(bad))


def _aliases_acyclic(F, s, e):
    """expand_aliases' progress asserts and canonicalize's recursion rely on registry.definitions holding no alias cycle: the
    resolver rejects cycles within a load, and no insert can close one across loads (C13 cycle-guard rules)."""
    import core
    import loader_rules
    tmp = core.Check("C13")
    try:
        loader_rules.visit_structure(tmp, F)
        loader_rules.alias_cycle_guard(tmp, F)
        loader_rules.definitions_only_for_loaded(tmp, F)
    except AnchorLost as ex:
        return False, "cycle-guard rules could not be evaluated: %s" % ex
    bad = [i for i in tmp.instances if i["verdict"] != "ok"]
    return (not bad and len(tmp.instances) >= 6), ("the loader's cycle rules hold (%d instances)" % len(tmp.instances) if not bad else bad[0]["detail"][:200])


def _search_results_resolve(F, s, e):
    """search() turns the names found in the registry's own tables back into values; that must go through Registry::lookup
    (or the substances table): Context::lookup answers the reserved names `ans`, `ANS`, `_` with the previous result, so a unit
    that happens to carry such a name would not resolve and the `expect` would fire."""
    fn = s.fn
    names = [t["callee"]["path"] for _, t in fn.calls() if "callee" in t]
    if any(n.endswith("loader::context::Context::lookup") for n in names):
        return False, "search resolves registry names through Context::lookup, which shadows `ans`, `ANS` and `_`"
    ok = any(n.endswith("loader::registry::Registry::lookup") for n in names)
    return ok, ("registry names are resolved through Registry::lookup" if ok else "no Registry::lookup call found in the search closure")


def _duration_list_six(F, s, e):
    """The automatic duration breakdown takes as many parts from to_list's result as it put names into the list."""
    from facts import hir_walk
    fn = s.fn
    h = F.hir_of(fn)
    arrays = [n for n in hir_walk(h["body"]) if n.get("k") == "Array" and len(n["elems"]) >= 4 and all(x.get("k") == "Lit" and x["lit"].get("lit") == "str" for x in n["elems"])]
    names = [[x["lit"].get("v") for x in n["elems"]] for n in arrays]
    dur = [nm for nm in names if "second" in nm and "year" in nm]
    takes = [t for _, t in fn.calls() if "callee" in t and t["callee"]["path"].endswith("Option::<T>::expect") and "IntoIter" in ap_str(fn.apath(t["args"][0])) and "::next(" in ap_str(fn.apath(t["args"][0]))]
    ok = len(dur) == 1 and len(takes) == len(dur[0])
    return ok, ("%d parts are taken from a list of %d names" % (len(takes), len(dur[0]) if dur else 0))


def _symbol_invariant(F, s, e):
    """Every symbol in substance_symbols names a registered substance: the C16 rule, evaluated here as a backing."""
    import core
    import c16
    tmp = core.Check("C16")
    try:
        c16.symbol_invariant(tmp, F)
    except AnchorLost as ex:
        return False, "symbol invariant could not be evaluated: %s" % ex
    bad = [i for i in tmp.instances if i["verdict"] != "ok"]
    return (not bad and bool(tmp.instances)), ("substance_symbols is only written after the substance itself was inserted (%d checks)" % len(tmp.instances) if not bad else bad[0]["detail"])


def _operands_reset_to_one(F, s, e):
    """conformance_err: every Number operand of its Mul/Div calls borrows a local whose value was reset to Numeric::one()."""
    fn = F.find(CORE, "runtime::eval::conformance_err")
    n = 0
    for bb, t in fn.calls():
        if "callee" in t and t["callee"]["path"].endswith(("core::ops::arith::Mul<&'b types::number::Number>>::mul", "core::ops::arith::Div<&'b types::number::Number>>::div")):
            for a in t["args"]:
                n += 1
                if not value_reset_to_one(fn, a, bb):
                    return False, "an operand of the unit arithmetic in conformance_err is not reset to value one (%s)" % ap_str(fn.apath(a))[:60]
    return n >= 4, "all %d operands of conformance_err's unit arithmetic have value one" % n


BACKING = {
    "unit_name_constant_rational": _unit_name_constant_rational,
    "powers_bounded": _powers_bounded,
    "name_exponents_bounded": _name_exponents_bounded,
    "i32_interval": _i32_interval,
    "sign_times_parsed": _sign_times_parsed,
    "nanos_scaling": _nanos_scaling,
    "duration_list_six": _duration_list_six,
    "search_results_resolve": _search_results_resolve,
    "symbol_invariant": _symbol_invariant,
    "prettified_twin_divided": _prettified_twin_divided,
    "property_values_nonzero": _property_values_nonzero,
    "root_degree": _root_degree,
    "aliases_acyclic": _aliases_acyclic,
    "operands_reset_to_one": _operands_reset_to_one,
    "exponent_bound_gates": _exponent_bound_gates,
    "numeric_pow_callers": _numeric_pow_callers,
    "starts_with": _guarded_by_call("core::str::<impl str>::starts_with", True),
    "ends_with": _guarded_by_call("core::str::<impl str>::ends_with", True),
    "is_valid_timezone": _guarded_by_call("is_valid_timezone", True),
    "contains_key": _guarded_by_call("::contains_key", True),
    "prefixes_nonzero": _prefixes_nonzero,
    "prefix_values_nonzero": _prefix_values_nonzero,
    "degree_units_exist": _degree_units_exist,
    "magnitude_gate": _magnitude_gate,
    "integer_gate": _integer_gate,
    "take10": _take10,
    "equals_arm_first": _arm_order_equals_first,
    "mul_has_two": _mul_has_two,
    "only_called_from_to_string": _only_callers(["types::bigrat::BigRat::to_string", "types::bigrat::BigRat::to_scientific", "types::bigrat::BigRat::to_digits_impl"]),
    "only_called_from_conformance_err": _only_callers(["runtime::eval::conformance_err"]),
}


# =========================================================================================
# T1 (restricted): loops over a never-ending token stream must leave on Eof
# =========================================================================================
def sccs(fn):
    """Strongly connected components with a cycle (natural loops, coarsely) of the non-cleanup CFG."""
    n = len(fn.blocks)
    index = {}
    low = {}
    onstack = set()
    stack = []
    out = []
    counter = [0]
    import sys
    sys.setrecursionlimit(10000)

    def strong(v):
        index[v] = low[v] = counter[0]
        counter[0] += 1
        stack.append(v)
        onstack.add(v)
        for _, w in fn.succs(v):
            if w not in index:
                strong(w)
                low[v] = min(low[v], low[w])
            elif w in onstack:
                low[v] = min(low[v], index[w])
        if low[v] == index[v]:
            comp = set()
            while True:
                w = stack.pop()
                onstack.discard(w)
                comp.add(w)
                if w == v:
                    break
            if len(comp) > 1 or any(w == v for _, w in fn.succs(v)):
                out.append(comp)
    for v in fn.reachable(0):
        if v not in index:
            strong(v)
    return out


def eof_exits(chk, F, reach, rule="loop-leaves-on-eof"):
    """Every loop that pulls tokens from a lexer that never returns None (it yields Eof forever) has a way out on the Eof token."""
    D = Discharger(F, cg.get(F), reach)
    lexers = {"parsing::text_query": "<parsing::text_query::TokenIterator<'a> as core::iter::traits::iterator::Iterator>::next",
              "loader::gnu_units": "<loader::gnu_units::TokenIterator<'a> as core::iter::traits::iterator::Iterator>::next"}
    always = {}
    for mod, p in lexers.items():
        f = [x for x in F.by_crate[CORE] if x.path == p]
        always[mod] = bool(f) and f[0].id in D.always_some
        chk.decide(always[mod], rule, "rink_core::" + p, "lexer-never-ends", f[0].where() if f else "",
                   "the lexer returns Some(Token::Eof) forever at the end of input (so parser unwraps are safe, and parser loops must leave on Eof)",
                   "the lexer can return None: the parsers' next().unwrap()/peek().unwrap() sites would panic at end of input")
    n = 0
    for fid in reach:
        fn = F.fns[fid]
        if fn.crate != CORE or not (fn.path.startswith("parsing::text_query::") or fn.path.startswith("loader::gnu_units::")):
            continue
        comps = sccs(fn)
        for comp in comps:
            # token pulls inside the loop
            pulls = []
            for b in comp:
                t = fn.blocks[b]["term"]
                if t["k"] == "call" and "callee" in t:
                    p = t["callee"]["path"]
                    g = " ".join(t["callee"].get("gargs", []))
                    if p.endswith(("Peekable<I> as core::iter::traits::iterator::Iterator>::next", "Peekable::<I>::peek", "TokenIterator<'a> as core::iter::traits::iterator::Iterator>::next", "Iterator>::next")) and \
                            ("text_query::TokenIterator" in g or "gnu_units::TokenIterator" in g):
                        pulls.append(b)
            if not pulls:
                continue
            n += 1
            # switches on a Token discriminant inside the loop: where does Eof go?
            ok = False
            tested = False
            for b in comp:
                info = fn.switch_info(b)
                if info and info["kind"] == "discr" and info["enum"].endswith("::Token") and "Eof" in info["variants"].values():
                    tested = True
                    ve = fn.variant_edges(b)
                    tgt = ve.get("Eof")
                    if tgt is None:
                        continue
                    consuming = {x for x in pulls if fn.blocks[x]["term"]["callee"]["path"].endswith("Iterator>::next")}
                    seen = fn.reachable(tgt, cut_blocks=consuming)
                    if any(x not in comp for x in seen):
                        ok = True
            hdr = min(comp)
            chk.decide(ok, rule, "%s::%s" % (fn.crate, fn.path), "loop@bb%s" % ("%d-blocks" % len(comp)), fn.where(hdr),
                       "the loop leaves (break/return) when the token is Eof, before pulling another token",
                       "a loop pulls tokens from a lexer that yields Eof forever but %s: at end of input it never terminates" % (
                           "has no exit on the Eof token" if tested else "never inspects the token for Eof"))
    if n < 6:
        chk.anchor_lost(rule, "rink_core parsers", "only %d token-pulling loops found in the reachable parser functions (expected >= 6: parse_function, parse_suffix, parse_juxt, parse_div, parse_add, parse_unitlist)" % n)


# =========================================================================================
# thorough tier: line inventory for the clippy cross-check
# =========================================================================================
class LineInventory:
    def __init__(self):
        self.fn_ranges = {}     # file -> [(lo, hi)]
        self.sites = {}         # file -> [(lo, hi, what)]

    def in_analysed_fn(self, f, line):
        return any(lo <= line <= hi for lo, hi in self.fn_ranges.get(f, ()))

    def has_site(self, f, l0, l1):
        return any(lo <= l1 and l0 <= hi for lo, hi, _ in self.sites.get(f, ()))


def inventory_lines(F):
    inv = LineInventory()
    seen = set()
    for which in ("C04", "C13"):
        G, rs, reach, sites = inventory(F, which)
        for fid in reach:
            fn = F.fns[fid]
            if fn.crate != CORE or fid in seen:
                continue
            seen.add(fid)
            lo, hi = fn.loc["line"], fn.loc.get("eline", fn.loc["line"])
            for b in fn.blocks:
                for l in [b["term"]["loc"]] + [st["loc"] for st in b["stmts"] if "loc" in st]:
                    if l.get("file") == fn.file and "exp" not in l:
                        lo, hi = min(lo, l["line"]), max(hi, l.get("eline", l["line"]))
            inv.fn_ranges.setdefault(fn.file, []).append((lo, hi))
        for s in sites:
            l = s.term["loc"]
            inv.sites.setdefault(l["file"], []).append((l["line"], l.get("eline", l["line"]), s.what))
    return inv


# =========================================================================================
# T1: every loop of the lexers / parsers makes progress (consumes input) on every iteration
# =========================================================================================
PARSER_FILES = ("core/src/parsing/text_query.rs", "core/src/loader/gnu_units.rs", "core/src/parsing/formula.rs", "core/src/parsing/datetime.rs")
CONSUMING = ("next", "next_if", "next_if_eq", "nth", "next_back", "advance_by")
CHAR_IMPLIES = {("is_alphabetic", "is_alphanumeric"), ("is_numeric", "is_alphanumeric"), ("is_ascii_digit", "is_ascii_alphanumeric"),
                ("is_ascii_alphabetic", "is_ascii_alphanumeric"), ("is_ascii_alphabetic", "is_alphabetic"), ("is_ascii_alphanumeric", "is_alphanumeric"),
                ("is_ascii_digit", "is_numeric"), ("is_ascii_digit", "is_alphanumeric"), ("is_ascii_alphabetic", "is_alphanumeric"),
                ("is_ascii_whitespace", "is_whitespace"), ("is_ascii_uppercase", "is_alphabetic"), ("is_ascii_lowercase", "is_alphabetic"),
                ("is_uppercase", "is_alphabetic"), ("is_lowercase", "is_alphabetic")}


def _has_cycle(nodes, succ):
    color = {}
    stack_guard = [False]

    def dfs(u):
        st = [(u, iter(succ(u)))]
        color[u] = 1
        while st:
            node, it = st[-1]
            adv = False
            for v in it:
                if v not in nodes:
                    continue
                if color.get(v) == 1:
                    stack_guard[0] = True
                    return
                if v not in color:
                    color[v] = 1
                    st.append((v, iter(succ(v))))
                    adv = True
                    break
            if not adv:
                color[node] = 2
                st.pop()
    for n in nodes:
        if n not in color:
            dfs(n)
            if stack_guard[0]:
                return True
    return False


def must_advance(F, fns):
    """Fixed point: functions in which every entry -> return path performs a consuming call on an iterator or calls a
    function already known to advance."""
    adv = set()
    changed = True

    def progress_blocks(fn):
        out = set()
        for bb, t in fn.calls():
            if "callee" not in t:
                continue
            c = t["callee"]
            if c["path"].split("::")[-1] in CONSUMING and ("Iterator" in c["path"] or "Peekable" in c["path"] or "Chars" in c["path"]):
                out.add(bb)
            elif c["id"] in adv:
                out.add(bb)
        return out
    while changed:
        changed = False
        for fn in fns:
            if fn.id in adv:
                continue
            pb = progress_blocks(fn)
            if not pb:
                continue
            reach = fn.reachable(0, cut_blocks=pb)
            rets = [i for i, b in enumerate(fn.blocks) if b["term"]["k"] == "return" and not b["cleanup"]]
            if rets and not any(r in reach for r in rets):
                adv.add(fn.id)
                changed = True
    return adv, progress_blocks


def char_predicate(F, fn, ap):
    """Name of the char predicate a boolean test applies to the peeked character, or None.  Looks through a closure
    handed to Option::map (`peek().map(|c| c.is_whitespace()).unwrap_or(false)`)."""
    import re
    txt = ap_str(ap)
    m = re.search(r"char::methods::<impl char>::(is_[a-z_]+)\(", txt)
    if m and "peek(" in txt:
        return m.group(1)
    for cp in re.findall(r"closure:([^{]+(?:\{closure#\d+\})+)", txt):
        if "peek(" not in txt:
            continue
        for c in F.closures_of(fn):
            if c.path == cp:
                preds = [t["callee"]["path"].split("::")[-1] for _, t in c.calls() if "callee" in t and "impl char>::is_" in t["callee"]["path"]]
                if len(preds) == 1:
                    return preds[0]
    return None


def loop_progress(chk, F, reach, rule="loop-progress"):
    fns = [F.fns[fid] for fid in reach if F.fns[fid].crate == CORE and F.fns[fid].file in PARSER_FILES and not F.fns[fid].raw.get("from_expansion")]
    allp = [f for f in F.by_crate[CORE] if f.file in PARSER_FILES]
    adv, progress_blocks = must_advance(F, allp)
    n = 0
    for fn in sorted(fns, key=lambda f: f.path):
        pb = progress_blocks(fn)
        for comp in sccs(fn):
            comp = set(comp)
            if len(comp) < 2 and not any(t in comp for b in comp for _, t in fn.succs(b)):
                continue
            n += 1
            fk = "rink_core::" + normfn(fn.path)
            own = [b for b in comp if fn.blocks[b]["term"]["loc"].get("file") == fn.file] or list(comp)
            where = fn.where(min(own, key=lambda b: fn.blocks[b]["term"]["loc"]["line"]))
            rest = comp - pb
            edges = {b: [(lab, t) for lab, t in fn.succs(b) if t in rest] for b in rest}
            if not _has_cycle(rest, lambda u: [t for _, t in edges[u]]):
                chk.ok(rule, fk, "loop", where, "every cycle of the loop contains a consuming call (%d of %d blocks consume or call an advancing parser)" % (len(comp & pb), len(comp)))
                continue
            # infeasible first-iteration exits: a test P2(peeked char) taken false that is only reachable (without
            # consuming) through the true edge of a test P1(peeked char) with P1 => P2
            tests = {}
            for s, kind, ap, info in k2.switch_tests(fn):
                if s not in rest:
                    continue
                if kind == "bool":
                    ap2, flip = k2.peel_not(ap)
                    p = char_predicate(F, fn, ap2)
                    if not p and ap2[0][0] == "call" and ap2[0][1].endswith(("Option::<T>::is_some", "Option::<T>::is_none")) and "peek(" in ap_str(ap2):
                        p = "some"
                        if ap2[0][1].endswith("is_none"):
                            flip = not flip
                    if p:
                        names = k2.edge_names(fn, s, "bool", info)
                        tests[s] = (p, [t for _, t, nm in names if (nm == "true") != flip], [t for _, t, nm in names if (nm == "false") != flip])
                elif kind == "variant" and "peek(" in ap_str(ap) and "Option" in str(info.get("dty", "")) + ap_str(ap):
                    names = k2.edge_names(fn, s, "variant", info)
                    some = [t for _, t, nm in names if nm == "Some"]
                    none = [t for _, t, nm in names if nm == "None"]
                    if some and none:
                        tests[s] = ("some", some, none)
            header = min(comp)
            removed = []
            for s2, (p2, true2, false2) in tests.items():
                for s1, (p1, true1, false1) in tests.items():
                    if s1 == s2 or not (p1 == p2 or p2 == "some" or (p1, p2) in CHAR_IMPLIES):
                        continue
                    # cut the true edge of s1: is s2 still reachable from the loop header inside the non-progress graph?
                    cut = {(s1, t) for t in true1}
                    seen = set()
                    st = [header] if header in rest else list(rest)[:1]
                    while st:
                        u = st.pop()
                        if u in seen:
                            continue
                        seen.add(u)
                        for _, v in edges.get(u, ()):
                            if (u, v) not in cut:
                                st.append(v)
                    if s2 not in seen:
                        removed += [(s2, t, p1, p2) for t in false2]
            cutset = {(a, b) for a, b, _, _ in removed}
            if removed and not _has_cycle(rest, lambda u: [t for _, t in edges[u] if (u, t) not in cutset]):
                chk.ok(rule, fk, "loop", where, "the only cycles without a consuming call leave an inner scan loop on its first test, which cannot fail: %s" % sorted(set(
                    "%s(c) holds on entry and implies %s(c)" % (p1, p2) for _, _, p1, p2 in removed)))
                continue
            chk.finding(rule, fk, "loop", where,
                        "the loop at %s has a cycle on which nothing is consumed from the input (no iterator next(), no call of a parser that always "
                        "advances%s): on such input it spins forever (and grows its output)" % (
                            where, "; tests on the peeked character inside the loop: %s" % sorted(set(v[0] for v in tests.values())) if tests else ""))
    chk.extra.setdefault("loop_progress", {})[rule] = {"loops": n, "advancing_functions": sorted(F.fns[i].path for i in adv)[:40]}
    if n < 10:
        chk.anchor_lost(rule, "parsers", "only %d loops found in the lexer/parser files (expected >= 10)" % n)
