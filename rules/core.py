"""Verdict bookkeeping: rule instances, known findings, evidence, exit code."""
import json
import os
import re
import sys
import time

VERIF = os.path.dirname(os.path.dirname(os.path.abspath(__file__)))
KNOWN = os.path.join(VERIF, "KNOWN_FINDINGS.txt")


def load_known():
    """known: property=<id> key=<exact key> :: <what fails>   /  fixed: property=<id> <commit> <what>"""
    known = {}
    if os.path.exists(KNOWN):
        for line in open(KNOWN):
            line = line.rstrip("\n")
            if not line.startswith("known:"):
                continue
            m = re.match(r"known:\s+property=(\S+)\s+key=(.*?)\s+::\s+(.*)$", line)
            if m:
                known[(m.group(1), m.group(2))] = m.group(3)
    return known


class Check:
    def __init__(self, pid, tier="quick", explanation=""):
        self.pid = pid
        self.tier = tier
        self.t0 = time.time()
        self.instances = []     # dicts: rule,key,loc,verdict,detail
        self.keycount = {}
        self.rule_counts = {}
        self.assumptions = []
        self.explanation = explanation
        self.extra = {}
        self.samples = []
        self.replay_filter = None

    # ------------------------------------------------------------------------------
    def _key(self, rule, fnkey, summary):
        base = "%s|%s|%s" % (rule, fnkey, summary)
        n = self.keycount.get(base, 0)
        self.keycount[base] = n + 1
        return base if n == 0 else "%s#%d" % (base, n + 1)

    def _add(self, verdict, rule, fnkey, summary, loc, detail, trivial=False, path=None):
        key = self._key(rule, fnkey, summary)
        inst = {"rule": rule, "key": key, "loc": loc, "verdict": verdict, "detail": detail, "trivial": trivial}
        if path:
            inst["path"] = path
        self.instances.append(inst)
        rc = self.rule_counts.setdefault(rule, {"ok": 0, "finding": 0, "anchor-lost": 0})
        rc[verdict] = rc.get(verdict, 0) + 1
        return inst

    def ok(self, rule, fnkey, summary, loc="", detail="", trivial=False):
        return self._add("ok", rule, fnkey, summary, loc, detail, trivial)

    def finding(self, rule, fnkey, summary, loc="", detail="", path=None):
        return self._add("finding", rule, fnkey, summary, loc, detail, path=path)

    def anchor_lost(self, rule, fnkey, detail):
        return self._add("anchor-lost", rule, fnkey, "anchor", "", detail)

    def decide(self, cond, rule, fnkey, summary, loc="", ok_detail="", bad_detail="", path=None):
        if cond:
            return self.ok(rule, fnkey, summary, loc, ok_detail)
        return self.finding(rule, fnkey, summary, loc, bad_detail or ok_detail, path)

    def floor(self, rule, minimum, what=""):
        """Fail closed when a rule matched fewer sites than were counted by hand."""
        rc = self.rule_counts.get(rule, {})
        n = sum(rc.values())
        if n < minimum:
            self.anchor_lost(rule, "floor", "rule %s matched %d of >=%d expected sites %s" % (rule, n, minimum, what))

    def guard(self, rule, fnkey, f):
        """Run f(); an AnchorLost inside becomes an anchor-lost instance."""
        from facts import AnchorLost
        try:
            return f()
        except AnchorLost as e:
            self.anchor_lost(rule, fnkey, str(e))
        except (KeyError, IndexError, TypeError, AttributeError) as e:
            import traceback
            tb = traceback.format_exc().strip().split("\n")
            self.anchor_lost(rule, fnkey, "extractor could not understand the code shape: %r at %s" % (e, tb[-3].strip() if len(tb) >= 3 else ""))
        return None

    def assume(self, text):
        if text not in self.assumptions:
            self.assumptions.append(text)

    # ------------------------------------------------------------------------------
    def finish(self, level="other"):
        known = load_known()
        viol = []
        known_hits = []
        for inst in self.instances:
            if self.replay_filter and inst["key"] != self.replay_filter:
                continue
            if inst["verdict"] == "ok":
                continue
            k = (self.pid, inst["key"])
            if inst["verdict"] == "finding" and k in known:
                known_hits.append((inst, known[k]))
            else:
                viol.append(inst)
        evdir = os.path.join(VERIF, "evidence")
        os.makedirs(os.path.join(evdir, "replay"), exist_ok=True)
        lines = []
        for inst, what in known_hits:
            lines.append("KNOWN-FINDING: property=%s %s [%s at %s]" % (self.pid, what, inst["key"], inst["loc"]))
        noev = bool(os.environ.get("VERIF_NO_EVIDENCE"))
        for n, inst in enumerate(viol):
            rp = os.path.join(evdir, "replay", "%s-%d.json" % (self.pid, n))
            if not noev:
                with open(rp, "w") as fh:
                    json.dump({"property": self.pid, **inst}, fh, indent=1)
            kind = "anchor-lost" if inst["verdict"] == "anchor-lost" else "violation"
            lines.append("%s: property=%s rule=%s at %s\n    key=%s\n    %s%s" % (
                kind.upper(), self.pid, inst["rule"], inst["loc"], inst["key"], inst["detail"],
                ("\n    path: " + " -> ".join(inst["path"])) if inst.get("path") else ""))
            lines.append("VIOLATION property=%s replay=%s" % (self.pid, rp))
        total = len(self.instances)
        nontriv = len(set(i["key"] for i in self.instances if not i.get("trivial")))
        oks = sum(1 for i in self.instances if i["verdict"] == "ok")
        samples = self.samples[:]
        seen_rules = set()
        for i in self.instances:
            if i["rule"] not in seen_rules and len(samples) < 40:
                seen_rules.add(i["rule"])
                samples.append({"rule": i["rule"], "key": i["key"], "loc": i["loc"], "verdict": i["verdict"],
                                "detail": i["detail"][:300]})
        cov = {
            "explanation": self.explanation,
            "evaluations": max(total, 1),
            "distinct_nontrivial": nontriv,
            "rule": "one evaluation = one rule instance (a call site, CFG path, table row, type or data entry) "
                    "decided from the facts extracted from /repo's current working tree; distinct = distinct "
                    "instance keys; trivial = instances discharged without any obligation (e.g. generated code)",
            "samples": samples or [{"note": "no instances"}],
            "obligations": total,
            "discharged": oks + len(known_hits),
            "per_rule": self.rule_counts,
            "known_findings_hit": [i["key"] for i, _ in known_hits],
        }
        cov.update(self.extra)
        ev = {
            "property_id": self.pid,
            "tier": self.tier,
            "seed": int(os.environ.get("VERIF_SEED", "0") or 0),
            "level": level,
            "coverage": cov,
            "assumptions": self.assumptions,
            "wall_s": round(time.time() - self.t0, 2),
            "violations": len(viol),
        }
        if not self.replay_filter and not noev:
            with open(os.path.join(evdir, "%s.json" % self.pid), "w") as fh:
                json.dump(ev, fh, indent=1)
        try:
            self._report(total, oks, known_hits, viol, lines)
        except BrokenPipeError:
            pass
        return 1 if viol else 0

    def _report(self, total, oks, known_hits, viol, lines):
        print("%s: %d rule instances, %d ok, %d known findings, %d violations (%.1fs)" % (
            self.pid, total, oks, len(known_hits), len(viol), time.time() - self.t0))
        for r, c in sorted(self.rule_counts.items()):
            print("  rule %-34s ok=%-4d finding=%-3d anchor-lost=%d" % (r, c.get("ok", 0), c.get("finding", 0), c.get("anchor-lost", 0)))
        for l in lines:
            print(l)
        sys.stdout.flush()
        return 1 if viol else 0
