"""C02 Dimensional analysis is sound.  DESIGN.md section 4, C02."""
import re
import cg
import facts
import hirutil as H
import k2
from facts import AnchorLost, ap_str, ap_calls, hir_walk, ap_match

CORE = "rink_core"
DIM = "types::dimensionality::Dimensionality"
DIM_NE = "<%s as core::cmp::PartialEq>::ne" % DIM
DIM_EQ = "<%s as core::cmp::PartialEq>::eq" % DIM
IS_DIMLESS = DIM + "::is_dimensionless"
NUM_DIMLESS = "types::number::Number::dimless"


def leaves(ap, last, out=None):
    """Access-path leaves whose last projection is `last`, as base paths (root, projs[:-1])."""
    if out is None:
        out = set()
    root, projs = ap
    if projs and projs[-1] == last:
        out.add((strip_bb(root), projs[:-1]))
    if root[0] == "call":
        for a in root[2]:
            leaves(a, last, out)
    elif root[0] == "agg":
        for a in root[2]:
            leaves(a, last, out)
    elif root[0] == "binop":
        leaves(root[2], last, out)
        leaves(root[3], last, out)
    elif root[0] in ("unop", "cast"):
        leaves(root[2], last, out)
    return out


def strip_bb(root):
    return root


def unit_test(ap):
    """If `ap` is a dimensionality test, return (kind, bases): kind 'ne'|'eq'|'dimless'; bases = operands' owners."""
    r = ap[0]
    if r[0] != "call" or ap[1]:
        return None
    n = r[1]
    if n == DIM_NE or n == DIM_EQ:
        bases = []
        for a in r[2]:
            if a[1] and a[1][-1] == "unit":
                bases.append((a[0], a[1][:-1]))
            else:
                bases.append(("other", ap_str(a)))
        return ("ne" if n == DIM_NE else "eq", bases)
    if n == IS_DIMLESS:
        a = r[2][0]
        if a[1] and a[1][-1] == "unit":
            return ("dimless", [(a[0], a[1][:-1])])
        return ("dimless", [("other", ap_str(a))])
    if n == NUM_DIMLESS:
        a = r[2][0]
        return ("dimless", [(a[0], a[1])])
    return None


def same_dim_accept(bases_wanted=None):
    """accepting edges of `a.unit == b.unit` style tests (optionally restricted to given operand owners)."""
    def acc(kind, ap, info):
        if kind != "bool":
            return None
        t = unit_test(ap)
        if not t or t[0] not in ("ne", "eq"):
            return None
        if bases_wanted is not None:
            got = set(b for b in t[1])
            if got != bases_wanted and not (len(got) == len(bases_wanted) and all(any(ap_match(g, w) for w in bases_wanted) for g in got)
                                            and all(any(ap_match(g, w) for g in got) for w in bases_wanted)):
                return None
        return {"false"} if t[0] == "ne" else {"true"}
    return acc


def dimless_accept(base=None, also_equal_to_radian=False):
    def acc(kind, ap, info):
        if kind != "bool":
            return None
        t = unit_test(ap)
        if not t:
            return None
        if t[0] == "dimless":
            if base is not None and not ap_match(t[1][0], base):
                return None
            return {"true"}
        if t[0] in ("ne", "eq"):
            # comparison against Dimensionality::new() (dimensionless) or the radian base unit
            others = [b for b in t[1] if b[0] == "other"]
            owners = [b for b in t[1] if b[0] != "other"]
            if len(others) == 1 and len(owners) == 1 and (base is None or ap_match(owners[0], base)):
                o = others[0][1]
                if o.startswith(DIM + "::new()") or (also_equal_to_radian and o.startswith(DIM + "::base_unit(types::base_unit::BaseUnit::new(") ):
                    return {"false"} if t[0] == "ne" else {"true"}
        return None
    return acc


def run(chk, F):
    chk.explanation = (
        "(a) Conformance gates as CFG cut-sets: for every operation that needs equal or empty dimensionality (Add/Sub for "
        "&Number, Number::rem, hypot, atan2, sin/cos/tan, asin/acos/atan, log base, the temperature suffix, Number::"
        "pow/shl/shr exponent, and/or/xor, to_list) the accepting edges of the dimensionality tests on exactly the "
        "operands the action combines are deleted from the MIR CFG and the action must become unreachable; "
        "(b) shape of the exponent algebra (Mul merges with a+b dropping zero, Div = Mul o recip, powi multiplies, root "
        "divides behind the divisibility gate, inverse trig results carry radian); (c) no zero exponent is stored: every "
        "value flowing into a Dimensionality map is classified NonZero by induction (literal != 0, existing entry, "
        "negation, exact quotient, products/sums filtered by != 0); (d) overflow asserts on exponent arithmetic; "
        "(e) btree_merge arm table: each arm inserts the key/value of the side it advances. Values of individual database "
        "units are data and not decided.")
    chk.guard("conformance-gate", "Number ops", lambda: number_gates(chk, F))
    chk.guard("conformance-gate", "eval_expr", lambda: eval_expr_gates(chk, F))
    chk.guard("conformance-gate", "to_list", lambda: to_list_gates(chk, F))
    chk.floor("conformance-gate", 21, "(gate instances counted on the pinned tree)")
    chk.guard("algebra-shape", "Dimensionality", lambda: algebra_shape(chk, F))
    chk.guard("zero-exponent", "writers", lambda: zero_exponent(chk, F))
    chk.guard("merge-completeness", "btree_merge", lambda: merge_completeness(chk, F))


# ---------------------------------------------------------------------------------------------
def number_gates(chk, F):
    A1, A2 = (("arg", 1), ()), (("arg", 2), ())
    for op, method in (("Add", "add"), ("Sub", "sub")):
        fn = F.find(CORE, "<&'a types::number::Number as core::ops::arith::%s<&'b types::number::Number>>::%s" % (op, method), exact=True)
        fk = "rink_core::Number::" + method
        actions = k2.call_blocks(fn, "core::ops::arith::%s<&'b types::numeric::Numeric>>::%s" % (op, method))
        k2.gate_rule(chk, fn, "conformance-gate", fk, "same-dimensionality", actions, same_dim_accept({A1, A2}),
                     "values are combined only behind `self.unit == other.unit`",
                     "%s combines the values of operands whose dimensionalities were not compared" % method)
        # the rejecting edge yields None
    fn = F.find(CORE, "types::number::Number::rem")
    actions = k2.call_blocks(fn, "core::ops::arith::Rem<&'b types::numeric::Numeric>>::rem")
    k2.gate_rule(chk, fn, "conformance-gate", "rink_core::Number::rem", "same-dimensionality", actions, same_dim_accept({A1, A2}),
                 "mod is computed only behind `self.unit == rhs.unit`", "mod is computed on operands of different dimensionality")
    for name, acts in (("pow", ("types::number::Number::powi", "types::number::Number::root", "f64::powf", "std::f64::<impl f64>::powf")),
                       ("shl", ("core::ops::arith::Mul<&'b types::numeric::Numeric>>::mul",)),
                       ("shr", ("core::ops::arith::Div<&'b types::numeric::Numeric>>::div",))):
        fn = F.find(CORE, "types::number::Number::" + name)
        actions = k2.call_blocks(fn, *acts)
        k2.gate_rule(chk, fn, "conformance-gate", "rink_core::Number::" + name, "exponent-dimensionless", actions, dimless_accept(A2),
                     "the operation runs only behind `exp.dimless()`", "%s accepts a right-hand side that carries a dimension" % name)
    for name, sym in (("and", "BitAnd"), ("or", "BitOr"), ("xor", "BitXor")):
        # (normalised: the three operators may share a private helper that is handed the operation as a closure)
        fn = F.find(CORE, "types::number::Number::" + name, inline=True, keep=("Number::dimless", "Option::<T>", "Result::<T, E>", "Iterator", "bool>::then"))
        actions = [bb for bb, t in fn.calls() if "callee" in t and ("::bit::%s" % sym) in t["callee"]["path"]]
        for base, which in ((A1, "left"), (A2, "right")):
            k2.gate_rule(chk, fn, "conformance-gate", "rink_core::Number::" + name, "dimensionless-" + which, actions, dimless_accept(base),
                         "bit operation only behind `%s.dimless()`" % which, "%s accepts a %s operand that carries a dimension" % (name, which))


F64 = ("std::f64::<impl f64>::", "core::f64::<impl f64>::")


def f64_calls(fn, name):
    return [(bb, t) for bb, t in fn.calls() if "callee" in t and t["callee"]["path"].endswith(tuple(p + name for p in F64))]


def eval_expr_gates(chk, F):
    fn = F.find(CORE, "runtime::eval::eval_expr", inline=True, keep=("Option::<T>", "Iterator", "bool>::then"))
    fk = "rink_core::runtime::eval::eval_expr"
    # two-argument functions: same dimensionality of exactly the two arguments
    for name in ("hypot", "atan2"):
        sites = f64_calls(fn, name)
        if len(sites) != 1:
            raise AnchorLost("eval_expr: expected one f64::%s call, found %d" % (name, len(sites)))
        bb, t = sites[0]
        ap = fn.apath_place(t["dest"]) if False else None
        owners = set()
        for a in t["args"]:
            owners |= leaves(fn.apath(a), "value")
        k2.gate_rule(chk, fn, "conformance-gate", fk, name + ":same-dimensionality", [bb], same_dim_accept(owners),
                     "%s is evaluated only behind `x.unit == y.unit` of its two arguments" % name,
                     "%s is evaluated on arguments whose dimensionalities were not compared with each other" % name)
    for name in ("sin", "cos", "tan"):
        sites = f64_calls(fn, name)
        if len(sites) != 1:
            raise AnchorLost("eval_expr: expected one f64::%s call, found %d" % (name, len(sites)))
        bb, t = sites[0]
        owners = set()
        for a in t["args"]:
            owners |= leaves(fn.apath(a), "value")
        base = list(owners)[0] if len(owners) == 1 else None
        k2.gate_rule(chk, fn, "conformance-gate", fk, name + ":dimensionless-or-angle", [bb], dimless_accept(base, also_equal_to_radian=True),
                     "%s is evaluated only for dimensionless or radian arguments" % name,
                     "%s accepts arguments that are neither dimensionless nor an angle" % name)
    for name in ("asin", "acos", "atan"):
        sites = f64_calls(fn, name)
        if len(sites) != 1:
            raise AnchorLost("eval_expr: expected one f64::%s call, found %d" % (name, len(sites)))
        bb, t = sites[0]
        owners = set()
        for a in t["args"]:
            owners |= leaves(fn.apath(a), "value")
        base = list(owners)[0] if len(owners) == 1 else None
        k2.gate_rule(chk, fn, "conformance-gate", fk, name + ":dimensionless", [bb], dimless_accept(base),
                     "%s is evaluated only for dimensionless arguments" % name, "%s accepts a dimensioned argument" % name)
    sites = f64_calls(fn, "log")
    if len(sites) != 1:
        raise AnchorLost("eval_expr: expected one f64::log call")
    bb, t = sites[0]
    owners = leaves(fn.apath(t["args"][1]), "value")
    base = list(owners)[0] if len(owners) == 1 else None
    k2.gate_rule(chk, fn, "conformance-gate", fk, "log:base-dimensionless", [bb], dimless_accept(base),
                 "log(x, b) is evaluated only for a dimensionless base", "log accepts a base that carries a dimension")
    # results of inverse trig functions carry radian; sin/cos/tan results are dimensionless
    for name, want in (("asin", "radian"), ("acos", "radian"), ("atan", "radian"), ("atan2", "radian"), ("sin", ""), ("cos", ""), ("tan", "")):
        bb, t = f64_calls(fn, name)[0]
        ok = False
        detail = ""
        reach = fn.reachable(bb)
        for i, j, st in fn.stmts():
            rv = st.get("rv", {})
            if i in reach and rv.get("k") == "agg" and rv.get("adt") == "types::number::Number" and fn.dominates(bb, i):
                val = fn.apath(rv["ops"][0])
                if k2._root_call_bb(val) is None and not (val[0][0] == "agg"):
                    continue
                if ("::" + name + "(") not in ap_str(val):
                    continue
                uap = fn.apath(rv["ops"][1])
                u = ap_str(uap)
                detail = u
                lit_fn, lit_bb = fn, i
                g = facts.private_helper(F, CORE, uap[0][1]) if uap[0][0] == "call" and not uap[1] else None
                if g is not None and facts.straight_line(g):
                    # the unit has been given a name (`fn radian() -> Dimensionality`): what the helper returns, and its literal
                    u = ap_str(facts.expand_ap(F, CORE, uap))
                    lit_fn, lit_bb = g, 0
                if want == "radian":
                    ok = u.startswith(DIM + "::base_unit(types::base_unit::BaseUnit::new(") and unit_literal(F, lit_fn, lit_bb, uap if lit_fn is fn else None) == "radian"
                else:
                    ok = u.startswith(DIM + "::new()")
        chk.decide(ok, "algebra-shape", fk, name + ":result-unit", fn.where(bb),
                   "%s returns %s" % (name, "an angle (radian)" if want else "a dimensionless number"),
                   "%s result carries unit `%s`" % (name, detail[:100]))
    # temperature suffix: only on dimensionless operands
    muls = [(bb, t) for bb, t in fn.calls() if "callee" in t and t["callee"]["path"].endswith("core::ops::arith::Mul<&'b types::number::Number>>::mul")
            and "Context::lookup" in ap_str(fn.apath(t["args"][1]))]
    if len(muls) != 1:
        raise AnchorLost("eval_expr: cannot find the `x * lookup(scale)` of the temperature suffix")
    bb, t = muls[0]
    owner = fn.apath(t["args"][0])
    k2.gate_rule(chk, fn, "conformance-gate", fk, "degree-suffix:dimensionless", [bb], dimless_accept((owner[0], owner[1])),
                 "a temperature scale is applied only to a dimensionless operand", "a temperature scale can be applied to a value that already carries a dimension")


def unit_literal(F, fn, bb, uap=None):
    """The string literal passed to BaseUnit::new nearest (by line) to block bb, from HIR.  When the unit's access path is given
    and contains the BaseUnit::new call, that call's own source line is used (it may lie in a helper that was put back in place)."""
    line = fn.blocks[bb]["term"]["loc"]["line"]
    hs = [F.hir_of(fn)] if not getattr(fn, "inlined_ids", None) else F.hirs_of(fn)
    if uap is not None:
        def find_new(ap):
            r = ap[0]
            if r[0] == "call":
                if r[1].endswith("BaseUnit::new") and isinstance(r[3], int) and r[3] < len(fn.blocks):
                    return r[3]
                for a in r[2]:
                    x = find_new(a)
                    if x is not None:
                        return x
            return None
        nb = find_new(uap)
        if nb is not None:
            line = fn.blocks[nb]["term"]["loc"]["line"]
    best = None
    for h in hs:
        for c in H.path_calls(h["body"], "BaseUnit::new"):
            if c["args"] and c["args"][0].get("k") == "Lit":
                d = abs(c["line"] - line)
                if best is None or d < best[0]:
                    best = (d, c["args"][0]["lit"]["v"])
    return best[1] if best else None


def param_of_type(fn, *needles):
    """Which parameter (1-based) has a type that mentions one of `needles`: parameters are found by what they are, not by where
    they stand in the list."""
    for i in range(1, fn.raw.get("arg_count", 0) + 1):
        if any(n in fn.locals[i] for n in needles):
            return i
    return None


def to_list_gates(chk, F):
    # (normalised: `rest.iter().find(|x| first.unit != x.unit)` is the loop it stands for; guard helpers are in place)
    fn = F.find(CORE, "runtime::eval::to_list", inline=True, keep=("conformance_err", "Option::<T>", "Result::<T, E>", "bool>::then"))
    fk = "rink_core::runtime::eval::to_list"
    TOP = (("arg", param_of_type(fn, "types::number::Number") or 2), ())
    divs = k2.call_blocks(fn, "types::numeric::Numeric::div_rem", "core::ops::arith::Div<&'b types::numeric::Numeric>>::div")
    if len(divs) < 2:
        raise AnchorLost("to_list: expected div_rem and a final division, found %d sites" % len(divs))
    # value vs first unit
    def value_vs_first(kind, ap, info):
        if kind != "bool":
            return None
        t = unit_test(ap)
        if t and t[0] in ("ne", "eq") and any(b == TOP for b in t[1]):
            return {"false"} if t[0] == "ne" else {"true"}
        return None
    k2.gate_rule(chk, fn, "conformance-gate", fk, "value-conforms-to-list", divs, value_vs_first,
                 "the value is divided only after `value.unit == first_unit.unit`", "a value not conformable with the list is decomposed anyway")
    # members vs first: the closure that maps names to units compares each member with the first, Err is propagated by `?`
    member_cl = None
    for c in F.closures_of(fn):
        for s, kind, ap, info in k2.switch_tests(c):
            t = unit_test(ap) if kind == "bool" else None
            # (the rendering closure also compares dimensionalities - of two units it has just looked up by name, to decide how a
            # part is labelled; the member test compares the iteration's item with the captured first unit)
            if t and t[0] in ("ne", "eq") and "Context::lookup(" not in ap_str(ap):
                member_cl = (c, s, t, ap)
    # the member test may also be inline (loop) in to_list itself
    inline = [(s, unit_test(ap)) for s, kind, ap, info in k2.switch_tests(fn) if kind == "bool" and unit_test(ap) and unit_test(ap)[0] in ("ne", "eq")
              and not any(b == TOP for b in unit_test(ap)[1])]
    if member_cl is None and not inline:
        chk.finding("conformance-gate", fk, "members-conform", fn.where(), "no test compares the list members' dimensionalities")
        return
    if member_cl is not None:
        c, s, t, ap = member_cl
        # one operand must be the first unit (captured), the other the member produced by the iteration
        txt = ap_str(ap)
        captured_first = "arg1" in txt
        chk.decide(captured_first, "conformance-gate", fk, "members-conform", c.where(s),
                   "every list member is compared with the first member's dimensionality", "member test does not involve the first unit: %s" % txt[:160])
        # which iterator drives the closure: it must cover every member (no chunking/stepping)
        drivers = []
        for bb, tt in fn.calls():
            if "callee" in tt and any(l["target"]["id"] == c.id for l in tt["callee"].get("links", [])):
                drivers.append((bb, tt))
        names = [tt["callee"]["path"].split("::")[-1] for _, tt in drivers]
        chain = " ".join(ap_str(fn.apath(tt["args"][0]))[:300] for _, tt in drivers)
        bad = [w for w in ("chunks", "step_by", "take", "windows", "zip", "filter", "skip_while", "take_while", "rev().skip") if ("::" + w + "(") in chain]
        # skip(1) = "every member but the first, which is the reference" is the one accepted form of skipping
        import re as _re
        for mm in _re.finditer(r"::skip\((.*?), ([^,()]*)\)", chain):
            if mm.group(2).strip() != "1":
                bad.append("skip(%s)" % mm.group(2))
        chk.decide(bool(drivers) and not bad, "conformance-gate", fk, "members-all-visited", fn.where(drivers[0][0]) if drivers else fn.where(),
                   "the member test runs for every element of the list (driven by %s over the plain iterator)" % names,
                   "the member conformance test does not visit every list member (iterator chain uses %s)" % bad)
        # Err of the closure must reach `?` before the division loop
        tries = [bb for bb, tt in fn.calls() if "callee" in tt and tt["callee"]["path"].endswith("Try>::branch")]
        ok = any(all(fn.dominates(tb, d) for d in divs) for tb in tries)
        chk.decide(ok, "conformance-gate", fk, "members-error-propagated", fn.where(), "a non-conformable member aborts to_list (`?`) before any division",
                   "the member test's error does not stop the decomposition")
    else:
        for s, t in inline:
            reach, _ = k2.cut_gate(fn, divs, lambda kind, ap, info: ({"false"} if unit_test(ap)[0] == "ne" else {"true"}) if kind == "bool" and unit_test(ap) and unit_test(ap)[0] in ("ne", "eq") and not any(b == TOP for b in unit_test(ap)[1]) else None)
            ok = all(reach.values())
            why = "members compared inline before dividing"
            if not ok:
                # a loop over the other members (`for other in &units[1..]`): with a single member there is nothing to compare, so
                # the division is reachable without the test; what has to hold is that the loop stands before every division, runs
                # over all the other members, and that its refusing edge (dimensionalities differ) never reaches a division
                refuse = [tgt for lab, tgt, name in k2.edge_names(fn, s, "bool", fn.switch_info(s)) if name == ("true" if t[0] == "ne" else "false")]
                never = bool(refuse) and not any(d in fn.reachable(r_) for r_ in refuse for d in divs)
                nexts = [bb for bb, tt in fn.calls() if "callee" in tt and tt["callee"]["path"].endswith("Iterator>::next") and s in fn.reachable(bb) and bb in fn.reachable(s)]
                heads = [bb for bb in nexts if all(fn.dominates(bb, d) for d in divs)]
                src = ap_str(fn.apath(fn.blocks[heads[0]]["term"]["args"][0])) if heads else ""
                import re as _re2
                skips = [m.group(2).strip() for m in _re2.finditer(r"::skip\((.*?), ([^,()]*)\)", src)]
                partial = [w for w in ("chunks", "step_by", "take", "windows", "zip", "filter", "skip_while", "take_while") if ("::" + w + "(") in src] + [x for x in skips if x != "1"]
                froms = _re2.findall(r"RangeFrom\{(\d+)\}", src)
                partial += [x for x in froms if int(x) > 1]
                ok = never and bool(heads) and not partial
                why = "every other member is compared with the first in a loop that stands before the divisions; a member that differs returns an error"
            chk.decide(ok, "conformance-gate", fk, "members-conform", fn.where(s), why, "division reachable without the member test")
            # inline loops must not chunk
            chain = " ".join(t["callee"]["path"] for _, t in fn.calls() if "callee" in t)
            bad = [w for w in ("::chunks", "::step_by", "::windows") if w in chain]
            chk.decide(not bad or bad == ["::windows"], "conformance-gate", fk, "members-all-visited", fn.where(s), "every member is visited", "member test iterates with %s: some members are never compared" % bad)
            break


# ---------------------------------------------------------------------------------------------
def algebra_shape(chk, F):
    # Mul for &Dimensionality: btree_merge with closure returning a+b / None when zero
    # (normalised: the merge and its closure may have been given a name - `merge_exponents(&self.dims, &rhs.dims)`)
    fn = F.find(CORE, "<&'a %s as core::ops::arith::Mul>::mul" % DIM, exact=True, inline=True, keep=("btree_merge$", "Option::<T>", "Result::<T, E>", "Iterator", "bool>::then"))
    fk = "rink_core::Dimensionality::mul"
    bm = k2.call_blocks(fn, "algorithms::btree_merge::btree_merge")
    chk.decide(len(bm) == 1, "algebra-shape", fk, "uses-btree_merge", fn.where(), "Mul merges the two exponent maps with btree_merge", "Mul for &Dimensionality does not call btree_merge once")
    cls = F.closures_of(fn)
    ok = False
    detail = ""
    if len(cls) == 1:
        c = cls[0]
        somes = []
        nones = 0
        for i, j, st in c.stmts():
            rv = st.get("rv", {})
            if st["k"] == "assign" and st["place"]["l"] == 0 and rv.get("k") == "agg" and rv.get("adt", "").endswith("option::Option"):
                if rv["variant"] == "Some":
                    somes.append((i, c.apath(rv["ops"][0])))
                else:
                    nones += 1
        if len(somes) == 1 and nones == 1:
            i, ap = somes[0]
            s = ap_str(ap)
            detail = s
            is_sum = (ap[0][0] == "binop" and ap[0][1] in ("Add", "AddWithOverflow") and {ap_str(ap[0][2]), ap_str(ap[0][3])} == {"arg2", "arg3"}) or \
                (ap[0][0] == "call" and ap[0][1].endswith("core::ops::arith::Add<&i64>>::add") and {ap_str(x) for x in ap[0][2]} == {"arg2", "arg3"})
            gs = [c.guard_desc(g) for g in c.guards_of(i)]
            nz = any(d[0] == "bool" and d[2] is True and d[1][0][0] == "binop" and d[1][0][1] == "Ne" and "const" in (d[1][0][3][0][0], d[1][0][2][0][0])
                     and ("Add" in ap_str(d[1])) for d in gs)
            import c06 as _c06
            generic = _c06.generic_nonzero(c, gs)
            is_sum = is_sum or (generic and ap[0][0] == "call" and "core::ops::arith::Add" in ap[0][1] and {ap_str(x) for x in ap[0][2]} == {"arg2", "arg3"})
            ok = is_sum and (nz or generic)
    chk.decide(ok, "algebra-shape", fk, "sum-dropping-zero", fn.where(), "the merge closure returns Some(a + b) only when a + b != 0, else None",
               "the merge closure is not `if a + b != 0 { Some(a + b) } else { None }` (returns %s)" % detail[:120])
    # `products add base-unit exponents ... Rink never returns a number whose dimensionality differs from this algebra`: the sum is a
    # machine addition of two i64 exponents.  Plain `a + b` (core's forwarding impl for references carries
    # #[rustc_inherit_overflow_checks]) panics in a build with overflow checks and wraps in a release build: 33 doublings of
    # m^2147483647 give 1 / meter^8589934592.  The sum must be a checked addition whose overflow is not a number.
    plain = False
    checked = False
    for c in cls:
        for bb, t in c.calls():
            if "callee" in t:
                n = t["callee"]["path"]
                plain = plain or bool(__import__("re").search(r"as core::ops::arith::Add<&?i64>>::add$", n))
                checked = checked or n.endswith("<impl i64>::checked_add")
        for bb, blk in enumerate(c.blocks):
            t = blk["term"]
            if t["k"] == "assert" and t["msg"].get("kind") == "Overflow" and t["msg"].get("op") == "Add":
                plain = True
    import k1
    pb = k1.producers_bound_powers(F)
    chk.decide((checked and not plain) or pb[0], "algebra-shape", fk, "exponent-sum-cannot-wrap", fn.where(),
               "exponents are added with checked_add" if checked and not plain else "the sum is a plain add of two powers within +-(2^31-1): " + pb[1],
               "exponents are added with a plain `a + b`: m^2147483647 multiplied by itself 33 times (`ans*ans`) panics with \"attempt to add "
               "with overflow\" in a debug build and answers `1 / meter^8589934592` in a release build [" + pb[1] + "]")
    # Div = Mul o recip
    fn = F.find(CORE, "<&'a %s as core::ops::arith::Div>::div" % DIM, exact=True)
    names = [t["callee"]["path"] for _, t in fn.calls() if "callee" in t]
    ok = any(n.endswith("Dimensionality::recip") for n in names) and any(n.endswith("as core::ops::arith::Mul>::mul") for n in names)
    rec = [t for _, t in fn.calls() if "callee" in t and t["callee"]["path"].endswith("Dimensionality::recip")]
    ok = ok and bool(rec) and "arg2" in ap_str(fn.apath(rec[0]["args"][0]))
    chk.decide(ok, "algebra-shape", "rink_core::Dimensionality::div", "mul-by-recip", fn.where(), "Div is Mul by the reciprocal of the right operand", "Div for &Dimensionality is not `self * rhs.recip()`")
    # recip negates, pow multiplies
    for name, opname in (("recip", "Mul"), ("pow", "Mul")):
        fn = F.find(CORE, DIM + "::" + name)
        muls = [(i, j, st) for i, j, st in fn.stmts() if st.get("rv", {}).get("k") == "binop" and st["rv"]["op"].startswith("Mul")]
        ok = len(muls) == 1
        if ok:
            rv = muls[0][2]["rv"]
            b = fn.apath(rv["b"])
            ok = (name == "recip" and b[0] == ("const", -1)) or (name == "pow" and b == (("arg", 2), ()))
        chk.decide(ok, "algebra-shape", "rink_core::Dimensionality::" + name, "exponent-update", fn.where(),
                   "%s multiplies every exponent by %s" % (name, "-1" if name == "recip" else "the power"), "%s does not multiply every exponent by %s" % (name, "-1" if name == "recip" else "its argument"))
    # Number Mul/Div use the Dimensionality operators on the two units
    fn = F.find(CORE, "<&'a types::number::Number as core::ops::arith::Mul<&'b types::number::Number>>::mul", exact=True)
    um = [t for _, t in fn.calls() if "callee" in t and t["callee"]["path"] == "<&'a %s as core::ops::arith::Mul>::mul" % DIM]
    ok = len(um) == 1 and {ap_str(fn.apath(a)) for a in um[0]["args"]} == {"arg1.unit", "arg2.unit"}
    chk.decide(ok, "algebra-shape", "rink_core::Number::mul", "units-multiplied", fn.where(), "Number * Number multiplies the two dimensionalities", "Number::mul does not multiply self.unit by other.unit")
    fn = F.find(CORE, "<&'a types::number::Number as core::ops::arith::Div<&'b types::number::Number>>::div", exact=True)
    names = [t["callee"]["path"] for _, t in fn.calls() if "callee" in t]
    inv = [t for _, t in fn.calls() if "callee" in t and t["callee"]["path"].endswith("Number::invert")]
    ok = bool(inv) and ap_str(fn.apath(inv[0]["args"][0])) == "arg2" and any(n.endswith("core::ops::arith::Mul<&'b types::number::Number>>::mul") for n in names)
    chk.decide(ok, "algebra-shape", "rink_core::Number::div", "mul-by-invert", fn.where(), "Number / Number is self * other.invert()", "Number::div is not self * other.invert()")
    # invert negates each exponent
    fn = F.find(CORE, "types::number::Number::invert")
    cls = F.closures_of(fn)
    ok = False
    for c in cls:
        for i, j, st in c.stmts():
            rv = st.get("rv", {})
            if rv.get("k") == "unop" and rv["op"] == "Neg":
                ok = c.apath(rv["a"])[1][-1:] == ("1",)
    chk.decide(ok, "algebra-shape", "rink_core::Number::invert", "negates-exponents", fn.where(), "invert negates every exponent", "invert does not negate each exponent")
    # powi multiplies by exp
    fn = F.find(CORE, "types::number::Number::powi")
    ok = False
    # in the function itself (a loop over the entries) or in a closure of it (a `map` over them): entry's exponent * the power
    for c in [fn] + F.closures_of(fn):
        power = "arg2" if c is fn else "arg1"      # the parameter, or the closure's captured copy of it
        for i, j, st in c.stmts():
            rv = st.get("rv", {})
            if rv.get("k") == "binop" and rv["op"].startswith("Mul") and rv.get("aty", "i64") == "i64":
                a, b = ap_str(c.apath(rv["a"])), ap_str(c.apath(rv["b"]))
                ok = ok or (a.endswith(".1") and power in b)
    # ... or powi hands the unit to Dimensionality::pow (checked above: multiplies every exponent, drops the zero ones) with the power
    for bb, t in fn.calls():
        if "callee" in t and t["callee"]["path"] == DIM + "::pow" and len(t["args"]) == 2:
            u, pw = ap_str(fn.apath(t["args"][0])), ap_str(fn.apath(t["args"][1]))
            ok = ok or ("arg1.unit" in u and "arg2" in pw and "binop" not in pw)
    chk.decide(ok, "algebra-shape", "rink_core::Number::powi", "multiplies-exponents", fn.where(), "powi multiplies every exponent by the power", "powi does not multiply each exponent by the power")
    # root divides behind the divisibility gate
    fn = F.find(CORE, "types::number::Number::root")
    # the action is the division of an exponent itself, wherever it is done: in the loop of root or in a closure mapped over the entries
    root_fn = fn
    quot = [(c, i) for c in [fn] + F.closures_of(fn) for i, j, st in c.stmts()
            if st.get("rv", {}).get("k") == "binop" and st["rv"]["op"] == "Div" and st["rv"].get("aty") == "i64"]
    if len(set(id(c) for c, _ in quot)) != 1:
        raise AnchorLost("Number::root: the division of the exponents by the degree was not found in root or one closure of it")
    fn = quot[0][0]
    ins = sorted(set(i for _, i in quot))
    def divisible(kind, ap, info):
        if kind != "bool":
            return None
        r = ap[0]
        if r[0] == "binop" and r[1] in ("Ne", "Eq"):
            sides = [r[2], r[3]]
            rem = [x for x in sides if x[0][0] == "binop" and x[0][1] == "Rem"]
            zero = [x for x in sides if x[0] == ("const", 0)]
            if rem and zero:
                return {"false"} if r[1] == "Ne" else {"true"}
        return None
    two_phase = exact_by_all_gate(F, root_fn, fn) if fn is not root_fn else None
    if two_phase:
        chk.ok("algebra-shape", "rink_core::Number::root", "divisibility-gate", fn.where(ins[0]), "root divides the exponents only " + two_phase)
    else:
        k2.gate_rule(chk, fn, "algebra-shape", "rink_core::Number::root", "divisibility-gate", ins, divisible,
                     "root stores power / exp only behind `power % exp == 0`", "root stores a quotient exponent without checking divisibility")
    q = quot
    fn = root_fn
    chk.decide(len(q) == 1, "algebra-shape", "rink_core::Number::root", "divides-exponents", fn.where(), "root divides every exponent by the degree", "root does not divide each exponent by the degree")


def _cap(ap, caps):
    """An access path inside a closure, in terms of the function that made the closure: `arg1.<k>..` is capture k."""
    root, projs = ap
    if root == ("arg", 1) and projs and str(projs[0]).isdigit() and int(projs[0]) < len(caps):
        c = caps[int(projs[0])]
        return (c[0], c[1] + tuple(projs[1:]))
    return ap


def exact_by_all_gate(F, outer, C):
    """`if !entries.all(|(_, &p)| p % d == 0) { return Err(..) }  entries.map(|(k, &p)| (k, p / d)).collect()`: the division in the
    mapped closure C is exact when the place where `outer` hands C to `map` is reached only through the true edge of
    `Iterator::all` over the same entries with a closure that is exactly `p % d == 0` for the same d.  Returns a description or None."""
    def closure_uses(fn, pred):
        out = []
        for bb, t in fn.calls():
            if "callee" not in t or not pred(t["callee"]["path"]) or len(t["args"]) < 2:
                continue
            a = fn.apath(t["args"][1])
            if a[0][0] == "agg" and str(a[0][1]).startswith("closure:"):
                out.append((bb, t, a[0][1][len("closure:"):], a[0][2], fn.apath(t["args"][0])))
        return out
    maps = [m for m in closure_uses(outer, lambda p: p.endswith(("Iterator::map", "Iterator>::map"))) if m[2] == C.path]
    if len(maps) != 1:
        return None
    mbb, mt, _, mcaps, msrc = maps[0]
    divs = [st["rv"] for _, _, st in C.stmts() if st.get("rv", {}).get("k") == "binop" and st["rv"]["op"] == "Div" and st["rv"].get("aty") == "i64"]
    if len(divs) != 1:
        return None
    divisor = _cap(C.apath(divs[0]["b"]), mcaps)
    alls = {(bb): (cp, caps, src) for bb, t, cp, caps, src in closure_uses(outer, lambda p: p.endswith(("Iterator::all", "Iterator>::all")))}
    for g in outer.guards_of(mbb):
        d = outer.guard_desc(g)
        if d[0] != "bool" or d[2] is not True:
            continue
        r = d[1][0]
        if r[0] != "call" or not r[1].endswith(("Iterator::all", "Iterator>::all")) or d[1][1]:
            continue
        hit = alls.get(r[3])
        if hit is None:
            continue
        cp, caps, src = hit
        A = next((f for f in F.by_crate[outer.crate] if f.path == cp), None)
        # same entries: both iterate the same container (the receiver chains differ only in the iterator calls)
        def container(ap):
            while ap[0][0] == "call" and ap[0][2] and ap[0][1].endswith(("::iter", "::into_iter", "IntoIterator>::into_iter", "::by_ref", "DerefMut>::deref_mut", "Deref>::deref")):
                ap = ap[0][2][0]
            return ap_str(ap)
        if A is None or container(src) != container(msrc):
            continue
        rets = [st for _, _, st in A.stmts() if st["k"] == "assign" and st["place"]["l"] == 0 and not st["place"]["p"]]
        if len(rets) != 1 or rets[0]["rv"].get("k") != "binop" or rets[0]["rv"]["op"] != "Eq":
            continue
        x, y = A.apath(rets[0]["rv"]["a"]), A.apath(rets[0]["rv"]["b"])
        rem, zero = (x, y) if y[0] == ("const", 0) else ((y, x) if x[0] == ("const", 0) else (None, None))
        if rem is None or rem[0][0] != "binop" or rem[0][1] != "Rem" or rem[1]:
            continue
        same_d = facts.ap_match(_cap(rem[0][3], caps), divisor)
        elem = ap_str(rem[0][2]).endswith(".1") and ap_str(C.apath(divs[0]["a"])).endswith(".1")
        if same_d and elem:
            return "behind `all(|p| p %% d == 0)` over the same entries (%s)" % container(src)[:60]
    return None


# ---------------------------------------------------------------------------------------------
def tested_nonzero(fn, bb, vap):
    """Is the block reached only through the `!= 0` edge of a test of this very value?"""
    for g in fn.guards_of(bb):
        d = fn.guard_desc(g)
        if d[0] != "bool":
            continue
        r = d[1][0]
        if r[0] == "binop" and r[1] in ("Ne", "Eq") and not d[1][1]:
            sides = [r[2], r[3]]
            if any(x[0] == ("const", 0) for x in sides) and any(x == vap for x in sides):
                if d[2] is (r[1] == "Ne"):
                    return True
    return False


def zero_exponent(chk, F):
    """Every exponent value that flows into a Dimensionality map is NonZero (induction over the writers)."""
    G = cg.get(F)
    n = 0

    def existing(ap):
        root, projs = ap
        if root[0] == "arg" and projs[-1:] == ("1",):
            return True
        if root[0] == "call" and root[1].endswith(("Iterator>::next", "::next")) and projs[-3:] == ("as Some", "0", "1"):
            return True
        if root[0] == "call" and root[1].endswith("Dimensionality::as_single") and projs[-1:] == ("1",):
            return True
        if root[0] == "local" and projs[-1:] == ("1",):
            return True
        return False

    def classify(fn, ap, depth=0):
        root, projs = ap
        if root[0] == "const":
            return "nonzero" if root[1] not in (0, "0") else "zero"
        if existing(ap):
            return "nonzero"
        if not projs:
            if root[0] == "unop" and root[1] == "Neg":
                return classify(fn, root[2], depth)
            if root[0] == "cast":
                return classify(fn, root[2], depth)
            if root[0] == "binop" and root[1].startswith("Mul"):
                a, b = classify(fn, root[2], depth), classify(fn, root[3], depth)
                return "nonzero" if a == b == "nonzero" else "maybe"
            if root[0] == "binop" and root[1] == "Div":
                return "nonzero-if-exact" if classify(fn, root[2], depth) == "nonzero" else "maybe"
            if root[0] == "arg":
                return "arg%d" % root[1]
        return "maybe"

    def decide(fn, where, key, cls, detail_ok, detail_bad, filtered=False):
        nonlocal n
        n += 1
        ok = cls in ("nonzero",) or filtered
        j = JUSTIFIED.get((re.sub(r"\{closure#\d+\}", "{closure}", fn.path), key))
        if not ok and j is not None:
            reason, check = j
            if check(F, fn):
                ok = True
                detail_ok = "justified: " + reason
        chk.decide(ok, "zero-exponent", "%s::%s" % (fn.crate, fn.path), key, where,
                   detail_ok + (" (filtered by != 0)" if filtered and cls != "nonzero" else ""),
                   detail_bad + " [classified `%s`]" % cls)

    # S1: inserts into a Dimensionality's map
    for fn in F.by_crate[CORE]:
        for bb, t in fn.calls():
            if "callee" not in t:
                continue
            p = t["callee"]["path"]
            is_map_insert = p.endswith("BTreeMap::<K, V, A>::insert") and fn.apath(t["args"][0])[1][-1:] == ("dims",)
            is_dim_insert = p == DIM + "::insert"
            is_new_dim = p == DIM + "::new_dim"
            if not (is_map_insert or is_dim_insert or is_new_dim):
                continue
            vap = fn.apath(t["args"][-1])
            cls = classify(fn, vap)
            if cls == "nonzero-if-exact":
                # needs the divisibility gate (checked in algebra-shape); accept when a Rem test exists in the function
                has_rem = any(st.get("rv", {}).get("k") == "binop" and st["rv"]["op"] == "Rem" for _, _, st in fn.stmts())
                cls = "nonzero" if has_rem else "maybe"
            if cls.startswith("arg") and fn.path.startswith(DIM + "::"):
                # wrapper (new_dim / insert): obligation moves to the callers, handled when we visit them
                continue
            if cls.startswith("arg"):
                cls = "maybe"
            if cls == "maybe" and tested_nonzero(fn, bb, vap):
                cls = "nonzero"
            if cls == "maybe":
                # the value comes out of a private helper / a choice: every place it can come from is an existing exponent or a
                # non-zero literal
                import prov
                leaves = prov.sources(F, fn, t["args"][-1], consts=True)
                if leaves and all((k_ == "const" and isinstance(v_, int) and v_ != 0) or (k_ == "value" and existing(v_)) for k_, v_ in leaves):
                    cls = "nonzero"
            decide(fn, fn.where(bb), p.split("::")[-1] + ":exponent", cls, "stored exponent is non-zero (%s)" % ap_str(vap)[:80],
                   "an exponent that may be zero is stored into a Dimensionality: %s" % ap_str(vap)[:120])
    # S2: closures whose (key, exponent) tuples are collected into a Dimensionality
    for fn in F.by_crate[CORE]:
        for bb, t in fn.calls():
            if "callee" not in t:
                continue
            p = t["callee"]["path"]
            if not (p.endswith("Iterator::collect") or p.endswith("FromIterator<(types::base_unit::BaseUnit, i64)>>::from_iter")):
                continue
            if DIM not in " ".join(t["callee"].get("gargs", [])) and DIM not in fn.locals[t["dest"]["l"]]:
                continue
            if fn.locals[t["dest"]["l"]] != DIM:
                continue
            chain = fn.apath(t["args"][0])
            calls = ap_calls(chain)
            filtered = any(c.endswith(("Iterator::filter", "Iterator>::filter")) for c in calls) and filter_is_nonzero(F, fn, chain)
            closures = closure_paths(chain)
            maps = [c for c in closures if any(cc.endswith(("::map", "::filter_map", "::flat_map")) for cc in calls)]
            found = False
            for cp in closures:
                cf = [g for g in F.by_crate[CORE] if g.path == cp]
                if not cf:
                    continue
                c = cf[0]
                for i, j, st in c.stmts():
                    rv = st.get("rv", {})
                    if st["k"] == "assign" and st["place"]["l"] == 0 and not st["place"]["p"] and rv.get("k") == "agg" and rv.get("agg") == "tuple" and len(rv["ops"]) == 2:
                        found = True
                        vap = c.apath(rv["ops"][1])
                        cls = classify(c, vap)
                        if cls == "nonzero-if-exact" and exact_by_all_gate(F, fn, c):
                            cls = "nonzero"      # an existing (non-zero) exponent divided exactly is non-zero
                        decide(c, c.where(i, j), "collected:exponent", cls, "collected exponent is non-zero (%s)" % ap_str(vap)[:80],
                               "a (unit, exponent) pair whose exponent may be zero is collected into a Dimensionality: %s" % ap_str(vap)[:120], filtered=filtered)
            if not found:
                # pass-through of an existing map (e.g. into_iter of another Dimensionality): fine
                chk.ok("zero-exponent", "%s::%s" % (fn.crate, fn.path), "collected:pass-through", fn.where(bb), "collect of entries produced elsewhere: %s" % ap_str(chain)[:100], trivial=True)
    # S3: in-place updates of exponents (iter_mut)
    for fn in F.by_crate[CORE]:
        if not fn.path.startswith(DIM + "::"):
            continue
        for i, j, st in fn.stmts():
            if st["k"] != "assign" or "*" not in [p for p in st["place"]["p"] if p == "*"]:
                continue
            if st["place"].get("ty") != "i64":
                continue
            vap = fn.apath(st["rv"]["a"]) if st["rv"]["k"] == "use" else None
            if vap is None:
                continue
            # value is (existing * something)
            r = vap[0]
            cls = "maybe"
            if r[0] == "binop" and r[1].startswith("Mul"):
                other = r[3]
                if other[0][0] == "const" and other[0][1] != 0:
                    cls = "nonzero"
                elif other[0][0] == "arg":
                    cls = "maybe"
            retained = any("callee" in t and t["callee"]["path"].endswith("BTreeMap::<K, V, A>::retain") for _, t in fn.calls())
            decide(fn, fn.where(i, j), "in-place:exponent", cls, "in-place exponent update keeps exponents non-zero",
                   "exponents are multiplied in place by a value that may be zero and zero entries are not removed", filtered=retained)
    if n < 8:
        chk.anchor_lost("zero-exponent", "rink_core", "only %d exponent-writing sites recognised (expected >= 8)" % n)


def _array_literals_nonzero(F, fn):
    root = fn
    if fn.raw.get("root"):
        root = F.fns[fn.raw["root"]["id"]]
    h = F.hir_of(root)
    arrs = [a for a in hir_walk(h["body"]) if a.get("k") == "Array"]
    vals = []
    for a in arrs:
        for e in a["elems"]:
            lit = e if e.get("k") == "Lit" else (e.get("a") if e.get("k") == "Unary" else None)
            if lit is None or lit.get("k") != "Lit" or lit["lit"].get("lit") != "int":
                return False
            vals.append(lit["lit"]["v"])
    return bool(vals) and all(v != 0 for v in vals)


def _helper_called_with_entries(F, fn):
    """describe_unit's helper closure is only called as helper(dim, pow / -pow, ..) inside loops over value.unit."""
    root = F.fns[fn.raw["root"]["id"]] if fn.raw.get("root") else fn
    h = F.hir_of(root)
    calls = [c for c in hir_walk(h["body"]) if c.get("k") == "Call" and H.local_name(c["f"]) and H.local_name(c["f"])[0] == "helper"]
    if not calls:
        return False
    for c in calls:
        a = c["args"][1]
        while a.get("k") == "Unary":
            a = a["a"]
        ln = H.local_name(a)
        if not ln or ln[0] != "pow":
            return False
    return True


# sites that the NonZero lattice cannot classify, each with a reason and a machine-checked clause backing it
JUSTIFIED = {
    ("algorithms::fast_decompose::fast_decompose", "insert:exponent"):
        ("the exponent is drawn from the literal array [-1, 1, 2] (all array literals in fast_decompose are non-zero integers)", _array_literals_nonzero),
    ("loader::context::Context::describe_unit::{closure}", "new_dim:exponent"):
        ("temporary lookup key built from an existing entry's exponent (helper is only called with `pow`/`-pow` of the unit being described); never stored in a result",
         _helper_called_with_entries),
}


def closure_paths(ap, out=None):
    if out is None:
        out = []
    r = ap[0]
    if r[0] == "agg":
        if r[1].startswith("closure:"):
            out.append(r[1][len("closure:"):])
        for a in r[2]:
            closure_paths(a, out)
    elif r[0] == "call":
        for a in r[2]:
            closure_paths(a, out)
    return out


def filter_is_nonzero(F, fn, chain):
    """One of the closures in the chain returns `x.1 != 0`."""
    for cp in closure_paths(chain):
        for c in [g for g in F.by_crate[CORE] if g.path == cp]:
            for i, j, st in c.stmts():
                rv = st.get("rv", {})
                if st["k"] == "assign" and st["place"]["l"] == 0 and rv.get("k") == "binop" and rv["op"] == "Ne":
                    a, b = c.apath(rv["a"]), c.apath(rv["b"])
                    if (b[0] == ("const", 0) and a[1][-1:] == ("1",)) or (a[0] == ("const", 0) and b[1][-1:] == ("1",)):
                        return True
    return False


# ---------------------------------------------------------------------------------------------
def merge_completeness(chk, F):
    fn = F.find(CORE, "algorithms::btree_merge::btree_merge")
    h = F.hir_of(fn)
    fk = "rink_core::algorithms::btree_merge::btree_merge"
    ms = [m for m in hir_walk(h["body"]) if m.get("k") == "Match" and m.get("src") == "Normal" and m["scrut"].get("k") == "Tup"]
    m = None
    if len(ms) == 1:
        m = ms[0]
        its = []
        for e in m["scrut"]["elems"]:
            names = [H.local_name(mc["recv"]) for mc in H.method_calls(e, "peek")]
            its.append(names[0][0] if names and names[0] else None)
        if None in its or len(its) != 2:
            raise AnchorLost("btree_merge: scrutinee is not (a.peek().., b.peek()..)")
    else:
        # the same four cases as an `if let` chain over the two peeked entries bound first:
        #   let x = a.peek()..; let y = b.peek()..;
        #   if let (Some(..), Some(..)) = (x, y) {..} else if let Some(..) = y {..} else if let Some(..) = x {..} else { break }
        peeked = {}
        for n in hir_walk(h["body"]):
            if n.get("sk") == "let" and (n.get("pat") or {}).get("pk") == "bind" and n.get("init"):
                pk = [H.local_name(mc["recv"]) for mc in H.method_calls(n["init"], "peek")]
                if len(pk) == 1 and pk[0]:
                    peeked[n["pat"]["name"]] = pk[0][0]
        chain = [e for e in hir_walk(h["body"]) if e.get("k") == "If" and e["cond"].get("k") == "Let" and e["cond"]["init"].get("k") == "Tup"
                 and len(e["cond"]["init"]["elems"]) == 2]
        if len(chain) != 1 or len(peeked) != 2:
            raise AnchorLost("btree_merge: expected one match (or one if-let chain) over a tuple of peeked items")
        top = chain[0]
        pair = [(H.local_name(x) or (None,))[0] for x in top["cond"]["init"]["elems"]]
        if any(x not in peeked for x in pair):
            raise AnchorLost("btree_merge: the pair tested is not made of the two peeked entries")
        its = [peeked[pair[0]], peeked[pair[1]]]
        wild = {"pk": "wild"}
        arms_ = [{"pat": top["cond"]["pat"], "body": top["then"], "line": top["line"]}]
        cur = top.get("else")
        while cur is not None:
            c_ = cur
            while c_.get("k") == "Block" and not c_["stmts"] and c_.get("expr"):
                c_ = c_["expr"]
            if c_.get("k") == "If" and c_["cond"].get("k") == "Let":
                who = (H.local_name(c_["cond"]["init"]) or (None,))[0]
                if who not in pair:
                    raise AnchorLost("btree_merge: an `else if let` of the chain tests something other than the two peeked entries")
                subs = [wild, wild]
                subs[pair.index(who)] = c_["cond"]["pat"]
                arms_.append({"pat": {"pk": "tuple", "subs": subs}, "body": c_["then"], "line": c_["line"]})
                cur = c_.get("else")
            else:
                arms_.append({"pat": {"pk": "tuple", "subs": [wild, wild]}, "body": c_, "line": c_.get("line", top["line"])})
                cur = None
        m = {"arms": arms_}
    n_arms = 0

    def side_of(e, sides):
        e2 = e
        while e2.get("k") in ("AddrOf", "Unary") and ("e" in e2 or "a" in e2):
            e2 = e2.get("e") or e2.get("a")
        l = H.local_name(e2)
        if not l:
            return None
        return 0 if l[0] == sides[0][1] else 1 if l[0] == sides[1][1] else None

    def cases(body, sides, guard):
        """[(label, body, handled sides)] of an arm whose pattern binds both sides: by its guard, by a `match x.cmp(y)` in it, or
        by an if / else-if chain over `x < y`, `x > y`."""
        if guard is not None:
            if guard.get("k") == "Binary" and guard["op"] in ("Lt", "Gt"):
                lk, rk = side_of(guard["a"], sides), side_of(guard["b"], sides)
                if lk is None or rk is None or lk == rk:
                    return None
                return [(" if " + H.expr_str(guard, 40), body, [lk if guard["op"] == "Lt" else rk])]
            return None
        b = body
        while b.get("k") == "Block" and not b["stmts"] and b.get("expr"):
            b = b["expr"]
        if b.get("k") == "Match" and b["scrut"].get("k") == "MethodCall" and b["scrut"]["name"] == "cmp":
            lk, rk = side_of(b["scrut"]["recv"], sides), side_of(b["scrut"]["args"][0], sides)
            if lk is None or rk is None or lk == rk:
                return None
            out, seen = [], set()
            for arm in b["arms"]:
                pt = H.pat_str(arm["pat"])
                names = [o for o in ("Less", "Greater", "Equal") if "Ordering::" + o in pt]
                if not names and arm["pat"]["pk"] == "wild":
                    names = [o for o in ("Less", "Greater", "Equal") if o not in seen]
                if len(names) != 1 or arm.get("guard"):
                    return None
                seen.add(names[0])
                out.append((" / cmp is " + names[0], arm["body"], {"Less": [lk], "Greater": [rk], "Equal": [0, 1]}[names[0]]))
            return out if seen == {"Less", "Greater", "Equal"} else None
        if b.get("k") == "If" and b["cond"].get("k") == "Binary" and b["cond"]["op"] in ("Lt", "Gt") and b.get("else"):
            first = cases(b["then"], sides, b["cond"])
            e = b["else"]
            while e.get("k") == "Block" and not e["stmts"] and e.get("expr"):
                e = e["expr"]
            if first and e.get("k") == "If" and e["cond"].get("k") == "Binary" and e["cond"]["op"] in ("Lt", "Gt") and e.get("else"):
                second = cases(e["then"], sides, e["cond"])
                if second and sorted(first[0][2] + second[0][2]) == [0, 1]:
                    return [first[0], second[0], (" / neither smaller", e["else"], [0, 1])]
            return None
        return [("", body, [0, 1])]

    for a in m["arms"]:
        pat = a["pat"]
        if pat["pk"] != "tuple" or len(pat["subs"]) != 2:
            raise AnchorLost("btree_merge: arm pattern is not a pair")
        sides = []
        for p in pat["subs"]:
            if p["pk"] == "tuplestruct" and p["path"].get("path", "").endswith("Some"):
                inner = p["subs"][0]
                k = inner["subs"][0].get("name") if inner["pk"] == "tuple" else None
                v = inner["subs"][1].get("name") if inner["pk"] == "tuple" else None
                sides.append(("some", k, v))
            else:
                sides.append(("none", None, None))
        if sides[0][0] == "none" and sides[1][0] == "none":
            brk = [x for x in hir_walk(a["body"]) if x.get("k") == "Break"]
            chk.decide(bool(brk), "merge-completeness", fk, "arm:(None, None)", "%s:%d" % (fn.file, a["line"]), "both exhausted: loop ends", "the (None, None) arm does not end the loop")
            continue
        # which side(s) must be handled
        if sides[0][0] == "some" and sides[1][0] == "some":
            cs = cases(a["body"], sides, a.get("guard"))
            if cs is None:
                raise AnchorLost("btree_merge: how the arm `%s` orders the two keys is not recognised (a guard `x < y`/`x > y`, a match on x.cmp(y), or an if chain)" % H.pat_str(pat)[:60])
        else:
            cs = [("", a["body"], [0] if sides[0][0] == "some" else [1])]
        for label, body, handle in cs:
            n_arms += 1
            ptxt = H.pat_str(pat) + label
            nexts = sorted((H.local_name(mc["recv"]) or ("?",))[0] for mc in H.method_calls(body, "next"))
            want_next = sorted(its[s] for s in handle)
            inserts = H.method_calls(body, "insert")
            ok_ins = False
            ins_txt = [H.expr_str(i, 80) for i in inserts]
            if len(inserts) == 1:
                kx = H.expr_str(inserts[0]["args"][0], 60)
                vx = H.expr_str(inserts[0]["args"][1], 60)
                if len(handle) == 1:
                    s = handle[0]
                    ok_ins = sides[s][1] is not None and sides[s][2] is not None and kx.startswith(sides[s][1] + ".clone") and vx.startswith(sides[s][2] + ".clone")
                else:
                    # merged value: insert(key.clone(), v) under `if let Some(v) = merge_func(aval, bval)`
                    mf = [c for c in hir_walk(body) if c.get("k") == "Call" and H.local_name(c["f"]) and H.local_name(c["f"])[0] == "merge_func"]
                    args_ok = bool(mf) and [H.expr_str(x) for x in mf[0]["args"]] == [sides[0][2], sides[1][2]]
                    ok_ins = args_ok and (kx.startswith(sides[0][1] + ".clone") or kx.startswith(sides[1][1] + ".clone"))
            chk.decide(nexts == want_next, "merge-completeness", fk, "arm:%s:advance" % ptxt[:60], "%s:%d" % (fn.file, a["line"]),
                       "arm advances exactly the iterator(s) whose entry it handled (%s)" % want_next,
                       "arm `%s` advances %s but handles %s: an entry is dropped, duplicated or the loop hangs" % (ptxt[:60], nexts, want_next))
            chk.decide(ok_ins, "merge-completeness", fk, "arm:%s:insert" % ptxt[:60], "%s:%d" % (fn.file, a["line"]),
                       "arm inserts the key and value of the side it handles", "arm `%s` does not insert the handled side's key/value (inserts: %s)" % (ptxt[:60], ins_txt))
    if n_arms != 5:
        chk.anchor_lost("merge-completeness", fk, "expected 5 non-terminal arms, found %d" % n_arms)
