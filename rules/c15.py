"""C15 Queries are pure; only `ans` carries state between them.  DESIGN.md section 4, C15."""
import re
import cg
import hirutil as H
import facts
from facts import AnchorLost, ap_str, ap_calls, hir_walk

CORE = "rink_core"
CTX = "loader::context::Context"

# who may write which field of Context (all five crates). Anything else is a finding.
WRITERS = {
    "registry": {("rink_core", "loader::load::load_defs"), ("rink_core", "loader::context::Context::load_dates")},
    "temporaries": {("rink_core", "loader::load::load_defs")},
    "now": {("rink_core", "loader::context::Context::set_time"), ("rink_core", "loader::context::Context::update_time")},
    "previous_result": {("rink_core", "helpers::eval"), ("rink_js", "Context::eval"), ("rink_js", "Context::eval_tokens"),
                        # not an updater: the sandboxed service restores the copy of `ans` that the parent process keeps for it (the child
                        # may be a new process); the three `restore:` obligations of store_guards apply to it
                        ("rink", "<service::RinkService as rink_sandbox::Service>::handle")},
    "save_previous_result": {("rink", "config::load"), ("rink_irc", "config::load"), ("rink_js", "Context::set_save_previous_result")},
    "use_humanize": {("rink_js", "Context::new"), ("rink", "fmt::tests::test_to_ansi")},
}
# entry points that evaluate one query: none of the configuration writers may be reachable from them
QUERY_ENTRIES = [("rink_core", "loader::context::Context::eval_query"), ("rink_core", "runtime::eval::eval_query"),
                 ("rink_core", "runtime::eval::eval_expr")]


def writer_key(fn):
    # a closure is its parent's own code (and closure numbers shift whenever one is added before it)
    p = re.sub(r"(::\{closure#\d+\})+$", "", fn.path)
    return (fn.crate, p)


def run(chk, F):
    chk.explanation = (
        "Effect/ownership analysis, no execution: (a) eval_query/eval_expr and everything they reach in the call "
        "graph take Context by shared reference, the deep type walk finds no interior mutability (UnsafeCell) in "
        "Context/Registry/Number/Expr/Query, rink_core has no user `unsafe`, no `static mut` and no non-Freeze "
        "static, so a query cannot write the database, clock or settings; (b) who-may-write over all five crates: "
        "every assignment or &mut borrow through a field of Context is enumerated from MIR and compared with the "
        "allowed writer table; (c) every store to previous_result is reachable only through the necessary edges "
        "`evaluation succeeded`, `save_previous_result == true`, `reply is QueryReply::Number`, `raw_value is Some` "
        "(single-edge cut-set on the CFG) and stores a clone of that reply's raw_value; the three updaters agree; "
        "(d) QueryReply::Number is constructed only in the plain-expression arm of eval_query; (e) Context::lookup "
        "reads previous_result for exactly the names ans/ANS/_ before anything else.")
    G = cg.get(F)
    chk.guard("signature", "eval_query", lambda: purity(chk, F, G))
    chk.guard("who-may-write", "Context", lambda: who_may_write(chk, F, G))
    chk.guard("ans-store-guards", "updaters", lambda: store_guards(chk, F))
    chk.guard("number-reply-sites", "QueryReply::Number", lambda: number_sites(chk, F))
    chk.guard("commands-do-not-fall-through", "parse_query", lambda: command_words(chk, F))
    chk.guard("ans-lookup", "Context::lookup", lambda: ans_lookup(chk, F))
    import shared_rules
    chk.guard("temporaries-cleared", "load_defs", lambda: shared_rules.temporaries_cleared(chk, F))


def purity(chk, F, G):
    roots = [F.find(c, p) for c, p in QUERY_ENTRIES]
    reach = G.reachable(roots)
    n = 0
    for fid in reach:
        fn = F.fns[fid]
        if fn.crate != CORE:
            continue
        h = F.hir[fn.crate].get(fn.id)
        if h is None:
            continue
        for t in h["inputs"]:
            if "loader::context::Context" in t or "loader::registry::Registry" in t:
                n += 1
                chk.decide(not t.startswith("&mut") and "&mut " not in t and "&'a mut" not in t, "signature", fn.path, "param:" + t.replace("'a ", ""),
                           fn.where(), "takes %s" % t,
                           "function reachable from eval_query takes the context/registry mutably (%s)" % t,
                           path=G.path_to(reach, fid))
    chk.floor("signature", 20, "(functions reachable from eval_query with a Context/Registry parameter)")
    chk.extra["reachable_from_eval_query"] = len(reach)
    # interior mutability
    for name in ("loader::context::Context", "loader::registry::Registry", "types::number::Number",
                 "types::numeric::Numeric", "runtime::substance::Substance", "ast::expr::Expr", "ast::query::Query",
                 "runtime::value::Value"):
        adt = F.adt(CORE, name)
        bad = [x for x in adt["interior_mut"]]
        chk.decide(not bad, "interior-mutability", name, "deep-walk", "%s:%d" % (adt["loc"]["file"], adt["loc"]["line"]),
                   "no UnsafeCell / non-Freeze / dyn reachable from %s" % name,
                   "interior mutability reachable from %s: %s" % (name, bad[:2]))
    # statics and unsafe in rink_core
    for st in F.crates[CORE]["statics"]:
        chk.decide(not st["mutable"] and st["freeze"] and not st["interior_mut"], "statics", st["path"], "immutable", "",
                   "static %s: %s is immutable and Freeze" % (st["path"], st["ty"]),
                   "static %s is mutable or interior-mutable" % st["path"])
    ub = [(h["path"], h["unsafe_blocks"]) for h in F.crates[CORE]["hir"] if h["unsafe_blocks"] or h["unsafe_fn"]]
    chk.decide(not ub, "no-unsafe", "rink_core", "user-unsafe", "", "no user-written unsafe block or unsafe fn in rink_core (%d bodies)" % len(F.crates[CORE]["hir"]),
               "unsafe code in rink_core: %s" % ub[:5])
    # no reachable function creates threads / touches thread-locals or env (effects that could carry state)
    banned = ("std::env::", "std::thread::", "std::fs::", "std::time::SystemTime::now", "std::time::Instant::now",
              "chrono::Local::now", "chrono::Utc::now", "std::process::", "std::net::")
    nb = 0
    for fid in reach:
        fn = F.fns[fid]
        for bb, c in G.ext.get(fid, []):
            if any(b in c["path"] for b in banned):
                nb += 1
                chk.finding("effects", fn.path, c["path"], fn.where(bb),
                            "%s is reachable from eval_query: evaluation must depend only on the query, the database, "
                            "the clock stored in the context and ans" % c["path"], path=G.path_to(reach, fid))
    if nb == 0:
        chk.ok("effects", "eval_query", "no-env-clock-fs", "", "no clock/env/fs/thread/process call among %d external call sites reachable from eval_query" % sum(len(G.ext.get(f, [])) for f in reach))


def who_may_write(chk, F, G):
    seen = {}
    for fn, bb, j, f, how in cg.field_writes(F, CTX):
        k = writer_key(fn)
        seen.setdefault((f, k), []).append((fn, bb, j, how))
    for (f, k), sites in sorted(seen.items(), key=lambda x: (x[0][0], x[0][1])):
        fn, bb, j, how = sites[0]
        allowed = k in WRITERS.get(f, set())
        chk.decide(allowed, "who-may-write", "%s::%s" % k, "Context.%s" % f, fn.where(bb, j),
                   "%d write site(s) to Context.%s (allowed writer)" % (len(sites), f),
                   "Context.%s is written in %s::%s (%s), which is not an allowed writer of that field %s" % (
                       f, k[0], k[1], how, sorted(WRITERS.get(f, []))))
    chk.floor("who-may-write", 9, "(writer functions of Context fields)")
    # none of the writers of registry/temporaries/now/settings is reachable from a per-query entry point
    roots = [F.find(c, p) for c, p in QUERY_ENTRIES]
    reach = G.reachable(roots)
    for f, ws in WRITERS.items():
        if f == "previous_result":
            continue
        for (c, p) in ws:
            fns = F.find(c, p, allow_many=True)
            for fn in fns:
                chk.decide(fn.id not in reach, "writer-unreachable", "%s::%s" % (c, p), "Context.%s" % f, fn.where(),
                           "writer of Context.%s is not reachable from eval_query" % f,
                           "a writer of Context.%s is reachable from eval_query" % f,
                           path=G.path_to(reach, fn.id) if fn.id in reach else None)
    # Registry fields: only the loader writes them
    rw = {}
    for fn, bb, j, f, how in cg.field_writes(F, "loader::registry::Registry"):
        rw.setdefault((fn.crate, fn.path), []).append((fn, bb, j, f))
    for k, sites in sorted(rw.items()):
        ok = k[0] == CORE and (k[1].startswith("loader::load::load_defs") or k[1] == "loader::context::Context::load_dates")
        fn, bb, j, f = sites[0]
        chk.decide(ok, "who-may-write", "%s::%s" % k, "Registry.*", fn.where(bb, j),
                   "%d write site(s) to Registry fields inside the loader" % len(sites),
                   "Registry.%s is written outside the loader" % f)


def session_restore(chk, F, fn, bb, j, fk, where):
    """The sandboxed CLI evaluates in a child process that is replaced after a fault; `ans` is the one piece of state that
    outlives a query, so the parent keeps a copy and sends it with every request.  This write is that restore, not an update:
    `ans` stays "the most recent successful numeric result of a plain expression" provided (1) what is written comes from the
    request and nothing else, (2) the reply carries the child's previous_result as it is after the evaluation (which only
    helpers::eval may have changed), and (3) the parent stores exactly what came back in a reply - a fault, which has no
    reply, leaves its copy alone - and sends exactly that."""
    st = fn.blocks[bb]["stmts"][j]
    src = ap_str(fn.apath(st["rv"]["a"])) if st["rv"]["k"] == "use" else str(st["rv"])[:80]
    chk.decide("arg2" in src and "Ans::number" in src and "eval" not in src.replace("Ans::number", ""), "ans-store-guards", fk, "restore:from-the-request", where,
               "previous_result is set to the `ans` that came with the request (%s)" % src[:120],
               "the service writes previous_result from %s, not from the request's copy of ans" % src[:160])
    # it precedes the evaluation
    ev = [b2 for b2, t in fn.calls() if "callee" in t and t["callee"]["path"].endswith("helpers::eval")]
    chk.decide(bool(ev) and all(fn.dominates(bb, e) for e in ev), "ans-store-guards", fk, "restore:before-the-evaluation", where,
               "the restore happens before the query is evaluated", "previous_result is overwritten after the evaluation: the query's own result is lost")
    rets = []
    for i, jj, st2 in fn.stmts():
        rv = st2.get("rv", {})
        if st2["k"] == "assign" and st2["place"]["l"] == 0 and not st2["place"]["p"] and rv.get("k") == "agg":
            rets.append([ap_str(fn.apath(o)) for o in rv.get("ops", [])])
    okr = bool(rets) and all(len(r) == 2 and ".previous_result" in r[1] and "Ans::new" in r[1] for r in rets)
    chk.decide(okr, "ans-store-guards", fk, "restore:reply-carries-the-child's-ans", where,
               "the reply carries the child's previous_result as it is after the evaluation",
               "the reply does not carry Context.previous_result back to the parent: %s" % rets)
    # the transport is faithful: a float stays a float (an approximate previous answer must not come back as an exact ratio: later
    # arithmetic would be exact, `sqrt(2)` then `ans^2 - 2` answers something else than in one context), nothing is dropped (NaN is
    # a previous answer too), and to_rational() is applied to rationals only
    conv = {}
    for f in F.by_crate["rink"]:
        if f.path in ("service::Ans::new", "service::Ans::number"):
            conv[f.path.split("::")[-1]] = f
    if len(conv) == 2:
        new_, num_ = conv["new"], conv["number"]
        tr = [b2 for b2, t in new_.calls() if "callee" in t and t["callee"]["path"].endswith("Numeric::to_rational")]

        def acc(kind, ap, info):
            if kind == "variant" and info.get("enum", "").endswith("types::numeric::Numeric"):
                return {"Rational"}
            return None
        import k2
        gated = True
        if tr:
            res, matched = k2.cut_gate(new_, tr, acc)
            gated = bool(matched) and all(res.values())
        floats_out = any(st.get("rv", {}).get("k") == "agg" and any("as Float" in ap_str(new_.apath(o)) for o in st["rv"].get("ops", [])) for i, jj, st in new_.stmts())
        floats_in = any(st.get("rv", {}).get("k") == "agg" and str(st["rv"].get("adt", "")).endswith("types::numeric::Numeric") and st["rv"].get("variant") == "Float" for i, jj, st in num_.stmts())
        total = bool(rets) and all("Option::<T>::map(" in r[1] for r in rets if len(r) == 2)
        chk.decide(gated and floats_out and floats_in and total, "ans-store-guards", fk, "restore:transport-keeps-the-value-as-it-is", new_.where(),
                   "a Float travels as a float and a Rational as numerator/denominator; every previous answer is sent back (Option::map)",
                   "the copy of ans that travels between the processes is not the value itself (to_rational behind the Rational test: %s; float sent as "
                   "float: %s; float rebuilt as float: %s; nothing dropped: %s): `sqrt(2)` then `ans^2 - 2` answers differently in the sandboxed CLI, "
                   "and after `asin(2)` there is no ans" % (gated, floats_out, floats_in, total))
    else:
        raise AnchorLost("cli service: Ans::new / Ans::number not found (%s)" % sorted(conv))
    # parent side (cli::repl, an async fn: its locals live in the coroutine state): the request carries a clone of one state
    # field of type Option<Ans>, and that field is only ever assigned None (at the start) or the `.result.1` of an Ok reply
    par = [f for f in F.by_crate["rink"] if f.path.startswith("repl::interactive_sandboxed")]
    found = False
    for f in par:
        for b2, t in f.calls():
            if "callee" in t and t["callee"]["path"].endswith("Sandbox::<S>::execute") and len(t["args"]) >= 2:
                found = True
                sent = f.apath(t["args"][1])
                comp = sent[0][2][1] if sent[0][0] == "agg" and len(sent[0][2]) == 2 else None
                field = None
                if comp is not None and comp[0][0] == "call" and comp[0][1].endswith("Clone>::clone") and not comp[1]:
                    field = ap_str(comp[0][2][0])
                srcs = []
                for i, jj, st2 in f.stmts():
                    pl = st2.get("place") or {}
                    if st2["k"] == "assign" and pl.get("p") and "Option<service::Ans>" in str(pl.get("ty", "")):
                        rv = st2["rv"]
                        if rv.get("k") == "agg":
                            srcs.append("None" if str(rv.get("variant")) == "None" else "agg:" + str(rv.get("variant")))
                        elif rv.get("k") == "use":
                            srcs.append(ap_str(f.apath(rv["a"])))
                        else:
                            srcs.append(rv.get("k"))
                good = field is not None and bool(srcs) and all(x == "None" or (x.endswith("as Ok.0.result.1") and "execute" in x) for x in srcs)
                chk.decide(good, "ans-store-guards", "rink::" + f.path, "restore:parent-keeps-what-the-child-returned", f.where(b2),
                           "the request carries a clone of the parent's copy (%s), which is only assigned None or the ans of an Ok reply" % field,
                           "the parent's copy of ans is assigned from %s (sent: %s): it must be None or the `.result.1` of an Ok reply, and be what is sent" % (srcs, ap_str(sent)[-120:]))
    if not found:
        raise AnchorLost("cli::repl: the sandboxed loop's execute() call was not found")


def store_guards(chk, F):
    """(c): every store to previous_result has the four necessary guards and stores the reply's raw value."""
    table = {}
    stored_kinds = {}
    for fn, bb, j, f, how in cg.field_writes(F, CTX, {"previous_result"}):
        if how != "assign":
            chk.finding("ans-store-guards", "%s::%s" % (fn.crate, fn.path), "non-assign:" + how, fn.where(bb, j),
                        "previous_result is borrowed mutably (%s) instead of being assigned" % how)
            continue
        guards = [fn.guard_desc(g) for g in fn.guards_of(bb)]
        fk = "%s::%s" % (fn.crate, fn.path)
        where = fn.where(bb, j)
        if fn.crate == "rink" and fn.path == "<service::RinkService as rink_sandbox::Service>::handle":
            session_restore(chk, F, fn, bb, j, fk, where)
            continue
        gtxt = "; ".join("%s %s %s" % (g[0], ap_str(g[1])[-70:], g[2:]) for g in guards)

        def has(pred):
            return any(pred(g) for g in guards)

        # 1. evaluation succeeded
        def succeeded(g):
            if g[0] != "variant":
                return False
            calls = ap_calls(g[1])
            if not any(c.endswith("Context::eval_query") for c in calls):
                return False
            if g[3] == "Continue" and not g[1][1]:
                return True
            if g[3] == "Ok" and not g[1][1]:
                return True
            return False
        chk.decide(has(succeeded), "ans-store-guards", fk, "after-success", where,
                   "store only on the success edge of eval_query's result",
                   "previous_result is stored without eval_query having succeeded on every path (guards: %s)" % gtxt)
        # 2. feature flag
        chk.decide(has(lambda g: g[0] == "bool" and g[1][1][-1:] == ("save_previous_result",) and g[2] is True),
                   "ans-store-guards", fk, "flag-on", where, "store only when save_previous_result is true",
                   "previous_result is stored without testing save_previous_result == true (guards: %s)" % gtxt)
        # 3.-5. what is stored, decided from where the stored value can come from (however the choice is written: nested
        # `if let`, a match, a private helper that returns Option<&Number>): it is built as Some(..) - never a None that would
        # erase `ans` - and everything that can be inside is the raw_value of this evaluation's reply in one of the two numeric
        # reply kinds
        import prov
        st = fn.blocks[bb]["stmts"][j]
        rv = st["rv"]
        ap = fn.apath(rv["a"]) if rv["k"] == "use" else None
        is_some = bool(ap and ap[0][0] == "agg" and ap[0][1].endswith("Option::Some")) or (rv["k"] == "agg" and rv.get("variant") == "Some")
        ops = [rv["a"]] if rv["k"] == "use" else rv.get("ops", [])
        kinds, bad = [], []
        for o in ops:
            for kind_, v in prov.sources(F, fn, o):
                if kind_ == "value" and v[0][0] == "call" and any(c.endswith("Context::eval_query") for c in ap_calls(v)):
                    projs = [p_ for p_ in v[1] if p_ not in ("pointer",)]
                    names = [p_[3:] for p_ in projs if isinstance(p_, str) and p_.startswith("as ")]
                    fields = [p_ for p_ in projs if not (isinstance(p_, str) and p_.startswith("as ")) and not str(p_).isdigit()]
                    if len(names) == 1 and names[0] in ("Number", "Duration") and fields[-1:] == ["raw_value"] and fields[:-1] in ([], ["raw"]):
                        kinds.append(names[0])
                        continue
                    bad.append(ap_str(v)[-90:])
                else:
                    bad.append("%s %s" % (kind_, (ap_str(v)[-80:] if kind_ == "value" else str(v)[:80])))
        chk.decide(bool(kinds) and all(k in ("Number", "Duration") for k in kinds) and not bad,
                   "ans-store-guards", fk, "reply-is-number", where, "what is stored comes from the numeric replies QueryReply::Number / ::Duration only",
                   "previous_result is stored for replies other than the numeric ones (sources: %s; guards: %s)" % (bad, gtxt))
        stored_kinds.setdefault(fk, set()).update(kinds)
        chk.decide(is_some, "ans-store-guards", fk, "raw-some", where, "the store is Some(..) of a raw_value that is there",
                   "previous_result is assigned something that is not built as Some(..): a reply without a raw value erases `ans` (guards: %s)" % gtxt)
        txt = ap_str(ap) if ap else str(rv)[:80]
        chk.decide(not bad and bool(kinds), "ans-store-guards", fk, "value-is-reply-raw", where,
                   "stores Some(clone of this reply's raw_value)", "stored value is %s, not the reply's raw_value (%s)" % (txt[:160], bad))
        table.setdefault(fk, set()).update(["success" if has(succeeded) else "no-success-guard",
                                            "flag" if has(lambda g: g[0] == "bool" and g[1][1][-1:] == ("save_previous_result",) and g[2] is True) else "no-flag-guard"])
        table[fk].update(kinds)
    chk.floor("ans-store-guards", 12, "(three updaters x obligations; an updater may store both kinds in one statement)")
    # the numeric result of a plain expression is replied as Number, or - when it is a time - as Duration (the automatic
    # breakdown): both are "the most recent numeric result" and every updater must store both
    for fk, ks in sorted(stored_kinds.items()):
        chk.decide(ks == {"Number", "Duration"}, "ans-store-guards", fk, "all-numeric-replies-stored", "",
                   "the updater stores the raw value of both numeric reply kinds",
                   "the updater stores ans only for %s: a plain expression whose value is a time is answered as QueryReply::Duration and never "
                   "reaches `ans` (`2 m`, `10 s`, `ans` answers 2 meter)" % sorted(ks))
    # sibling agreement
    table = {k: sorted(v) for k, v in table.items()}
    vals = list(table.values())
    if vals:
        base = vals[0]
        for k, v in table.items():
            chk.decide(v == base,
                       "updaters-agree", k, "guard-set", "", "guard set equals the other updaters'",
                       "the ans updaters disagree on their guards: %s vs %s" % (v, base))


def number_sites(chk, F):
    n = 0
    for fn in F.fns.values():
        if fn.raw.get("impl_trait") and ("Clone" in fn.raw["impl_trait"] or "Deserialize" in fn.raw["impl_trait"]):
            continue
        for i, j, st in fn.stmts():
            rv = st.get("rv")
            if not (rv and rv["k"] == "agg" and rv.get("adt", "").endswith("output::reply::QueryReply") and rv["variant"] in ("Number", "Duration")):
                continue
            if "exp" in st["loc"] and "Derive" in st["loc"]["exp"]:
                continue
            n += 1
            fk = "%s::%s" % (fn.crate, fn.path)
            guards = [fn.guard_desc(g) for g in fn.guards_of(i)]
            in_eval_query = fn.crate == CORE and fn.path == "runtime::eval::eval_query"
            badq = [g for g in guards if g[0] == "variant" and (
                (g[2].endswith("ast::query::Query") and g[3] not in ("Expr",)) or
                (g[2].endswith("ast::query::Conversion") and g[3] != "None"))]
            val = any(g[0] == "variant" and g[2].endswith("runtime::value::Value") and g[3] == "Number" for g in guards)
            chk.decide(in_eval_query and not badq and val, "number-reply-sites", fk, "ctor:" + rv["variant"], fn.where(i, j),
                       "QueryReply::%s built from eval_expr's Value::Number in the plain-expression arm" % rv["variant"],
                       "a numeric reply (stored as ans) is constructed %s (guards %s)" % (
                           "outside eval_query" if not in_eval_query else "in a conversion/command arm",
                           [(g[2].split("::")[-1], g[3]) for g in guards if g[0] == "variant"]))
    chk.floor("number-reply-sites", 1)
    # the multi-pattern arm that reaches it: only Query::Expr and Query::Convert(_, None, None, Default)
    fn = F.find(CORE, "runtime::eval::eval_query")
    h = F.hir_of(fn)
    m = [x for x in hir_walk(h["body"]) if x.get("k") == "Match" and x.get("src") == "Normal"][0]
    arms = []
    for a in m["arms"]:
        has_num = any(x.get("k") == "Path" and x["r"].get("path", "").endswith("QueryReply::Number") for x in hir_walk(a["body"]))
        if has_num:
            arms.append(a)
    ok = len(arms) == 1
    desc = ""
    if ok:
        pats = arms[0]["pat"]["alts"] if arms[0]["pat"]["pk"] == "or" else [arms[0]["pat"]]
        names = []
        for p in pats:
            nm = p["path"]["path"].split("::")[-1]
            sub = []
            for s in p.get("subs", []):
                if s["pk"] == "expr":
                    sub.append(s["e"].get("path", "?").split("::")[-1])
                elif s["pk"] == "bind":
                    sub.append("_")
                elif s["pk"] == "wild":
                    sub.append("_")
                else:
                    sub.append(s["pk"])
            names.append((nm, tuple(sub)))
        desc = str(names)
        ok = sorted(names) == sorted([("Expr", ("_",)), ("Convert", ("_", "None", "None", "Default"))])
    chk.decide(ok, "number-reply-sites", "rink_core::runtime::eval::eval_query", "arm-pattern", "%s:%d" % (fn.file, arms[0]["line"] if arms else 0),
               "the arm producing QueryReply::Number matches exactly Query::Expr(_) | Query::Convert(_, None, None, Default)",
               "the arm producing QueryReply::Number matches %s" % desc)


def ans_lookup(chk, F):
    fn = F.find(CORE, "loader::context::Context::lookup")
    h = F.hir_of(fn)
    body = h["body"]
    # first statement: if name == "ans" || name == "ANS" || name == "_" { return self.previous_result.clone(); }
    first = body["stmts"][0] if body["stmts"] else None
    e = first.get("e") if first else None
    ok = False
    lits = []
    if e and e.get("k") == "If":
        for x in hir_walk(e["cond"]):
            if x.get("k") == "Lit" and x["lit"].get("lit") == "str":
                lits.append(x["lit"]["v"])
        ret = [x for x in hir_walk(e["then"]) if x.get("k") == "Ret"]
        fields = [x.get("name") for x in hir_walk(e["then"]) if x.get("k") == "Field"]
        # the condition is read by what it accepts (`==` chain, `[..].contains(&name)`, a const table, `matches!`), not by its shape
        import shared_rules
        acc = shared_rules.accepted_literals(F, CORE, e["cond"])
        lits = sorted(acc[0]) if acc else lits
        the_name = h["params"][1].get("name") if len(h["params"]) > 1 else None
        ok = acc is not None and sorted(acc[0]) == ["ANS", "_", "ans"] and acc[1] == the_name and len(ret) == 1 \
            and fields == ["previous_result"] and e.get("else") is None
    if not ok:
        # the same decision as a match on the name: `match name { "ans" | "ANS" | "_" => self.previous_result.clone(), _ => .. }`
        lits = []
        for m in hir_walk(body):
            if m.get("k") != "Match" or m.get("src") != "Normal":
                continue
            arms_prev = [a for a in m["arms"] if any(x.get("k") == "Field" and x.get("name") == "previous_result" for x in hir_walk(a["body"]))]
            if len(arms_prev) != 1 or arms_prev[0].get("guard") or m["arms"].index(arms_prev[0]) != 0:
                continue
            a = arms_prev[0]
            pats = a["pat"]["alts"] if a["pat"]["pk"] == "or" else [a["pat"]]
            lits = [p_["e"]["v"] for p_ in pats if p_["pk"] == "expr" and p_["e"].get("lit") == "str"]
            scr = m["scrut"]
            while scr.get("k") in ("Unary", "AddrOf", "DropTemps") and (scr.get("a") or scr.get("e")):
                scr = scr.get("a") or scr.get("e")
            ln = H.local_name(scr) if scr.get("k") == "Path" else None
            fields = [x.get("name") for x in hir_walk(a["body"]) if x.get("k") == "Field"]
            ok = len(lits) == len(pats) and sorted(lits) == ["ANS", "_", "ans"] and bool(ln) and ln[0] == "name" and fields == ["previous_result"]
            e = m
            break
    chk.decide(ok, "ans-lookup", "Context::lookup", "names", "%s:%d" % (fn.file, e["line"] if e else 0),
               "lookup returns previous_result for exactly ans / ANS / _ before consulting temporaries and the registry",
               "Context::lookup's first test is not `name in {ans, ANS, _} -> return previous_result` (literals %s)" % lits)
    # previous_result is read nowhere else in core's evaluation code
    readers = set()
    for g in F.by_crate[CORE]:
        for i, j, st in g.stmts():
            def mentions(pl):
                return any(isinstance(p, dict) and p.get("f") == "previous_result" and facts_norm(p.get("of", "")).endswith(CTX) for p in pl["p"])
            rv = st.get("rv", {})
            pls = []
            if "place" in rv:
                pls.append(rv["place"])
            for key in ("a", "b"):
                if key in rv and facts.place_of(rv[key]):
                    pls.append(facts.place_of(rv[key]))
            if any(mentions(pl) for pl in pls):
                readers.add(g.path)
    allowed = {"loader::context::Context::lookup", "helpers::eval", "<loader::context::Context as core::fmt::Debug>::fmt",
               "loader::context::Context::new"}
    extra = sorted(r for r in readers if r not in allowed)
    chk.decide(not extra and "loader::context::Context::lookup" in readers, "ans-lookup", "rink_core", "readers", "",
               "previous_result is read only by Context::lookup (readers: %s)" % sorted(readers),
               "previous_result is also read by %s" % extra)


def facts_norm(p):
    return cg.norm(p)


def command_words(chk, F):
    """`factorize`, `units`, `search` are commands: they leave `ans` alone.  The arm of parse_query that consumes such a word
    must return on every path; if it can fall through, the rest of the line is evaluated as a plain expression with the
    command word dropped - and its numeric result is stored as `ans` (`search 'foot'` answered `1 foot` and set ans)."""
    fn = F.find(CORE, "parsing::text_query::parse_query")
    h = F.hir_of(fn)
    import hirutil as H

    def diverges(e):
        k = e.get("k")
        if k == "Ret":
            return True
        if k == "Block":
            for s_ in e["stmts"]:
                inner = s_.get("e") if s_["sk"] in ("expr", "semi") else s_.get("init")
                if inner is not None and diverges(inner):
                    return True
            return bool(e.get("expr")) and diverges(e["expr"])
        if k == "If":
            return bool(e.get("else")) and diverges(e["then"]) and diverges(e["else"])
        if k == "Match":
            return all(diverges(a["body"]) for a in e["arms"])
        if k == "DropTemps":
            return diverges(e["e"])
        return False
    ms = [m for m in hir_walk(h["body"]) if m.get("k") == "Match" and m.get("src") == "Normal"]
    n = 0
    for a in ms[0]["arms"]:
        g = a.get("guard")
        if not g:
            continue
        word = None
        for x in hir_walk(g):
            if x.get("k") == "Lit" and x["lit"].get("lit") == "str":
                word = x["lit"].get("v")
        if word not in ("factorize", "units", "search"):
            continue
        n += 1
        chk.decide(diverges(a["body"]), "commands-do-not-fall-through", "rink_core::parsing::text_query::parse_query", "arm:" + word,
                   "%s:%d" % (fn.file, a["line"]),
                   "the `%s` arm returns a command query (or an error) on every path" % word,
                   "the `%s` arm can fall through after consuming the command word: the rest of the line is evaluated as a plain expression and "
                   "its result is stored as `ans`" % word)
    if n < 3:
        chk.anchor_lost("commands-do-not-fall-through", "parse_query", "expected the factorize/units/search arms, found %d" % n)
