use crate::json::{s, J};
use crate::mirdump::ty_str;
use crate::{def_id_str, loc, path_str};
use rustc_hir::def::DefKind;
use rustc_middle::ty::{self, Ty, TyCtxt, TypingEnv};
use std::collections::BTreeSet;

/// Deep interior-mutability walk: every way an `UnsafeCell` (or an opaque `dyn`/pointer to
/// unknown data) is reachable from `t` through fields, generic arguments and pointers.
fn walk_im<'tcx>(
    tcx: TyCtxt<'tcx>,
    env: TypingEnv<'tcx>,
    t: Ty<'tcx>,
    trail: &mut Vec<String>,
    seen: &mut BTreeSet<String>,
    out: &mut Vec<J>,
    depth: usize,
) {
    let key = ty_str(t);
    if depth > 24 || !seen.insert(key.clone()) {
        return;
    }
    match t.kind() {
        ty::Adt(adt, args) => {
            let p = path_str(tcx, adt.did());
            if adt.is_unsafe_cell() {
                out.push(J::O(vec![("what", s("UnsafeCell")), ("ty", s(&key)), ("trail", J::A(trail.iter().map(s).collect()))]));
                return;
            }
            if adt.did().is_local() {
                for v in adt.variants().iter() {
                    for f in v.fields.iter() {
                        let fty = f.ty(tcx, args);
                        trail.push(format!("{}::{}.{}", p, v.name, f.name));
                        walk_im(tcx, env, fty, trail, seen, out, depth + 1);
                        trail.pop();
                    }
                }
            } else {
                // external ADT: shallow Freeze test for the type itself, then its type arguments
                if !t.is_freeze(tcx, env) {
                    out.push(J::O(vec![("what", s("not Freeze")), ("ty", s(&key)), ("trail", J::A(trail.iter().map(s).collect()))]));
                }
                for a in args.types() {
                    trail.push(format!("<{}>", p));
                    walk_im(tcx, env, a, trail, seen, out, depth + 1);
                    trail.pop();
                }
            }
        }
        ty::Ref(_, inner, _) | ty::RawPtr(inner, _) => {
            trail.push("*".into());
            walk_im(tcx, env, *inner, trail, seen, out, depth + 1);
            trail.pop();
        }
        ty::Array(inner, _) | ty::Slice(inner) => walk_im(tcx, env, *inner, trail, seen, out, depth + 1),
        ty::Tuple(ts) => {
            for x in ts.iter() {
                walk_im(tcx, env, x, trail, seen, out, depth + 1);
            }
        }
        ty::Dynamic(..) => {
            out.push(J::O(vec![("what", s("dyn")), ("ty", s(&key)), ("trail", J::A(trail.iter().map(s).collect()))]));
        }
        _ => {}
    }
}

pub fn dump_all<'tcx>(tcx: TyCtxt<'tcx>) -> (Vec<J>, Vec<J>) {
    let mut adts = vec![];
    let mut statics = vec![];
    for ldid in tcx.hir_crate_items(()).definitions() {
        let did = ldid.to_def_id();
        match tcx.def_kind(did) {
            DefKind::Struct | DefKind::Enum | DefKind::Union => {
                let adt = tcx.adt_def(did);
                let env = TypingEnv::post_analysis(tcx, did);
                let mut variants = vec![];
                for v in adt.variants().iter() {
                    let mut fields = vec![];
                    for f in v.fields.iter() {
                        let fty = tcx.type_of(f.did).instantiate_identity().skip_norm_wip();
                        fields.push(J::O(vec![("name", s(f.name.to_string())), ("ty", s(ty_str(fty)))]));
                    }
                    // the discriminant: `Relative(i)` = i after the last explicit one; an enum whose variants are all
                    // Relative(position) numbers them 0, 1, 2 .. in declaration order
                    let discr = match v.discr {
                        ty::VariantDiscr::Relative(i) => s(format!("rel:{}", i)),
                        ty::VariantDiscr::Explicit(_) => s("explicit"),
                    };
                    variants.push(J::O(vec![("name", s(v.name.to_string())), ("fields", J::A(fields)), ("discr", discr)]));
                }
                let selfty = tcx.type_of(did).instantiate_identity().skip_norm_wip();
                let mut im = vec![];
                let generic = tcx.generics_of(did).own_params.iter().any(|p| matches!(p.kind, ty::GenericParamDefKind::Type { .. }));
                walk_im(tcx, env, selfty, &mut vec![], &mut BTreeSet::new(), &mut im, 0);
                adts.push(J::O(vec![
                    ("path", s(path_str(tcx, did))),
                    ("id", s(def_id_str(tcx, did))),
                    ("kind", s(format!("{:?}", tcx.def_kind(did)))),
                    ("loc", loc(tcx, tcx.def_span(did))),
                    ("generic", J::B(generic)),
                    ("variants", J::A(variants)),
                    ("interior_mut", J::A(im)),
                ]));
            }
            DefKind::Static { mutability, .. } => {
                let t = tcx.type_of(did).instantiate_identity().skip_norm_wip();
                let env = TypingEnv::post_analysis(tcx, did);
                let mut im = vec![];
                walk_im(tcx, env, t, &mut vec![], &mut BTreeSet::new(), &mut im, 0);
                statics.push(J::O(vec![
                    ("path", s(path_str(tcx, did))),
                    ("ty", s(ty_str(t))),
                    ("mutable", J::B(mutability.is_mut())),
                    ("freeze", J::B(t.is_freeze(tcx, env))),
                    ("interior_mut", J::A(im)),
                    ("loc", loc(tcx, tcx.def_span(did))),
                ]));
            }
            _ => {}
        }
    }
    (adts, statics)
}
